#!/bin/bash
# C20: build the loom harness (feature verif_loom) and the explorer, run the schedule exploration, then the
# history exploration; the explorer merges both into evidence/C20.json.
set -u
cd "$(dirname "$0")"
TIER="${1:-quick}"
export CARGO_NET_OFFLINE=true VERIF_DIR="$PWD"
(
  flock 9
  (cd mc && CARGO_TARGET_DIR="$PWD/target" TMC_PROFILE=checked cargo build --offline --profile checked -p tmc >build-checked.log 2>&1) || { echo "MACHINERY: harness build failed" >&2; tail -30 mc/build-checked.log >&2; exit 2; }
  (cd mc-loom && CARGO_TARGET_DIR="$PWD/target" cargo build --offline --release >build.log 2>&1) || { echo "MACHINERY: loom harness build failed" >&2; tail -30 mc-loom/build.log >&2; exit 2; }
) 9>mc/.build.lock || exit 2
J=$(mktemp /tmp/c20loom.XXXXXX)
timeout 3000 mc-loom/target/release/tmc-loom "$TIER" >"$J" 2>mc-loom/run.log
rc=$?
if [ $rc -ne 0 ] || ! [ -s "$J" ]; then echo "MACHINERY: loom run failed (rc=$rc)" >&2; tail -20 mc-loom/run.log >&2; rm -f "$J"; exit 2; fi
TMC_LOOM_JSON="$J" mc/target/checked/tmc check C20 --tier "$TIER"; rc=$?
rm -f "$J"
exit $rc

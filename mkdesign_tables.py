#!/usr/bin/env python3
"""Regenerates the two generated tables of DESIGN.md section 8 (seeded changes, open findings)
from seeded/*/meta.json and known_findings.json. Run after adding a seed or a finding."""
import json, glob, os, re
root = os.path.dirname(os.path.abspath(__file__))
rows = []
for d in sorted(glob.glob(f'{root}/seeded/*/meta.json')):
    m = json.load(open(d)); name = os.path.basename(os.path.dirname(d))
    first = 'missed at first; caught after strengthening' if m.get('strengthened') else 'caught as built'
    needs = m['needs'].replace('|', '/')
    rows.append(f"| `{name}` | {m['property']} | {needs[:260]}{'…' if len(needs) > 260 else ''} | {first} |")
seeds = "| change | property | what it needs to manifest | caught by the property's quick check |\n|---|---|---|---|\n" + "\n".join(rows)
k = json.load(open(f'{root}/known_findings.json'))
frows = []
for f in k['findings']:
    what = f['what'].replace('|', '/')
    frows.append(f"| `{f['id']}` | {', '.join(f['property'])} | {what[:330]}{'…' if len(what) > 330 else ''} |")
finds = "| finding | properties | what fails |\n|---|---|---|\n" + "\n".join(frows)
s = open(f'{root}/DESIGN.md').read()
def put(s, tag, body):
    a, b = f'<!-- {tag}:begin -->', f'<!-- {tag}:end -->'
    assert a in s and b in s, tag
    return s[:s.index(a) + len(a)] + "\n" + body + "\n" + s[s.index(b):]
s = put(s, 'seeds-table', seeds)
s = put(s, 'findings-table', finds)
open(f'{root}/DESIGN.md', 'w').write(s)
print(len(rows), 'seeds;', len(frows), 'open findings;', len(k['fixed']), 'fixed entries')

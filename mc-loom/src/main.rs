//! C20 part 1 — exhaustive exploration of thread schedules of the real convenience wrappers under
//! loom's controlled scheduler. `TZ_PROVIDER` is a loom lazy_static + loom Mutex in this build
//! (feature verif_loom), so every lock / unlock / first initialisation is a scheduling point.

use std::sync::atomic::{AtomicUsize, Ordering};
use std::sync::{Arc as StdArc, Mutex as StdMutex};
use temporal_rs::options::{DisplayCalendar, DisplayOffset, DisplayTimeZone, RelativeTo, RoundingOptions, ToStringRoundingOptions, Unit};
use temporal_rs::tzdb::FsTzdbProvider;
use temporal_rs::{Calendar, Duration, Instant, TimeZone, ZonedDateTime};

fn zdt(ns: i128, zone: &str) -> ZonedDateTime {
    ZonedDateTime::try_new(ns, Calendar::default(), TimeZone::try_from_str(zone).unwrap()).unwrap()
}
fn dur(h: i32) -> Duration {
    Duration::new(0.into(), 0.into(), 0.into(), 1.into(), h.into(), 0.into(), 0.into(), 0.into(), 0.into(), 0.into()).unwrap()
}

/// One convenience-API call, identified by a small integer; returns a rendered result.
fn call(op: usize, shared: bool) -> String {
    let p = FsTzdbProvider::default();
    let t = 1_636_263_000_001_002_003i128;
    macro_rules! pick {
        ($w:expr, $c:expr) => {
            if shared {
                format!("{:?}", $w.map_err(|e| e.kind()))
            } else {
                format!("{:?}", $c.map_err(|e| e.kind()))
            }
        };
    }
    match op {
        0 => pick!(zdt(t, "America/New_York").hour(), zdt(t, "America/New_York").hour_with_provider(&p)),
        1 => pick!(zdt(t, "Europe/London").add(&dur(5), None).map(|z| z.epoch_nanoseconds().as_i128()), zdt(t, "Europe/London").add_with_provider(&dur(5), None, &p).map(|z| z.epoch_nanoseconds().as_i128())),
        2 => pick!(zdt(t, "Europe/London").day(), zdt(t, "Europe/London").day_with_provider(&p)),
        3 => pick!(
            zdt(t, "America/New_York").until(&zdt(t + 90_000_000_000_000, "America/New_York"), Default::default()).map(|d| format!("{d:?}")),
            zdt(t, "America/New_York").until_with_provider(&zdt(t + 90_000_000_000_000, "America/New_York"), Default::default(), &p).map(|d| format!("{d:?}"))
        ),
        4 => pick!(zdt(t, "Not/AZone").hour(), zdt(t, "Not/AZone").hour_with_provider(&p)),
        5 => pick!(
            zdt(t, "Asia/Tokyo").to_ixdtf_string(DisplayOffset::Auto, DisplayTimeZone::Auto, DisplayCalendar::Auto, ToStringRoundingOptions::default()),
            zdt(t, "Asia/Tokyo").to_ixdtf_string_with_provider(DisplayOffset::Auto, DisplayTimeZone::Auto, DisplayCalendar::Auto, ToStringRoundingOptions::default(), &p)
        ),
        6 => {
            let mut o = RoundingOptions::default();
            o.largest_unit = Some(Unit::Day);
            let o2 = o;
            pick!(
                dur(30).round(o, Some(RelativeTo::ZonedDateTime(zdt(t, "America/New_York")))).map(|d| format!("{d:?}")),
                dur(30).round_with_provider(o2, Some(RelativeTo::ZonedDateTime(zdt(t, "America/New_York"))), &p).map(|d| format!("{d:?}"))
            )
        }
        7 => pick!(
            Instant::try_new(t).unwrap().to_ixdtf_string(Some(&TimeZone::try_from_str("Asia/Tokyo").unwrap()), ToStringRoundingOptions::default()),
            Instant::try_new(t).unwrap().to_ixdtf_string_with_provider(Some(&TimeZone::try_from_str("Asia/Tokyo").unwrap()), ToStringRoundingOptions::default(), &p)
        ),
        8 => {
            // the Display implementation (to_string / format!): it takes the shared provider itself
            if shared {
                use std::fmt::Write;
                let mut text = String::new();
                match write!(&mut text, "{}", zdt(t, "Europe/London")) {
                    Ok(()) => format!("Ok({text:?})"),
                    Err(_) => "Err(fmt::Error)".to_string(),
                }
            } else {
                format!("{:?}", zdt(t, "Europe/London").to_string_with_provider(&p).map_err(|e| e.kind()))
            }
        }
        _ => unreachable!(),
    }
}

struct Harness {
    name: &'static str,
    threads: Vec<Vec<usize>>,
    preemption_bound: Option<usize>,
}

fn run(h: &Harness) -> serde_json::Value {
    // sequential reference: core methods with a fresh provider, computed before the model starts
    let reference: Vec<Vec<String>> = h.threads.iter().map(|ops| ops.iter().map(|o| call(*o, false)).collect()).collect();
    let executions = StdArc::new(AtomicUsize::new(0));
    let orders: StdArc<StdMutex<std::collections::BTreeSet<Vec<(usize, usize)>>>> = StdArc::new(StdMutex::new(Default::default()));
    let mismatch: StdArc<StdMutex<Option<String>>> = StdArc::new(StdMutex::new(None));
    let mut b = loom::model::Builder::new();
    b.preemption_bound = h.preemption_bound;
    b.max_branches = 100_000;
    let threads = h.threads.clone();
    let (ex, or, mm, rf) = (executions.clone(), orders.clone(), mismatch.clone(), reference.clone());
    let t0 = std::time::Instant::now();
    b.check(move || {
        ex.fetch_add(1, Ordering::Relaxed);
        let log: StdArc<StdMutex<Vec<(usize, usize)>>> = StdArc::new(StdMutex::new(vec![]));
        let mut hs = vec![];
        for (ti, ops) in threads.iter().enumerate() {
            let ops = ops.clone();
            let (log, mm, rf) = (log.clone(), mm.clone(), rf.clone());
            hs.push(
                loom::thread::Builder::new()
                    .stack_size(0x100000)
                    .spawn(move || {
                        for (k, op) in ops.iter().enumerate() {
                            let got = call(*op, true);
                            log.lock().unwrap().push((ti, k));
                            if got != rf[ti][k] {
                                *mm.lock().unwrap() = Some(format!("thread {ti} call {k} (op {op}): got {got}, alone it returns {}", rf[ti][k]));
                            }
                        }
                    })
                    .unwrap(),
            );
        }
        for h in hs {
            h.join().unwrap();
        }
        or.lock().unwrap().insert(log.lock().unwrap().clone());
    });
    let mism = mismatch.lock().unwrap().clone();
    serde_json::json!({
        "harness": h.name,
        "threads": h.threads,
        "preemption_bound": h.preemption_bound.map(|x| x as i64).unwrap_or(-1),
        "schedules": executions.load(Ordering::Relaxed),
        "distinct_completion_orders": orders.lock().unwrap().len(),
        "mismatch": mism,
        "wall_s": t0.elapsed().as_secs_f64(),
    })
}

fn main() {
    let tier = std::env::args().nth(1).unwrap_or_else(|| "quick".into());
    let mut hs = vec![
        Harness { name: "2 threads x 2 calls, unbounded", threads: vec![vec![0, 1], vec![2, 3]], preemption_bound: None },
        Harness { name: "3 threads x 2 calls, preemption bound 2", threads: vec![vec![0, 1], vec![2, 3], vec![4, 5]], preemption_bound: Some(2) },
        Harness { name: "2 threads, same zone cold cache, unbounded", threads: vec![vec![0, 6], vec![3, 0]], preemption_bound: None },
        Harness { name: "2 threads, Display next to getters, unbounded", threads: vec![vec![8, 0], vec![2, 8]], preemption_bound: None },
    ];
    if tier == "thorough" {
        hs.push(Harness { name: "3 threads x 2 calls, unbounded", threads: vec![vec![0, 1], vec![2, 3], vec![4, 5]], preemption_bound: None });
        hs.push(Harness { name: "4 threads x 1 call, unbounded", threads: vec![vec![0], vec![2], vec![4], vec![7]], preemption_bound: None });
        hs.push(Harness { name: "3 threads x 3 calls, preemption bound 3", threads: vec![vec![0, 1, 7], vec![2, 3, 0], vec![4, 5, 6]], preemption_bound: Some(3) });
    }
    let mut out = vec![];
    for h in &hs {
        // loom reports deadlocks / lost wake-ups by panicking; a panic here is a finding
        let r = std::panic::catch_unwind(std::panic::AssertUnwindSafe(|| run(h)));
        match r {
            Ok(v) => out.push(v),
            Err(e) => {
                let msg = e.downcast_ref::<String>().cloned().or_else(|| e.downcast_ref::<&str>().map(|s| s.to_string())).unwrap_or_default();
                out.push(serde_json::json!({"harness": h.name, "loom_panic": msg}));
            }
        }
    }
    println!("{}", serde_json::to_string(&out).unwrap());
}

#!/usr/bin/env python3
"""Cross-validates the Rust TZif reference model (R7) against CPython's zoneinfo on the identical query list.
usage: tzif_crosscheck.py <dump.jsonl>   (dump produced by `tmc r7dump <file>`)
Prints a summary; exit 0 if every compared answer agrees, 1 otherwise (a machinery defect, never a verdict)."""
import sys, json, datetime, zoneinfo
UTC = datetime.timezone.utc
EPOCH = datetime.datetime(1970, 1, 1, tzinfo=UTC)
NAIVE = datetime.datetime(1970, 1, 1)
bad = 0; n = 0; nl = 0; zones = 0; skipped = 0
for line in open(sys.argv[1]):
    rec = json.loads(line)
    if "error" in rec:
        skipped += 1; continue
    try:
        z = zoneinfo.ZoneInfo(rec["zone"])
    except Exception as e:
        skipped += 1; continue
    zones += 1
    for ts, off in rec["offsets"]:
        dt = (EPOCH + datetime.timedelta(seconds=ts)).astimezone(z)
        got = int(dt.utcoffset().total_seconds())
        n += 1
        if got != off:
            bad += 1
            if bad <= 20: print("OFFSET MISMATCH", rec["zone"], ts, "model", off, "cpython", got)
    for l, cands in rec["locals"]:
        naive = NAIVE + datetime.timedelta(seconds=l)
        got = set()
        for fold in (0, 1):
            dt = naive.replace(tzinfo=z, fold=fold)
            off = dt.utcoffset()
            t = l - int(off.total_seconds())
            # a candidate is real iff converting back gives the same wall time
            back = (EPOCH + datetime.timedelta(seconds=t)).astimezone(z)
            if back.replace(tzinfo=None) == naive:
                got.add(t)
        nl += 1
        if got != set(cands):
            bad += 1
            if bad <= 20: print("LOCAL MISMATCH", rec["zone"], l, "model", cands, "cpython", sorted(got))
print(f"zones={zones} skipped={skipped} offset_queries={n} local_queries={nl} disagreements={bad}")
sys.exit(1 if bad else 0)

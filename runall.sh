#!/bin/bash
# runall.sh [quick|thorough] — every registered check in turn; prints one line per check.
TIER=${1:-quick}
cd "$(dirname "$0")"
rc_all=0
for id in $(python3 -c "import json; print(' '.join(c['property_id'] for c in json.load(open('MANIFEST.json'))['checks']))"); do
  out=$(./run.sh "$id" "$TIER" 2>&1); rc=$?
  echo "$id exit=$rc $(echo "$out" | grep -c '^KNOWN-FINDING') known-finding line(s) $(echo "$out" | grep -E '^\[C[0-9]+\] .* -> exit' | tail -1 | sed 's/.*transitions=/transitions=/')"
  [ $rc -ne 0 ] && rc_all=1
done
exit $rc_all

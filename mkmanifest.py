#!/usr/bin/env python3
"""Generates MANIFEST.json from the table below (kept in one place so that it is always valid)."""
import json, subprocess

CHECKS = {
 "C01": dict(cat="exploration", tech="exhaustive range walk of all 200,000,002 days (bounded exhaustive exploration of the real code vs an odometer reference model)",
   text="Every day of the supported range is enumerated (finite space, exhaustive: true). Each day is a transition 'next day' of an odometer reference model (month table + 4/100/400 rule) checked in lock-step against PlainDate::try_new, all field/derived getters, compare_iso, add(P1D), until(day) from the epoch; plus per-year facts for all 547,582 years and rejection of the days just outside the range. The thorough tier adds the full battery on every day (N-day add/subtract, since, UTC instant round trip, PlainDateTime/Instant order), local pairs (E, E+k) and all ordered pairs of a ~300-day boundary set.",
   note="Trusted: the R1 odometer as definition of the proleptic Gregorian calendar and ISO-8601 week rule (its closed form is re-validated against the odometer over the whole range on every run). Quick tier runs the inverse/UTC part of the battery on the 10.4M non-trivial days and every 16th day only.",
   ref="3/C01"),
 "C04": dict(cat="model_checking", tech="bounded exhaustive product sweep + depth-2 operation sequences on the real code, lock-step against a reference model (explicit-state exploration)",
   text="Full Cartesian products of a boundary alphabet of receiver dates (month ends, leap days, century years, negative years, both range ends) x sign-uniform durations (years to +-547000, months, weeks, days, time parts around 24h/48h) x {add, subtract} x {constrain, reject, absent}; all ordered date pairs of the alphabet and ALL ordered pairs of days of 2019-2022 (plus 1899-1901, 1999-2001 in thorough) x {until, since} x 6 largest-unit settings; depth-2 chains (add then add, add then measure back) so that non-initial states are receivers. Each transition is compared with R2 (AddISODate / DifferenceISODate transcribed from the specification, i64) and with the laws add(until)=end, since=-until, subtract(d)=add(-d), sign-uniform, balanced.",
   note="Trusted: R2 (validated on every run against the literal linear-search formulation on a 1/7 slice of the dense window and against add(until)=end on every pair). Values outside the alphabets are not covered; ISO calendar only (the crate implements date arithmetic for no other calendar).",
   ref="3/C04"),
}

NOT_APPLICABLE = {}

def main():
    src = subprocess.run(["git", "-C", "/repo", "log", "--format=%H %s"], capture_output=True, text=True).stdout.splitlines()
    hooks = [l.split()[0] for l in src if "verif hooks" in l]
    checks = []
    for pid, c in sorted(CHECKS.items()):
        checks.append({
            "property_id": pid,
            "quick_cmd": f"./run.sh {pid} quick",
            "thorough_cmd": f"./run.sh {pid} thorough",
            "evidence_file": f"/verif/evidence/{pid}.json",
            "replay_cmd_template": "./run.sh replay {path}",
            "engine": "tmc",
            "level_claimed": {"category": c["cat"], "text": c["text"], "design_ref": "DESIGN.md §" + c["ref"]},
            "level_note": c["note"],
            "technique": c["tech"],
        })
    all_ids = [f"C{i:02d}" for i in range(1, 21)]
    na = [{"property_id": p, "reason": NOT_APPLICABLE.get(p, "check not built yet in this session (work in progress; see DESIGN.md §7 build order) — the technique applies, nothing is claimed until the check exists")} for p in all_ids if p not in CHECKS]
    m = {
        "version": 1,
        "setup_cmd": "cd /verif/mc && CARGO_NET_OFFLINE=true cargo build --offline --profile checked -p tmc && TMC_PROFILE=unchecked CARGO_NET_OFFLINE=true cargo build --offline --profile unchecked -p tmc",
        "hooks": {
            "guard": "cargo features verif_hooks / verif_loom of temporal_rs (off by default)",
            "enable": "harness crates depend on temporal_rs with features = [\"compiled_data\", \"verif_hooks\"] (tmc) and [\"verif_loom\"] (tmc-loom)",
            "baseline_off_cmd": "cd /repo && cargo test --workspace --no-fail-fast --offline",
            "source_commits": hooks,
            "add_only": True,
        },
        "engines": [
            {"name": "tmc", "path": "/verif/mc/tmc", "serves_properties": sorted(CHECKS.keys()),
             "kind_free_text": "bounded exhaustive explorer: indexed product spaces / range walks / operation-sequence chains enumerated completely in parallel on the real code, each transition compared in lock-step with reference models (mc/tmc-ref)"},
        ],
        "checks": checks,
        "not_applicable": na,
        "notes": "Known findings: /verif/known_findings.json. Replays: /verif/replays. Seeded breaking changes: /verif/seeded. See DESIGN.md.",
    }
    json.dump(m, open("/verif/MANIFEST.json", "w"), indent=1)
    print("wrote MANIFEST.json with", len(checks), "checks")

main()

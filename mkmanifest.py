#!/usr/bin/env python3
"""Generates MANIFEST.json from the table below (kept in one place so that it is always valid)."""
import json, subprocess

CHECKS = {
 "C01": dict(cat="exploration", tech="exhaustive range walk of all 200,000,002 days (bounded exhaustive exploration of the real code vs an odometer reference model)",
   text="Every day of the supported range is enumerated (finite space, exhaustive: true). Each day is a transition 'next day' of an odometer reference model (month table + 4/100/400 rule) checked in lock-step against PlainDate::try_new, all field/derived getters, compare_iso, add(P1D), until(day) from the epoch; plus per-year facts for all 547,582 years and rejection of the days just outside the range. The thorough tier adds the full battery on every day (N-day add/subtract, since, UTC instant round trip, PlainDateTime/Instant order), local pairs (E, E+k) and all ordered pairs of a ~300-day boundary set.",
   note="Trusted: the R1 odometer as definition of the proleptic Gregorian calendar and ISO-8601 week rule (its closed form is re-validated against the odometer over the whole range on every run). Quick tier runs the inverse/UTC part of the battery on the 10.4M non-trivial days and every 16th day only.",
   ref="3/C01"),
 "C04": dict(cat="model_checking", tech="bounded exhaustive product sweep + depth-2 operation sequences on the real code, lock-step against a reference model (explicit-state exploration)",
   text="Full Cartesian products of a boundary alphabet of receiver dates (month ends, leap days, century years, negative years, both range ends) x sign-uniform durations (years to +-547000, months, weeks, days, time parts around 24h/48h) x {add, subtract} x {constrain, reject, absent}; all ordered date pairs of the alphabet and ALL ordered pairs of days of 2019-2022 (plus 1899-1901, 1999-2001 in thorough) x {until, since} x 6 largest-unit settings; depth-2 chains (add then add, add then measure back) so that non-initial states are receivers. Each transition is compared with R2 (AddISODate / DifferenceISODate transcribed from the specification, i64) and with the laws add(until)=end, since=-until, subtract(d)=add(-d), sign-uniform, balanced.",
   note="Trusted: R2 (validated on every run against the literal linear-search formulation on a 1/7 slice of the dense window and against add(until)=end on every pair). Values outside the alphabets are not covered; ISO calendar only (the crate implements date arithmetic for no other calendar).",
   ref="3/C04"),
 "C05": dict(cat="model_checking", tech="bounded exhaustive product sweeps + depth-2 operation sequences on the real code, lock-step against reference models R2/R3/R4",
   text="A boundary alphabet of ~560 date-times (all month ends and mid-months of 2019-2021, leap days, 1969/1970, year 0, both range ends and their neighbours x 8 times of day from 00:00 to 23:59:59.999999999) x ~650 durations (date parts up to 547000 years, time parts 0, 1 ns, 24h-1ns, 24h, 24h+1ns, 36h, 1e5 h, 2^53-1 ns; both signs) x {add, subtract} x 3 overflow settings; ALL ordered pairs of the date-times x {until, since} x 12 largest-unit settings (half of the pairs have a time-of-day order opposite to their date order); compose/convert routes; depth-2 chains (add, then measure back with every unit). Oracle: AddDateTime / DifferenceISODateTime transcribed from the specification over exact ns, plus the laws a.add(a.until(b,U)) = b, since = -until, sign-uniform, |time part| < 24 h for date largest units. Rounding: every admissible (unit, increment) x residue battery x 9 modes on month-end / year-end / last-representable dates (carry past midnight, RangeError iff the neighbour is out of range).",
   note="Trusted: R2/R3/R4 reference models. Differences whose balanced field exceeds 2^53 (not representable) are skipped. Values outside the alphabets are not covered.",
   ref="3/C05"),
 "C06": dict(cat="model_checking", tech="bounded exhaustive product sweeps and nanosecond range walks on the real code, lock-step against an exact i128 reference model",
   text="432 boundary times x all sign-uniform combinations of per-field duration alphabets {0, 1, wrap-1, wrap, 2^31+1, field maximum (up to 3.6e24 ns, far above 2^63)} for PlainTime add/subtract; 32 boundary instants (range ends, +-1, ms/s/day boundaries, negative values) x the same durations for Instant add/subtract with exact range check, plus durations with any date field (must be refused); a range walk over EVERY nanosecond of [-3e6, +3e6] and of the first/last 2e6 ns of the instant range for epoch_milliseconds = floor(ns/1e6) and from_epoch_milliseconds; all ordered pairs of the time and instant alphabets x 8 largest-unit settings for until/since (exact difference, balanced, since = -until, b.add(a.since(b)) = a); every time within 1000 ns of a second/minute/hour/noon/midnight boundary x small steps (carry chain).",
   note="Trusted: R3 (integer arithmetic mod 86400e9 and on the epoch line; duration fields are integral doubles converted exactly to i128). Durations within 5% of the 2^53 s limit are left to C09. Instant differences whose balanced field exceeds 2^53 are executed but not compared (not representable).",
   ref="3/C06"),
 "C07": dict(cat="exploration", tech="bounded exhaustive sweep of every admissible (unit, increment) x 9 modes x complete residue battery on the real public entry points, against an exact integer rounding model",
   text="For PlainTime::round, PlainDateTime::round (4 dates incl. both range ends), to_ixdtf_string of PlainTime/PlainDateTime/Instant with every fractional-digit precision and minute precision, Instant::round (all 1480 (unit, n) pairs with unit*n dividing 86400e9 ns, odd and even), and until/since of PlainTime, Instant, PlainDateTime with smallestUnit+increment+mode: every admissible increment of every unit, all 9 modes, multiples k in {0,1,2,middle,last,(negative and range-end ones for instants)} and residues {0,1,floor(I/2)-1,floor(I/2),floor(I/2)+1,I-1} - every residue 0..I-1 for I up to 20,000 ns (quick) / 2,000,000 ns (thorough) - mirrored to negative values. Oracle R4: result is floor or ceil multiple, chosen by comparing 2*remainder with the increment and by quotient parity for halfEven; since = -until with negated mode.",
   note="Trusted: R4. Time-of-day rounding follows RoundTime's frame (quantity counted from the start of the enclosing unit, which decides halfEven parity). Negative instants with sign-dependent modes (trunc/expand/halfTrunc/halfExpand) are judged for neighbour membership only: the specification rounds instants as if positive, the property names the direction; both readings are accepted.",
   ref="3/C07"),
 "C09": dict(cat="model_checking", tech="bounded exhaustive product sweeps on the real code, lock-step against an exact i128 duration model",
   text="Validity: ALL 10-field combinations of {0, +1, -1, largest value valid on its own, smallest value invalid on its own} (5^10 = 9.77M; thorough 7^10 with the negative limits) through Duration::new, with sign/negated/abs/is_zero on every accepted one; all 4^10 partial records over {absent, 0, 1, -1} through from_partial_duration, DateDuration::new, TimeDuration::new (empty record = TypeError). All ordered pairs of ~190 operand durations (single fields at 1, 23, 24, 59, 60, 999, 1000, 1e6, 40% and 60% of the limit; mixed balanced/unbalanced ones; both signs; 5 with calendar units) for add, subtract, compare (exact sum of totals balanced to the larger default unit, RangeError beyond the limit or with calendar units, commutativity, antisymmetry). round without relativeTo: durations x (largest incl. absent, smallest) x admissible increments x 9 modes against exact rounding of the total; total(unit) against the exact rational within one ulp.",
   note="Trusted: R5 (exact totals in i128 ns, a day = 24 h). One-ulp allowance on total(). Values outside the alphabets are not covered.",
   ref="3/C09"),
 "C10": dict(cat="exploration", tech="exhaustive enumeration of the complete finite option matrix on the real code against option-resolution tables (bounded exhaustive exploration, whole space)",
   text="The whole matrix {until, since of PlainDate, PlainTime, PlainDateTime, PlainYearMonth, Instant, ZonedDateTime; round of PlainTime, PlainDateTime, Instant; Duration::round for 4 durations with and without a plain relativeTo; Duration::total; toString options of 5 types; RoundingIncrement construction from u32 and f64} x {largestUnit: absent, auto, 10 units} x {smallestUnit: absent, auto, 10 units} x {29 increments: absent, divisors, non-divisors, unit maxima, 1e9} x {mode: absent + 9}: 1.69M calls. Oracle R9 (GetDifferenceSettings and the round/total/toString option steps): invalid cells must be a RangeError for distinct AND for equal operands (i.e. before computing), valid cells must succeed and give the same result as the fully explicit cell (absent largest = auto = larger of default and smallest; absent increment = 1; absent mode = trunc / halfExpand; since(m) = -until(negate(m))); valid cells whose rounding bracket necessarily leaves the representable range (calendar smallestUnit with increment >= 1e6 years etc.) must be a RangeError.",
   note="Trusted: R9 tables. Cells whose admissibility depends on a rule the property does not name (Duration.round with increment > 1, a date smallestUnit and largestUnit != smallestUnit; calendar units without relativeTo) are executed but unjudged (counted in evidence). Increment set is a covering set, not all 1e9 values.",
   ref="3/C10"),
 "C13": dict(cat="model_checking", tech="environment enumeration: bounded exhaustive exploration of generated time-zone rule sets (served through the public provider trait) x instants/wall-clock lattices x option products, lock-step against a brute-force zone model",
   text="All 2879 fixed offsets (+-HH:MM up to 23:59) x 6 instants incl. both range ends: reading, offset string, wall->instant with 4 disambiguations, string round trip. Generated rule sets (342 quick / ~1700 thorough): base offset (-11:00..+13:00, +05:45, an LMT-like -04:56:02) x offset change of 30 min, 1 h, 2 h, 3 h, 3 h 01, 4 h, 12 h, 23 h, 24 h, 25 h in both directions x local time of the transition x second transition (none, 1 h later, 182 days later), served by a harness-owned TimeZoneProvider so that the code under test never reads zone data of its own. Per rule set: the instants at the transition and +-{1 ns, 1 s, 1 h, |change|} and an hourly (quick) / 15-minute (thorough) lattice over +-26 h for instant->fields (9 getters, to_plain_datetime, offset ns and text); the same lattice and the ns edges of every gap/overlap as wall-clock times for PlainDateTime/PlainDate::to_zoned_date_time (4 disambiguations, start of day), ZonedDateTime::from_str and RelativeTo::try_from_str (offset text absent / Z / each offset of the transition / rounded to the minute / wrong by a minute) and from_partial x 4 disambiguations x 4 offset options.",
   note="Trusted: R6 (brute force over the distinct offsets; gap offsets by the specification's before/after definition). Skipped times that the specification's own algorithm cannot resolve (two transitions closer than the gap) are not judged here (C03 executes them). Real IANA rule sets are exercised under C15 (provider) and end-to-end there. Known findings: the +-3 h probe in gap disambiguation and start-of-day (3 entries) - their region (skipped times in gaps > 3 h, zones with two transitions within 6 h) has no detection power left for other defects.",
   ref="3/C13"),
 "C17": dict(cat="model_checking", tech="bounded exhaustive product sweep over all subsets of fields x value alphabets x receivers on the real code, lock-step against a field-resolution model",
   text="PlainDate::from_partial / with, PlainDateTime::from_partial / with, PlainTime::from_partial / with / new_with_overflow, ZonedDateTime::from_partial (fixed-offset zones) / with: every combination of {absent or a value} per field - year 8 values incl. the range ends and i32::MIN/MAX, month {0,1,2,12,13,255}, monthCode {M01,M02,M12,M13,M02L,M00,M99}, day {0,1,28..32,255}, hour {0,23,24,255}, minute/second {0,59,60,255}, sub-second {0,999,1000,65535} - x 24 receivers (month ends, leap days, range ends) x {constrain, reject, absent}. Oracle R10: supplied field else receiver's (month and monthCode merge as one field), constrain clamps month to 1..12 and day to the month length of the RESULTING year/month, reject = RangeError, month/monthCode contradiction or a code unknown to the calendar = RangeError, missing required field or empty record = TypeError, result outside the limits = RangeError; identity for every subset of a value's own fields; PlainDateTime::with keeps unsupplied time fields.",
   note="Trusted: R10 (ISO calendar). Unjudged: zero month/day (the ECMAScript layer rejects them before Temporal; the property sentence would clamp). A record that is both incomplete and invalid may raise either TypeError or RangeError. Era fields are exercised in C16. Known finding: ZonedDateTime::with is unimplemented.",
   ref="3/C17"),
 "C18": dict(cat="model_checking", tech="bounded exhaustive route matrix and product sweeps on the real code (explicit enumeration of construction routes x values), differential between routes plus reference model",
   text="For every (year, month) of the alphabet (53 years quick / ~1400 thorough incl. both range ends +-1, year 0, 9999/10000; months 0..13) EVERY construction route - constructor, 7 string shapes (YYYY-MM, YYYYMM, signed 6-digit year, full dates for several days, date-times, with [u-ca=iso8601]), PlainDate::to_plain_year_month from every day of the month, 5 field-record shapes x 2 overflow modes, with() - must give the canonical value: == and compare_iso equal and identical to_ixdtf_string under all 4 calendar display options; out-of-limit year-months must be RangeErrors on every route. All month-days 0..13 x 0..33 x overflow x reference year {absent, 1972, 2021, 2020} through the constructor, 5 string shapes, full-date strings and PlainDate::to_plain_month_day; canonical texts. Year-month add/subtract x 288 durations x overflow (weeks/days must be refused, result canonical, limits) and until/since for all ordered pairs (incl. values with an explicit reference day) x largest units, with a.add(a.until(b)) = b.",
   note="Trusted: R10/R2. Unjudged: whole days hidden in time units for year-month arithmetic; the year-month -271821-04 as receiver or result of add/subtract (its first day is not a representable date, the specification's own algorithm fails there); zero month/day. Rounded year-month differences are covered under C08.",
   ref="3/C18"),
}

NOT_APPLICABLE = {}

def main():
    src = subprocess.run(["git", "-C", "/repo", "log", "--format=%H %s"], capture_output=True, text=True).stdout.splitlines()
    hooks = [l.split()[0] for l in src if "verif hooks" in l]
    checks = []
    for pid, c in sorted(CHECKS.items()):
        checks.append({
            "property_id": pid,
            "quick_cmd": f"./run.sh {pid} quick",
            "thorough_cmd": f"./run.sh {pid} thorough",
            "evidence_file": f"/verif/evidence/{pid}.json",
            "replay_cmd_template": "./run.sh replay {path}",
            "engine": "tmc",
            "level_claimed": {"category": c["cat"], "text": c["text"], "design_ref": "DESIGN.md §" + c["ref"]},
            "level_note": c["note"],
            "technique": c["tech"],
        })
    all_ids = [f"C{i:02d}" for i in range(1, 21)]
    na = [{"property_id": p, "reason": NOT_APPLICABLE.get(p, "check not built yet in this session (work in progress; see DESIGN.md §7 build order) — the technique applies, nothing is claimed until the check exists")} for p in all_ids if p not in CHECKS]
    m = {
        "version": 1,
        "setup_cmd": "cd /verif/mc && CARGO_NET_OFFLINE=true cargo build --offline --profile checked -p tmc && TMC_PROFILE=unchecked CARGO_NET_OFFLINE=true cargo build --offline --profile unchecked -p tmc",
        "hooks": {
            "guard": "cargo features verif_hooks / verif_loom of temporal_rs (off by default)",
            "enable": "harness crates depend on temporal_rs with features = [\"compiled_data\", \"verif_hooks\"] (tmc) and [\"verif_loom\"] (tmc-loom)",
            "baseline_off_cmd": "cd /repo && cargo test --workspace --no-fail-fast --offline",
            "source_commits": hooks,
            "add_only": True,
        },
        "engines": [
            {"name": "tmc", "path": "/verif/mc/tmc", "serves_properties": sorted(CHECKS.keys()),
             "kind_free_text": "bounded exhaustive explorer: indexed product spaces / range walks / operation-sequence chains enumerated completely in parallel on the real code, each transition compared in lock-step with reference models (mc/tmc-ref)"},
        ],
        "checks": checks,
        "not_applicable": na,
        "notes": "Known findings: /verif/known_findings.json. Replays: /verif/replays. Seeded breaking changes: /verif/seeded. See DESIGN.md.",
    }
    json.dump(m, open("/verif/MANIFEST.json", "w"), indent=1)
    print("wrote MANIFEST.json with", len(checks), "checks")

main()

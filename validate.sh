#!/bin/bash
# validates MANIFEST.json and every evidence file against the schemas
python3-vt - <<'P'
import json, jsonschema, glob
jsonschema.validate(json.load(open('/verif/MANIFEST.json')), json.load(open('/root/.vp/MANIFEST.schema.json')))
print('MANIFEST ok')
es = json.load(open('/root/.vp/EVIDENCE.schema.json'))
for f in sorted(glob.glob('/verif/evidence/C??.json')):
    jsonschema.validate(json.load(open(f)), es); print(f, 'ok')
P

//! C02 — every value produced is in range; out-of-range results are RangeErrors; the boundary is exact.
//!
//! (1) boundary exploration: the values within two units of every limit of every type x every
//!     constructor / conversion / arithmetic / rounding / difference operation, with exact
//!     big-integer results as oracle (these spaces keep their full oracle);
//! (2) monitor: the quick-tier spaces of all the other checks re-run with the reduced oracle
//!     "Ok iff the exact result exists, RangeError otherwise, never a panic".

use crate::checks::c07::{round_time_of_day, Inc};
use crate::conv::*;
use crate::engine::*;
use crate::imp::*;
use crate::providers::ErrProvider;
use serde_json::json;
use std::str::FromStr;
use temporal_rs::error::ErrorKind;
use temporal_rs::options::{ArithmeticOverflow, Disambiguation, ToStringRoundingOptions};
use temporal_rs::parsers::Precision;
use temporal_rs::{Calendar, Duration, Instant, PlainDate, PlainDateTime, PlainYearMonth, TimeZone, ZonedDateTime};
use tmc_ref::r1::*;
use tmc_ref::r2::{add_date_time, diff_date_time, DUnit, DateDur, Dt, Overflow, Ymd};
use tmc_ref::r3;
use tmc_ref::r4::Mode as RMode;
use tmc_ref::r8f::offset_text;

const TODS: [i128; 6] = [0, 1, 12 * 3_600_000_000_000, NS_PER_DAY - 1, NS_PER_DAY - 1_000_000_000, 43_200_000_000_001];

fn boundary_days() -> Vec<i64> {
    vec![MIN_DAY - 2, MIN_DAY - 1, MIN_DAY, MIN_DAY + 1, MIN_DAY + 2, -1, 0, 1, MAX_DAY - 2, MAX_DAY - 1, MAX_DAY, MAX_DAY + 1, MAX_DAY + 2]
}

fn range(ok: bool) -> Result<(), ErrorKind> {
    if ok {
        Ok(())
    } else {
        Err(ErrorKind::Range)
    }
}

fn dt_ok(day: i64, tod: i128) -> bool {
    (MIN_DAY..=MAX_DAY).contains(&day) && dt_in_limits(day, tod)
}

fn instant_ok(ns: i128) -> bool {
    (-MAX_INSTANT_NS..=MAX_INSTANT_NS).contains(&ns)
}

fn date_of(day: i64) -> Option<PlainDate> {
    let (y, m, d) = civil_from_days(day);
    call(|| pd(y, m, d)).ok().cloned()
}

/// value monitor: a date-time the implementation handed out must lie inside the limits
fn check_dt_value(out: &mut Out, op: &str, v: &PlainDateTime, attrs: impl Fn() -> Vec<(&'static str, String)>) {
    let (day, tod) = dt_parts(v);
    out.law(&format!("{op}: returned date-time is inside the limits"), dt_ok(day, tod), attrs);
}

struct DateBoundary;
impl Space for DateBoundary {
    fn name(&self) -> String {
        "c02.date_boundary".into()
    }
    fn len(&self) -> u64 {
        boundary_days().len() as u64
    }
    fn block(&self) -> u64 {
        1
    }
    fn full_oracle(&self) -> bool {
        true
    }
    fn eval(&self, i: u64, out: &mut Out) {
        let day = boundary_days()[i as usize];
        let (y, m, d) = civil_from_days(day);
        let in_range = (MIN_DAY..=MAX_DAY).contains(&day);
        let a0 = || vec![("day", day.to_string()), ("date", format!("{y}-{m}-{d}")), ("side", if day < 0 { "lower" } else { "upper" }.to_string())];
        // constructors
        for (name, got) in [
            ("PlainDate::try_new", call(|| PlainDate::try_new(y as i32, m, d, Calendar::default()))),
            ("PlainDate::new (constrain)", call(|| PlainDate::new(y as i32, m, d, Calendar::default()))),
            ("PlainDate::new_with_overflow(reject)", call(|| PlainDate::new_with_overflow(y as i32, m, d, Calendar::default(), ArithmeticOverflow::Reject))),
            ("PlainDate::from_str", call(|| PlainDate::from_str(&tmc_ref::r8f::date_text(y, m, d)))),
        ] {
            out.lockstep(name, &range(in_range).map(|_| day), &got, |a, b| days_from_civil(b.year() as i64, b.month(), b.day()) == *a, a0);
        }
        for tod in TODS {
            let a = || {
                let mut v = a0();
                v.push(("time_of_day_ns", tod.to_string()));
                v
            };
            let f = tod_fields(tod);
            let model = range(dt_ok(day, tod)).map(|_| (day, tod));
            let got = call(|| PlainDateTime::try_new(y as i32, m, d, f.0, f.1, f.2, f.3, f.4, f.5, Calendar::default()));
            out.lockstep("PlainDateTime::try_new", &model, &got, |a, b| dt_parts(b) == *a, a);
            let got = call(|| PlainDateTime::new(y as i32, m, d, f.0, f.1, f.2, f.3, f.4, f.5, Calendar::default()));
            out.lockstep("PlainDateTime::new (constrain)", &model, &got, |a, b| dt_parts(b) == *a, a);
            let text = format!("{}T{}", tmc_ref::r8f::date_text(y, m, d), tmc_ref::r8f::time_text(tod, tmc_ref::r8f::Prec::Auto));
            let got = call(|| PlainDateTime::from_str(&text));
            out.lockstep("PlainDateTime::from_str", &model, &got, |a, b| dt_parts(b) == *a, a);
        }
        let Some(date) = date_of(day) else { return };
        out.nontrivial += 1;
        // conversions of a representable date
        for (k, tod) in TODS.iter().enumerate() {
            let a = || {
                let mut v = a0();
                v.push(("time_of_day_ns", tod.to_string()));
                v
            };
            let time = plain_time(*tod).unwrap();
            let model = range(dt_ok(day, *tod)).map(|_| (day, *tod));
            let got = call(|| date.to_plain_date_time(Some(time)));
            out.lockstep("PlainDate::to_plain_date_time(time)", &model, &got, |a, b| dt_parts(b) == *a, a);
            let got = call(|| PlainDateTime::from_date_and_time(date.clone(), time));
            out.lockstep("PlainDateTime::from_date_and_time", &model, &got, |a, b| dt_parts(b) == *a, a);
            if k == 0 {
                let got = call(|| date.to_plain_date_time(None));
                out.lockstep("PlainDate::to_plain_date_time(None)", &model, &got, |a, b| dt_parts(b) == *a, a);
                // infallible conversion: whatever it returns must be a valid value
                if let Oc::Ok(v) = call_inf(|| PlainDateTime::from(date.clone())) {
                    check_dt_value(out, "From<PlainDate> for PlainDateTime", &v, a);
                }
            }
            // to a fixed-offset zone: the wall-clock reading must be a date-time, the instant an instant
            for off_min in [0i64, 1, -1, 14 * 60, -14 * 60, 23 * 60 + 59, -(23 * 60 + 59)] {
                let tz = TimeZone::try_from_str(&offset_text(off_min * 60)).unwrap();
                let t = day as i128 * NS_PER_DAY + tod - off_min as i128 * 60_000_000_000;
                let a = || {
                    let mut v = a();
                    v.push(("offset_minutes", off_min.to_string()));
                    v
                };
                let model = range(dt_ok(day, *tod) && instant_ok(t)).map(|_| t);
                let got = call(|| date.to_zoned_date_time_with_provider(tz.clone(), Some(time), &ErrProvider));
                out.lockstep("PlainDate::to_zoned_date_time(time)", &model, &got, |a, b| b.epoch_nanoseconds().as_i128() == *a, a);
                if k == 0 {
                    let got = call(|| date.to_zoned_date_time_with_provider(tz.clone(), None, &ErrProvider));
                    out.lockstep("PlainDate::to_zoned_date_time(start of day)", &range(instant_ok(t)).map(|_| t), &got, |a, b| b.epoch_nanoseconds().as_i128() == *a, a);
                }
                if let Oc::Ok(pdt) = call(|| date.to_plain_date_time(Some(time))) {
                    let got = call(|| pdt.to_zoned_date_time_with_provider(&tz, Disambiguation::Compatible, &ErrProvider));
                    out.lockstep("PlainDateTime::to_zoned_date_time", &range(instant_ok(t)).map(|_| t), &got, |a, b| b.epoch_nanoseconds().as_i128() == *a, a);
                }
            }
        }
        // arithmetic landing at boundary + {-2..+2} days, and far beyond, through every date unit
        for target in boundary_days() {
            let a = || {
                let mut v = a0();
                v.push(("target_day", target.to_string()));
                v
            };
            let delta = target - day;
            let model = range((MIN_DAY..=MAX_DAY).contains(&target)).map(|_| target);
            for (name, dur) in [("days", date_dur(0, 0, 0, delta)), ("weeks+days", date_dur(0, 0, delta / 7, delta % 7))] {
                let Ok(dur) = dur else { continue };
                for ov in [ArithmeticOverflow::Constrain, ArithmeticOverflow::Reject] {
                    let got = call(|| date.add(&dur, Some(ov)));
                    out.lockstep(&format!("PlainDate::add({name})"), &model, &got, |a, b| days_from_civil(b.year() as i64, b.month(), b.day()) == *a, a);
                    let got = call(|| date.subtract(&dur.negated(), Some(ov)));
                    out.lockstep(&format!("PlainDate::subtract({name})"), &model, &got, |a, b| days_from_civil(b.year() as i64, b.month(), b.day()) == *a, a);
                }
            }
        }
        for (yy, mm) in [(1i64, 0i64), (-1, 0), (0, 1), (0, -1), (547_581, 0), (-547_581, 0), (0, 6_570_972), (0, -6_570_972), (547_582, 0), (2_147_483_647, 0), (0, 4_294_967_295), (-4_294_967_295, 0)] {
            let a = || {
                let mut v = a0();
                v.push(("years", yy.to_string()));
                v.push(("months", mm.to_string()));
                v
            };
            let Ok(dur) = date_dur(yy, mm, 0, 0) else { continue };
            for (ov, rov) in [(ArithmeticOverflow::Constrain, Overflow::Constrain), (ArithmeticOverflow::Reject, Overflow::Reject)] {
                let model = tmc_ref::r2::add_iso_date(Ymd::new(y, m, d), DateDur { years: yy, months: mm, weeks: 0, days: 0 }, rov).map(|r| r.epoch_day()).map_err(|_| ErrorKind::Range);
                let got = call(|| date.add(&dur, Some(ov)));
                out.lockstep("PlainDate::add(years/months)", &model, &got, |a, b| days_from_civil(b.year() as i64, b.month(), b.day()) == *a, a);
            }
        }
        // differences between the extremes never fail and are exact
        for other in [MIN_DAY, MAX_DAY, 0] {
            let Some(od) = date_of(other) else { continue };
            for (ix, du) in [(0usize, DUnit::Year), (1, DUnit::Month), (2, DUnit::Week), (3, DUnit::Day)] {
                let want = tmc_ref::r2::diff_iso_date(Ymd::new(y, m, d), Ymd::from_epoch_day(other), du);
                let got = call(|| date.until(&od, diff(Some(ALL_UNITS[ix]), None, None, None)));
                out.lockstep("PlainDate::until(extreme)", &Ok([want.years as i128, want.months as i128, want.weeks as i128, want.days as i128, 0, 0, 0, 0, 0, 0]), &got, |a, b| dur_i128(b) == *a, || {
                    let mut v = a0();
                    v.push(("other_day", other.to_string()));
                    v.push(("largest", format!("{du:?}")));
                    v
                });
            }
        }
        // year-month of a boundary date
        let got = call(|| date.to_plain_year_month());
        let ym_ok = (y > -271_821 || m >= 4) && (y < 275_760 || m <= 9);
        out.lockstep("PlainDate::to_plain_year_month", &range(ym_ok).map(|_| (y, m)), &got, |a, b| (b.iso_year() as i64, b.iso_month()) == *a, a0);
        if out.want_sample() && day == MIN_DAY {
            out.sample(json!({"date": format!("{y}-{m}-{d}"), "note": "first representable date: midnight of it is NOT a representable date-time"}));
        }
    }
}

struct DateTimeBoundary;
fn dt_states() -> Vec<(i64, i128)> {
    let mut v = vec![];
    for day in [MIN_DAY, MIN_DAY + 1, MAX_DAY - 1, MAX_DAY, 0] {
        for tod in TODS {
            if dt_ok(day, tod) {
                v.push((day, tod));
            }
        }
    }
    v
}
impl Space for DateTimeBoundary {
    fn name(&self) -> String {
        "c02.date_time_boundary".into()
    }
    fn len(&self) -> u64 {
        dt_states().len() as u64
    }
    fn block(&self) -> u64 {
        1
    }
    fn full_oracle(&self) -> bool {
        true
    }
    fn eval(&self, i: u64, out: &mut Out) {
        let (day, tod) = dt_states()[i as usize];
        let Oc::Ok(pdt) = call(|| plain_date_time(day, tod)) else {
            out.fail("ctor", vec![("day", day.to_string()), ("tod", tod.to_string())]);
            return;
        };
        out.nontrivial += 1;
        let a0 = || vec![("day", day.to_string()), ("time_of_day_ns", tod.to_string()), ("side", if day < 0 { "lower" } else { "upper" }.to_string())];
        // rounding can cross the limit
        for (unit, n) in [(r3::T_DAY, 1u64), (r3::T_HOUR, 1), (r3::T_HOUR, 12), (r3::T_MINUTE, 30), (r3::T_SECOND, 1), (r3::T_MS, 500), (r3::T_NS, 1)] {
            let inc = Inc { unit, n, ns: unit_ns(unit) * n as i128 };
            for mode in [RMode::Ceil, RMode::Floor, RMode::Expand, RMode::Trunc, RMode::HalfExpand, RMode::HalfEven] {
                let a = || {
                    let mut v = a0();
                    v.push(("unit", unit_name(unit).to_string()));
                    v.push(("increment", n.to_string()));
                    v.push(("mode", mode.name().to_string()));
                    v
                };
                let r = round_time_of_day(tod, &inc, mode);
                let (rd, rt) = (day + (r.div_euclid(NS_PER_DAY)) as i64, r.rem_euclid(NS_PER_DAY));
                let model = range(dt_ok(rd, rt)).map(|_| (rd, rt));
                let got = call(|| pdt.round(round_opts(None, Some(iunit(unit)), Some(imode(mode)), Some(n as u32))));
                out.lockstep("PlainDateTime::round", &model, &got, |a, b| dt_parts(b) == *a, a);
                if unit == r3::T_SECOND || unit == r3::T_MINUTE && n == 1 {
                    let got = call(|| pdt.to_ixdtf_string(ToStringRoundingOptions { precision: Precision::Digit(0), smallest_unit: None, rounding_mode: Some(imode(mode)) }, temporal_rs::options::DisplayCalendar::Never));
                    out.lockstep("PlainDateTime::to_ixdtf_string(rounded)", &model.map(|_| ()), &got, |_, _| true, a);
                }
            }
        }
        // adding time / date durations whose exact result is at boundary +- a few units
        for (dd, tt) in [(0i64, 1i128), (0, -1), (0, NS_PER_DAY), (0, -NS_PER_DAY), (1, 0), (-1, 0), (0, NS_PER_DAY - 1), (0, -(NS_PER_DAY - 1)), (2, 1), (-2, -1), (200_000_001, 0), (-200_000_001, 0), (200_000_000, NS_PER_DAY - 2), (-200_000_000, -(NS_PER_DAY - 2))] {
            let a = || {
                let mut v = a0();
                v.push(("add_days", dd.to_string()));
                v.push(("add_ns", tt.to_string()));
                v
            };
            let b = r3::balance(tt, r3::T_HOUR);
            let Ok(dur) = dur10([0.0, 0.0, 0.0, dd as f64, b[1] as f64, b[2] as f64, b[3] as f64, b[4] as f64, b[5] as f64, b[6] as f64]) else { continue };
            let model = add_date_time(Dt::new(Ymd::from_epoch_day(day), tod), DateDur { days: dd, ..Default::default() }, tt, Overflow::Constrain).map(|r| (r.date.epoch_day(), r.tod)).map_err(|_| ErrorKind::Range);
            let got = call(|| pdt.add(&dur, None));
            out.lockstep("PlainDateTime::add", &model, &got, |a, b| dt_parts(b) == *a, a);
            let got = call(|| pdt.subtract(&dur.negated(), None));
            out.lockstep("PlainDateTime::subtract", &model, &got, |a, b| dt_parts(b) == *a, a);
        }
        // with_time
        for t2 in TODS {
            let model = range(dt_ok(day, t2)).map(|_| (day, t2));
            let got = call(|| pdt.with_time(plain_time(t2).unwrap()));
            out.lockstep("PlainDateTime::with_time", &model, &got, |a, b| dt_parts(b) == *a, || {
                let mut v = a0();
                v.push(("new_time", t2.to_string()));
                v
            });
        }
        let got = call(|| pdt.to_plain_date());
        out.lockstep("PlainDateTime::to_plain_date", &Ok(day), &got, |a, b| days_from_civil(b.year() as i64, b.month(), b.day()) == *a, a0);
        // differences to the extremes for every largest unit
        for (oday, otod) in [(MIN_DAY, 1i128), (MAX_DAY, NS_PER_DAY - 1), (0, 0)] {
            let Oc::Ok(other) = call(|| plain_date_time(oday, otod)) else { continue };
            for largest in 0..10usize {
                let du = [Some(DUnit::Year), Some(DUnit::Month), Some(DUnit::Week), Some(DUnit::Day), None, None, None, None, None, None][largest];
                let (dd, time) = diff_date_time(Dt::new(Ymd::from_epoch_day(day), tod), Dt::new(Ymd::from_epoch_day(oday), otod), du);
                let model = tmc_ref::r5r::from_internal(&tmc_ref::r5r::Internal { date: dd, time }, largest).map_err(|_| ErrorKind::Range);
                let got = call(|| pdt.until(&other, diff(Some(ALL_UNITS[largest]), None, None, None)));
                out.lockstep("PlainDateTime::until(extreme)", &model, &got, |a, b| dur_fields(b) == a.map(|x| x as f64), || {
                    let mut v = a0();
                    v.push(("other", format!("{oday}+{otod}")));
                    v.push(("largest", largest.to_string()));
                    v
                });
            }
        }
    }
}

struct InstantBoundary;
fn instant_states() -> Vec<i128> {
    let m = MAX_INSTANT_NS;
    vec![-m - 1, -m, -m + 1, -m + 999_999, -1, 0, 1, m - 999_999, m - 1, m, m + 1]
}
impl Space for InstantBoundary {
    fn name(&self) -> String {
        "c02.instant_boundary".into()
    }
    fn len(&self) -> u64 {
        instant_states().len() as u64
    }
    fn block(&self) -> u64 {
        1
    }
    fn full_oracle(&self) -> bool {
        true
    }
    fn eval(&self, i: u64, out: &mut Out) {
        let t = instant_states()[i as usize];
        let a0 = || vec![("epoch_ns", t.to_string()), ("side", if t < 0 { "lower" } else { "upper" }.to_string())];
        let got = call(|| Instant::try_new(t));
        out.lockstep("Instant::try_new", &range(instant_ok(t)).map(|_| t), &got, |a, b| b.epoch_nanoseconds().as_i128() == *a, a0);
        for tz_min in [0i64, 1439, -1439] {
            let tz = TimeZone::try_from_str(&offset_text(tz_min * 60)).unwrap();
            let got = call(|| ZonedDateTime::try_new(t, Calendar::default(), tz.clone()));
            out.lockstep("ZonedDateTime::try_new", &range(instant_ok(t)).map(|_| t), &got, |a, b| b.epoch_nanoseconds().as_i128() == *a, a0);
        }
        if t % 1_000_000 == 0 {
            let ms = (t / 1_000_000) as i64;
            for d in [-1i64, 0, 1] {
                let got = call(|| Instant::from_epoch_milliseconds(ms + d));
                let v = (ms + d) as i128 * 1_000_000;
                out.lockstep("Instant::from_epoch_milliseconds", &range(instant_ok(v)).map(|_| v), &got, |a, b| b.epoch_nanoseconds().as_i128() == *a, || {
                    let mut x = a0();
                    x.push(("ms", (ms + d).to_string()));
                    x
                });
            }
        }
        let Oc::Ok(inst) = call(|| Instant::try_new(t)) else { return };
        out.nontrivial += 1;
        // add / subtract
        for delta in [1i128, -1, 999_999, -999_999, 1_000_000, NS_PER_DAY, -NS_PER_DAY, 2 * MAX_INSTANT_NS, -2 * MAX_INSTANT_NS, 2 * MAX_INSTANT_NS + 1, -2 * MAX_INSTANT_NS - 1] {
            let b = r3::balance(delta, r3::T_HOUR);
            let Ok(dur) = dur10([0.0, 0.0, 0.0, 0.0, b[1] as f64, b[2] as f64, b[3] as f64, b[4] as f64, b[5] as f64, b[6] as f64]) else { continue };
            let a = || {
                let mut x = a0();
                x.push(("delta_ns", delta.to_string()));
                x
            };
            let got = call(|| inst.add(dur));
            out.lockstep("Instant::add", &range(instant_ok(t + delta)).map(|_| t + delta), &got, |a, b| b.epoch_nanoseconds().as_i128() == *a, a);
            let got = call(|| inst.subtract(dur));
            out.lockstep("Instant::subtract", &range(instant_ok(t - delta)).map(|_| t - delta), &got, |a, b| b.epoch_nanoseconds().as_i128() == *a, a);
        }
        // rounding across the limit
        for (unit, n) in [(r3::T_HOUR, 1u64), (r3::T_HOUR, 24), (r3::T_MINUTE, 1), (r3::T_SECOND, 1), (r3::T_MS, 1), (r3::T_US, 1)] {
            // direction-named modes only: for negative epoch values the sign-dependent modes have two readings (C07)
            for mode in [RMode::Ceil, RMode::Floor, RMode::HalfCeil, RMode::HalfFloor, RMode::HalfEven] {
                let r = tmc_ref::r4::round_as_if_positive(t, unit_ns(unit) * n as i128, mode);
                let got = call(|| inst.round(round_opts(None, Some(iunit(unit)), Some(imode(mode)), Some(n as u32))));
                out.lockstep("Instant::round", &range(instant_ok(r)).map(|_| r), &got, |a, b| b.epoch_nanoseconds().as_i128() == *a, || {
                    let mut x = a0();
                    x.push(("unit", unit_name(unit).to_string()));
                    x.push(("increment", n.to_string()));
                    x.push(("mode", mode.name().to_string()));
                    x
                });
            }
        }
        // difference to both extremes for every time unit
        for other in [-MAX_INSTANT_NS, MAX_INSTANT_NS] {
            let oi = Instant::try_new(other).unwrap();
            for largest in 4..10usize {
                let model = tmc_ref::r5r::from_internal(&tmc_ref::r5r::Internal { date: DateDur::default(), time: other - t }, largest).map_err(|_| ErrorKind::Range);
                let got = call(|| inst.until(&oi, diff(Some(ALL_UNITS[largest]), None, None, None)));
                out.lockstep("Instant::until(extreme)", &model, &got, |a, b| dur_fields(b) == a.map(|x| x as f64), || {
                    let mut x = a0();
                    x.push(("other", other.to_string()));
                    x.push(("largest", largest.to_string()));
                    x
                });
            }
        }
        // zoned values at the limit: wall-clock reading, arithmetic, start of day, day length
        for off_min in [0i64, 1439, -1439, 60] {
            let tz = TimeZone::try_from_str(&offset_text(off_min * 60)).unwrap();
            let z = inst.to_zoned_date_time_iso(tz.clone());
            let a = || {
                let mut x = a0();
                x.push(("offset_minutes", off_min.to_string()));
                x
            };
            let local = t + off_min as i128 * 60_000_000_000;
            let (lday, ltod) = (local.div_euclid(NS_PER_DAY) as i64, local.rem_euclid(NS_PER_DAY));
            let got = call(|| z.to_plain_datetime_with_provider(&ErrProvider));
            out.lockstep("ZonedDateTime::to_plain_datetime", &Ok((lday, ltod)), &got, |a, b| dt_parts(b) == *a, a);
            if let Oc::Ok(v) = &got {
                check_dt_value(out, "ZonedDateTime::to_plain_datetime", v, a);
            }
            for delta in [1i128, -1, NS_PER_DAY, -NS_PER_DAY] {
                let b = r3::balance(delta, r3::T_HOUR);
                let dur = dur10([0.0, 0.0, 0.0, 0.0, b[1] as f64, b[2] as f64, b[3] as f64, b[4] as f64, b[5] as f64, b[6] as f64]).unwrap();
                let got = call(|| z.add_with_provider(&dur, None, &ErrProvider));
                out.lockstep("ZonedDateTime::add(time)", &range(instant_ok(t + delta)).map(|_| t + delta), &got, |a, b| b.epoch_nanoseconds().as_i128() == *a, a);
            }
            for days in [1i64, -1] {
                let dur = date_dur(0, 0, 0, days).unwrap();
                let target = t + days as i128 * NS_PER_DAY;
                let got = call(|| z.add_with_provider(&dur, None, &ErrProvider));
                out.lockstep("ZonedDateTime::add(day)", &range(instant_ok(target) && dt_ok(lday + days, ltod)).map(|_| target), &got, |a, b| b.epoch_nanoseconds().as_i128() == *a, a);
            }
            let sod = local - ltod - off_min as i128 * 60_000_000_000;
            let got = call(|| z.start_of_day_with_provider(&ErrProvider));
            out.lockstep("ZonedDateTime::start_of_day", &range(instant_ok(sod)).map(|_| sod), &got, |a, b| b.epoch_nanoseconds().as_i128() == *a, a);
            let next = sod + NS_PER_DAY;
            let got = call(|| z.hours_in_day_with_provider(&ErrProvider));
            out.lockstep("ZonedDateTime::hours_in_day", &range(instant_ok(sod) && instant_ok(next)).map(|_| 24u8), &got, |a, b| *b == *a, a);
        }
    }
}

struct YearMonthBoundary;
impl Space for YearMonthBoundary {
    fn name(&self) -> String {
        "c02.year_month_boundary".into()
    }
    fn len(&self) -> u64 {
        8
    }
    fn block(&self) -> u64 {
        1
    }
    fn full_oracle(&self) -> bool {
        true
    }
    fn eval(&self, i: u64, out: &mut Out) {
        let (y, m) = [(-271_821i64, 3u8), (-271_821, 4), (-271_821, 5), (275_760, 8), (275_760, 9), (275_760, 10), (0, 1), (1970, 1)][i as usize];
        let ok = |y: i64, m: u8| (y > -271_821 || (y == -271_821 && m >= 4)) && (y < 275_760 || (y == 275_760 && m <= 9));
        let a0 = || vec![("year_month", format!("{y}-{m}"))];
        let got = call(|| PlainYearMonth::new_with_overflow(y as i32, m, None, Calendar::default(), ArithmeticOverflow::Reject));
        out.lockstep("PlainYearMonth::new_with_overflow", &range(ok(y, m)).map(|_| (y, m)), &got, |a, b| (b.iso_year() as i64, b.iso_month()) == *a, a0);
        let Oc::Ok(ym) = got else { return };
        out.nontrivial += 1;
        if (y, m) == (-271_821, 4) {
            // arithmetic starts from day 1 of the month, which is not a representable date for the first year-month (C18)
            out.unjudged += 1;
            return;
        }
        for months in [1i64, -1, 2, -2, 12, -12, 6_570_971, -6_570_971, 6_570_972, -6_570_972] {
            let total = y * 12 + (m as i64 - 1) + months;
            let (ty, tm) = (total.div_euclid(12), (total.rem_euclid(12) + 1) as u8);
            let Ok(dur) = date_dur(0, months, 0, 0) else { continue };
            if (ty, tm) == (-271_821, 4) {
                // reached through day 1 of that month (not a date) or through its last day, depending on the specification revision
                out.unjudged += 1;
                continue;
            }
            let got = call(|| ym.add(&dur, ArithmeticOverflow::Constrain));
            out.lockstep("PlainYearMonth::add(months)", &range(ok(ty, tm)).map(|_| (ty, tm)), &got, |a, b| (b.iso_year() as i64, b.iso_month()) == *a, || {
                let mut v = a0();
                v.push(("months", months.to_string()));
                v
            });
        }
    }
}

/// Public constructors that cannot fail: whatever they return must be a well-formed value.
struct InfallibleConstructors;
impl Space for InfallibleConstructors {
    fn name(&self) -> String {
        "c02.infallible_constructors".into()
    }
    fn len(&self) -> u64 {
        1
    }
    fn full_oracle(&self) -> bool {
        true
    }
    fn eval(&self, _: u64, out: &mut Out) {
        use temporal_rs::primitive::FiniteF64;
        use temporal_rs::TimeDuration;
        out.nontrivial += 1;
        let times: Vec<[f64; 6]> = vec![[0.0; 6], [1.0, 0.0, 0.0, 0.0, 0.0, 0.0], [-1.0, 0.0, 0.0, 0.0, 0.0, 0.0], [0.0, 0.0, 0.0, 0.0, 0.0, -1.0], [2_501_999_792_983.0, 0.0, 0.0, 0.0, 0.0, 0.0]];
        for day in [0.0, 1.0, -1.0, 0.5, 104_249_991_374.0, 104_249_991_375.0, 1e300, -1e300] {
            for t in &times {
                let Ok(time) = TimeDuration::new(FiniteF64::try_from(t[0]).unwrap(), FiniteF64::try_from(t[1]).unwrap(), FiniteF64::try_from(t[2]).unwrap(), FiniteF64::try_from(t[3]).unwrap(), FiniteF64::try_from(t[4]).unwrap(), FiniteF64::try_from(t[5]).unwrap()) else { continue };
                let d = Duration::from_day_and_time(FiniteF64::try_from(day).unwrap(), &time);
                let f = dur_fields(&d);
                out.law("Duration::from_day_and_time: returned duration is valid", tmc_ref::r5::is_valid(&f), || vec![("day", format!("{day:?}")), ("time", format!("{t:?}")), ("fields", format!("{f:?}"))]);
            }
        }
    }
}

/// The public conversions into `EpochNanoseconds` (from i128, u128 and f64) over the values around every
/// limit of the source types and of the instant range, incl. the u128 values that wrap to a valid i128.
struct EpochNsConversions;
fn epoch_i128_values() -> Vec<i128> {
    let m = MAX_INSTANT_NS;
    let mut v = vec![0, 1, -1, i128::MAX, i128::MAX - 1, i128::MIN, i128::MIN + 1, i128::MAX - m, i128::MIN + m];
    for k in [-2i128, -1, 0, 1, 2] {
        v.extend([m + k, -m + k, (1i128 << 63) + k, -(1i128 << 63) + k, (1i128 << 64) + k, -(1i128 << 64) + k, (1i128 << 73) + k]);
    }
    v
}
fn epoch_u128_values() -> Vec<u128> {
    let m = MAX_INSTANT_NS as u128;
    let mut v = vec![0u128, 1, u128::MAX, u128::MAX - 1];
    for k in 0..=2u128 {
        v.extend([m + k, m - k, (1u128 << 63) + k, (1u128 << 64) + k, (1u128 << 64) - 1 - k, (1u128 << 127) + k, (1u128 << 127) - 1 - k]);
        // two's-complement images of -m-1+k .. and of -1-k
        v.extend([u128::MAX - m - 1 + k, u128::MAX - m + 1 + k, u128::MAX - k, (1u128 << 127) + m + k, (1u128 << 127) + m - k]);
    }
    v
}
fn epoch_f64_values() -> Vec<f64> {
    let m = 8.64e21f64;
    let up = f64::from_bits(m.to_bits() + 1);
    let down = f64::from_bits(m.to_bits() - 1);
    vec![0.0, -0.0, 1.0, -1.0, 0.5, -0.5, 1e-300, m, -m, up, -up, down, -down, 1e22, -1e22, 9.007199254740993e15, 1.7e38, -1.7e38, 1.8e38, -1.8e38, 3.4e38, -3.4e38, f64::MAX, f64::MIN, f64::INFINITY, f64::NEG_INFINITY, f64::NAN, 18446744073709551616.0, -18446744073709551616.0]
}
impl Space for EpochNsConversions {
    fn name(&self) -> String {
        "c02.epoch_ns_conversions".into()
    }
    fn len(&self) -> u64 {
        (epoch_i128_values().len() + epoch_u128_values().len() + epoch_f64_values().len()) as u64
    }
    fn block(&self) -> u64 {
        8
    }
    fn full_oracle(&self) -> bool {
        true
    }
    fn eval(&self, i: u64, out: &mut Out) {
        use temporal_rs::time::EpochNanoseconds;
        let (a, b) = (epoch_i128_values(), epoch_u128_values());
        let i = i as usize;
        out.nontrivial += 1;
        if i < a.len() {
            let v = a[i];
            let got = call(|| EpochNanoseconds::try_from(v));
            out.lockstep("EpochNanoseconds::try_from(i128)", &range(instant_ok(v)).map(|_| v), &got, |x, y| y.as_i128() == *x, || vec![("value", v.to_string())]);
        } else if i < a.len() + b.len() {
            let v = b[i - a.len()];
            let model = if v <= MAX_INSTANT_NS as u128 { Ok(v as i128) } else { Err(ErrorKind::Range) };
            let got = call(|| EpochNanoseconds::try_from(v));
            out.lockstep("EpochNanoseconds::try_from(u128)", &model, &got, |x, y| y.as_i128() == *x, || vec![("value", v.to_string())]);
        } else {
            let v = epoch_f64_values()[i - a.len() - b.len()];
            // the double is an integer-valued carrier: a fraction is dropped toward zero, as the conversion documents
            let model = if v.is_finite() && v.trunc().abs() <= 8.64e21 { Ok(v.trunc() as i128) } else { Err(ErrorKind::Range) };
            let got = call(|| EpochNanoseconds::try_from(v));
            out.lockstep("EpochNanoseconds::try_from(f64)", &model, &got, |x, y| y.as_i128() == *x, || vec![("value", format!("{v:e}"))]);
        }
    }
}

pub fn boundary_spaces() -> Vec<Box<dyn Space>> {
    vec![Box::new(DateBoundary), Box::new(DateTimeBoundary), Box::new(InstantBoundary), Box::new(EpochNsConversions), Box::new(YearMonthBoundary), Box::new(InfallibleConstructors)]
}

/// The spaces of the other checks, to be judged with the reduced oracle of the aggregating check.
pub fn union_spaces(env: &Env) -> Vec<Box<dyn Space>> {
    use crate::checks::*;
    let mut v: Vec<Box<dyn Space>> = vec![];
    v.extend(c04::spaces(env));
    v.extend(c05::spaces(env));
    v.extend(c06::spaces(env));
    v.extend(c07::spaces(env));
    v.extend(c08::spaces(env));
    v.extend(c09::spaces(env));
    v.extend(c10::spaces(env));
    v.extend(c11::spaces(env));
    v.extend(c12::spaces(env));
    v.extend(c13::spaces(env));
    v.extend(c14::spaces(env));
    v.extend(c16::spaces(env));
    v.extend(c17::spaces(env));
    v.extend(c18::spaces(env));
    v.extend(c19::spaces(env));
    v
}

pub fn run(env: &Env) -> i32 {
    let mut rep = Report::new(
        env,
        "exploration",
        "boundary exploration: every value within two units (ns, day, month) of each limit of Instant, PlainDate, PlainDateTime, PlainYearMonth, ZonedDateTime x every constructor, conversion, add/subtract landing at limit + {-2..+2} units and far beyond, rounding with every direction, differences between the extremes for every largest unit; plus the quick-tier spaces of C04-C14, C16-C19 re-run with the reduced oracle (Ok iff the exact result exists, RangeError otherwise); both arithmetic profiles",
    );
    rep.assumptions.push("exact results from R1/R2/R3/R4 in i64/i128; limits as constants of the specification".into());
    for s in boundary_spaces() {
        rep.run(s.as_ref());
    }
    for s in union_spaces(env) {
        rep.run(s.as_ref());
    }
    rep.finish()
}

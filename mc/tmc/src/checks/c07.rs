//! C07 — rounding picks the neighbouring multiple prescribed by the rounding mode.
//! Public entry points only; every admissible increment of every unit; all nine modes; complete
//! residue battery (all residues for small increments).

use crate::conv::*;
use crate::engine::*;
use crate::imp::*;
use crate::providers::UtcProvider;
use serde_json::json;
use temporal_rs::error::ErrorKind;
use temporal_rs::options::{DisplayCalendar, ToStringRoundingOptions, Unit};
use temporal_rs::parsers::Precision;
use temporal_rs::{Instant, PlainTime};
use tmc_ref::r1::{MAX_DAY, MAX_INSTANT_NS, MIN_DAY};
use tmc_ref::r3::{self, TUnit, NS_PER_DAY};
use tmc_ref::r4::{self, Mode, ALL_MODES};

#[derive(Clone, Copy, Debug)]
pub struct Inc {
    pub unit: TUnit,
    pub n: u64,
    pub ns: i128,
}

/// Residues to probe around a multiple of `i`: the battery, or every residue when `i <= all_below`.
pub fn residues(i: i128, all_below: i128) -> Vec<i128> {
    if i <= all_below {
        return (0..i).collect();
    }
    let h = i / 2;
    let mut v: Vec<i128> = vec![0, 1, h - 1, h, h + 1, i - 1];
    v.retain(|r| (0..i).contains(r));
    v.sort();
    v.dedup();
    v
}

pub fn residue_class(rem: i128, i: i128) -> &'static str {
    if rem == 0 {
        "exact"
    } else if 2 * rem == i {
        "tie"
    } else if i % 2 == 1 && rem == i / 2 {
        "floor_half_of_odd"
    } else if 2 * rem < i {
        "below_half"
    } else {
        "above_half"
    }
}

fn to_string_opts(p: Precision, m: Mode) -> ToStringRoundingOptions {
    // minute precision is only expressible through smallestUnit = minute (as in the JS API)
    let smallest_unit = if p == Precision::Minute { Some(Unit::Minute) } else { None };
    ToStringRoundingOptions { precision: if p == Precision::Minute { Precision::Auto } else { p }, smallest_unit, rounding_mode: Some(imode(m)) }
}

/// RoundTime: the quantity that is rounded is counted from the start of the enclosing unit (day for
/// day/hour, hour for minute, minute for second, …), which matters for the parity that halfEven looks at.
pub fn round_time_of_day(v: i128, inc: &Inc, mode: Mode) -> i128 {
    let enclosing = match inc.unit.0 {
        0 | 1 => NS_PER_DAY,
        u => r3::UNIT_NS[u - 1],
    };
    let q = v % enclosing;
    v - q + r4::round(q, inc.ns, mode)
}

/// Parse "HH:MM[:SS[.fff]]" into ns of day and number of fraction digits (None when seconds are absent).
pub fn parse_time_text(s: &str) -> Option<(i128, Option<usize>)> {
    let parts: Vec<&str> = s.split(':').collect();
    if parts.len() < 2 || parts.len() > 3 {
        return None;
    }
    let h: i128 = parts[0].parse().ok()?;
    let m: i128 = parts[1].parse().ok()?;
    let mut t = h * 3_600_000_000_000 + m * 60_000_000_000;
    let mut digits = None;
    if parts.len() == 3 {
        let (sec, frac) = match parts[2].split_once('.') {
            Some((a, b)) => (a, b),
            None => (parts[2], ""),
        };
        if sec.len() != 2 || frac.len() > 9 || !frac.chars().all(|c| c.is_ascii_digit()) {
            return None;
        }
        t += sec.parse::<i128>().ok()? * 1_000_000_000;
        if !frac.is_empty() {
            let mut f: i128 = frac.parse().ok()?;
            for _ in frac.len()..9 {
                f *= 10;
            }
            t += f;
        }
        digits = Some(frac.len());
    }
    if parts[0].len() != 2 || parts[1].len() != 2 {
        return None;
    }
    Some((t, digits))
}

/// Parse "YYYY-MM-DDTHH:MM:SS.fff" (optionally followed by Z or annotations) into (epoch day, tod ns, digits).
pub fn parse_dt_text(s: &str) -> Option<(i64, i128, Option<usize>)> {
    let (date, rest) = s.split_once('T')?;
    let end = rest.find(|c: char| c == 'Z' || c == '[' || c == '+').unwrap_or(rest.len());
    // a '-' offset cannot occur in the strings we produce here (UTC / plain)
    let (t, digits) = parse_time_text(&rest[..end])?;
    let (neg, d) = match date.strip_prefix('-') {
        Some(r) => (true, r),
        None => (false, date.strip_prefix('+').unwrap_or(date)),
    };
    let p: Vec<&str> = d.split('-').collect();
    if p.len() != 3 {
        return None;
    }
    let mut y: i64 = p[0].parse().ok()?;
    if neg {
        y = -y;
    }
    let day = tmc_ref::r1::days_from_civil(y, p[1].parse().ok()?, p[2].parse().ok()?);
    Some((day, t, digits))
}

fn digit_precision_of(inc_ns: i128) -> Option<u8> {
    let mut p = 1i128;
    for d in (0..=9u8).rev() {
        if p == inc_ns {
            return Some(d);
        }
        p *= 10;
    }
    None
}

// ---------------------------------------------------------------------------------------------
// Times of day: PlainTime::round, PlainDateTime::round, to_ixdtf_string

pub struct TimeRound {
    name: &'static str,
    vals: Vec<(Inc, i128)>,
    days: Vec<i64>,
}

fn time_incs() -> Vec<Inc> {
    let mut v = vec![];
    for u in 1..=6 {
        let unit = TUnit(u);
        for n in r4::admissible_increments(unit_max(unit), false) {
            v.push(Inc { unit, n, ns: unit_ns(unit) * n as i128 });
        }
    }
    v
}

impl TimeRound {
    pub fn with_days(name: &'static str, tier: Tier, days: Vec<i64>) -> Self {
        let mut t = Self::new(tier);
        t.name = name;
        t.days = days;
        t
    }
    fn new(tier: Tier) -> Self {
        let all_below = tier.pick(20_000, 2_000_000);
        let mut vals = vec![];
        let mut incs = time_incs();
        incs.push(Inc { unit: r3::T_DAY, n: 1, ns: NS_PER_DAY });
        for inc in incs {
            let last = NS_PER_DAY / inc.ns - 1;
            let mut ks = vec![0, 1, 2, last / 2, last];
            ks.retain(|k| *k >= 0 && *k <= last);
            ks.sort();
            ks.dedup();
            for k in ks {
                for r in residues(inc.ns, all_below) {
                    vals.push((inc, k * inc.ns + r));
                }
            }
        }
        TimeRound { name: "c07.time_of_day", vals, days: vec![18_321, -1, MAX_DAY, MIN_DAY + 1, MIN_DAY] }
    }
}

impl Space for TimeRound {
    fn name(&self) -> String {
        self.name.into()
    }
    fn len(&self) -> u64 {
        self.vals.len() as u64
    }
    fn block(&self) -> u64 {
        64
    }
    fn eval(&self, i: u64, out: &mut Out) {
        let (inc, v) = self.vals[i as usize];
        let rem = v.rem_euclid(inc.ns);
        if rem != 0 {
            out.nontrivial += 1;
        }
        if 2 * rem == inc.ns {
            out.count("exact_ties", 1);
        }
        let unit = iunit(inc.unit);
        for mode in ALL_MODES {
            let r = round_time_of_day(v, &inc, mode);
            out.selfchecks += 1;
            let (lo, hi) = r4::neighbours(v, inc.ns);
            assert!(r == lo || r == hi);
            let attrs = || {
                vec![
                    ("unit", unit_name(inc.unit).to_string()),
                    ("increment", inc.n.to_string()),
                    ("increment_parity", if inc.ns % 2 == 1 { "odd" } else { "even" }.to_string()),
                    ("mode", mode.name().to_string()),
                    ("value_ns", v.to_string()),
                    ("residue_class", residue_class(rem, inc.ns).to_string()),
                ]
            };
            if inc.unit != r3::T_DAY {
                let t = plain_time(v).expect("time");
                let got = call(|| t.round(unit, Some(inc.n as f64), Some(imode(mode))));
                out.lockstep("PlainTime::round", &Ok(r % NS_PER_DAY), &got, |m, x| time_ns(x) == *m, attrs);
                if mode == Mode::HalfExpand {
                    let got = call(|| t.round(unit, Some(inc.n as f64), None));
                    out.lockstep("PlainTime::round(default mode)", &Ok(r % NS_PER_DAY), &got, |m, x| time_ns(x) == *m, attrs);
                }
            }
            for day in &self.days {
                let Oc::Ok(dt) = call(|| plain_date_time(*day, v)) else {
                    continue; // not representable (first day before its first nanosecond)
                };
                let (rd, rt) = (day + (r / NS_PER_DAY) as i64, r % NS_PER_DAY);
                let model = if dt_in_limits(rd, rt) { Ok((rd, rt)) } else { Err(ErrorKind::Range) };
                let got = call(|| dt.round(round_opts(None, Some(unit), Some(imode(mode)), Some(inc.n as u32))));
                out.lockstep("PlainDateTime::round", &model, &got, |m, x| dt_parts(x) == *m, || {
                    let mut a = attrs();
                    a.push(("day", day.to_string()));
                    a
                });
            }
            // fractional-digit precision in toString
            let prec = if inc.unit == r3::T_MINUTE && inc.n == 1 { Some(Precision::Minute) } else { digit_precision_of(inc.ns).map(Precision::Digit) };
            if let Some(p) = prec {
                let t = plain_time(v).expect("time");
                let got = call(|| t.to_ixdtf_string(to_string_opts(p, mode)));
                let want_digits = match p {
                    Precision::Digit(d) => Some(d as usize),
                    _ => None,
                };
                out.lockstep("PlainTime::to_ixdtf_string", &Ok((r % NS_PER_DAY, want_digits)), &got, |m, s| parse_time_text(s) == Some(*m), attrs);
                let day = 18_321i64;
                let dt = plain_date_time(day, v).expect("dt");
                let got = call(|| dt.to_ixdtf_string(to_string_opts(p, mode), DisplayCalendar::Auto));
                let (rd, rt) = (day + (r / NS_PER_DAY) as i64, r % NS_PER_DAY);
                out.lockstep("PlainDateTime::to_ixdtf_string", &Ok((rd, rt, want_digits)), &got, |m, s| parse_dt_text(s) == Some(*m), attrs);
                // a smallest unit given next to a digit count: the unit decides, the digit count is ignored
                if inc.n == 1 {
                    let unit = match inc.unit {
                        u if u == r3::T_MINUTE => Some(Unit::Minute),
                        u if u == r3::T_SECOND => Some(Unit::Second),
                        u if u == r3::T_MS => Some(Unit::Millisecond),
                        u if u == r3::T_US => Some(Unit::Microsecond),
                        u if u == r3::T_NS => Some(Unit::Nanosecond),
                        _ => None,
                    };
                    if let Some(unit) = unit {
                        for k in [1u8, 2, 4, 8] {
                            let got = call(|| t.to_ixdtf_string(ToStringRoundingOptions { precision: Precision::Digit(k), smallest_unit: Some(unit), rounding_mode: Some(imode(mode)) }));
                            out.lockstep("PlainTime::to_ixdtf_string(smallest unit and digit count)", &Ok((r % NS_PER_DAY, want_digits)), &got, |m, s| parse_time_text(s) == Some(*m), attrs);
                        }
                    }
                }
                // the same value as an instant printed in a zone (UTC as a fixed offset: reading = instant)
                let inst = temporal_rs::Instant::try_new(day as i128 * NS_PER_DAY + v).expect("instant");
                let utc = temporal_rs::TimeZone::try_from_str("+00:00").expect("zone");
                let got = call(|| inst.to_ixdtf_string_with_provider(Some(&utc), to_string_opts(p, mode), &crate::providers::ErrProvider));
                out.lockstep("Instant::to_ixdtf_string(in a zone)", &Ok((rd, rt, want_digits)), &got, |m, s| s.strip_suffix("+00:00").and_then(parse_dt_text) == Some(*m), attrs);
            }
        }
        if out.want_sample() && 2 * rem == inc.ns {
            out.sample(json!({"unit": unit_name(inc.unit), "increment": inc.n, "value_ns_of_day": v.to_string(), "residue": "exact tie", "model_halfEven": round_time_of_day(v, &inc, Mode::HalfEven).to_string()}));
        }
    }
    fn describe(&self) -> serde_json::Value {
        json!({"units": "hour..nanosecond with every divisor of the unit maximum below it, plus day/1 for date-times", "values": self.vals.len(), "modes": 9, "dates_for_datetime": self.days})
    }
}

// ---------------------------------------------------------------------------------------------
// Instant::round and Instant to_string: every (unit, n) with unit*n | 86400e9, n <= 1e9

struct InstantRound {
    vals: Vec<(Inc, i128)>,
    pairs: usize,
}

pub fn instant_incs() -> Vec<Inc> {
    let mut v = vec![];
    for u in 1..=6 {
        let unit = TUnit(u);
        let max = (NS_PER_DAY / unit_ns(unit)) as u64;
        // divisors of max up to 1e9
        let mut d = 1u64;
        let mut divs = vec![];
        while d * d <= max {
            if max % d == 0 {
                divs.push(d);
                if d != max / d {
                    divs.push(max / d);
                }
            }
            d += 1;
        }
        divs.sort();
        for n in divs {
            if n <= 1_000_000_000 {
                v.push(Inc { unit, n, ns: unit_ns(unit) * n as i128 });
            }
        }
    }
    v
}

impl InstantRound {
    fn new(tier: Tier) -> Self {
        let incs = instant_incs();
        let all_below = tier.pick(500, 20_000);
        let mut vals = vec![];
        for inc in &incs {
            let kmax = MAX_INSTANT_NS / inc.ns;
            for k in [0, 1, 2, -1, -2, -3, 12_345, -12_346, kmax - 1, -kmax] {
                for r in residues(inc.ns, all_below) {
                    let v = k * inc.ns + r;
                    if v.abs() <= MAX_INSTANT_NS {
                        vals.push((*inc, v));
                    }
                }
            }
        }
        InstantRound { vals, pairs: incs.len() }
    }
}

impl Space for InstantRound {
    fn name(&self) -> String {
        "c07.instant".into()
    }
    fn len(&self) -> u64 {
        self.vals.len() as u64
    }
    fn block(&self) -> u64 {
        64
    }
    fn eval(&self, i: u64, out: &mut Out) {
        let (inc, v) = self.vals[i as usize];
        let rem = v.rem_euclid(inc.ns);
        if rem != 0 {
            out.nontrivial += 1;
        }
        if 2 * rem == inc.ns {
            out.count("exact_ties", 1);
        }
        let inst = Instant::try_new(v).expect("instant");
        for mode in ALL_MODES {
            let attrs = || {
                vec![
                    ("unit", unit_name(inc.unit).to_string()),
                    ("increment", inc.n.to_string()),
                    ("increment_parity", if inc.ns % 2 == 1 { "odd" } else { "even" }.to_string()),
                    ("mode", mode.name().to_string()),
                    ("value_ns", v.to_string()),
                    ("sign", if v < 0 { "negative" } else { "nonnegative" }.to_string()),
                    ("residue_class", residue_class(rem, inc.ns).to_string()),
                ]
            };
            // The specification rounds instants "as if positive"; the property sentence speaks of
            // the named direction. For negative epoch values and sign-dependent modes the two readings
            // choose different neighbours: only neighbour membership is judged there.
            let both_readings_agree = v >= 0 || !mode.sign_dependent() || rem == 0 || r4::round(v, inc.ns, mode) == r4::round_as_if_positive(v, inc.ns, mode);
            let r = r4::round_as_if_positive(v, inc.ns, mode);
            let (lo, hi) = r4::neighbours(v, inc.ns);
            let got = call(|| inst.round(round_opts(None, Some(iunit(inc.unit)), Some(imode(mode)), Some(inc.n as u32))));
            if both_readings_agree {
                let model = if r.abs() <= MAX_INSTANT_NS { Ok(r) } else { Err(ErrorKind::Range) };
                out.lockstep("Instant::round", &model, &got, |m, x| x.epoch_nanoseconds().as_i128() == *m, attrs);
            } else {
                out.unjudged += 1;
                match &got {
                    Oc::Ok(x) => {
                        let g = x.epoch_nanoseconds().as_i128();
                        out.law("Instant::round result is an adjacent multiple", g == lo || g == hi, attrs);
                    }
                    Oc::Err(ErrorKind::Range, _) if lo.abs() > MAX_INSTANT_NS || hi.abs() > MAX_INSTANT_NS => {}
                    _ => {
                        out.lockstep("Instant::round", &Ok(r), &got, |_, _| false, attrs);
                    }
                }
            }
            if let Some(d) = digit_precision_of(inc.ns) {
                let got = call(|| inst.to_ixdtf_string_with_provider(None, to_string_opts(Precision::Digit(d), mode), &UtcProvider));
                let conv = |s: &String| parse_dt_text(s).map(|(day, t, dg)| (day as i128 * NS_PER_DAY + t, dg));
                if both_readings_agree {
                    let model = if r.abs() <= MAX_INSTANT_NS { Ok((r, Some(d as usize))) } else { Err(ErrorKind::Range) };
                    out.lockstep("Instant::to_ixdtf_string", &model, &got, |m, s| conv(s) == Some(*m) && s.ends_with('Z'), attrs);
                } else {
                    out.unjudged += 1;
                    if let Oc::Ok(s) = &got {
                        let g = conv(s).map(|x| x.0);
                        out.law("Instant::to_ixdtf_string is an adjacent multiple", g == Some(lo) || g == Some(hi), attrs);
                    }
                }
            }
        }
        if out.want_sample() && inc.ns % 2 == 1 && rem == inc.ns / 2 {
            out.sample(json!({"unit": unit_name(inc.unit), "increment": inc.n, "epoch_ns": v.to_string(), "residue": "floor(I/2) of an odd increment", "model_halfExpand": r4::round_as_if_positive(v, inc.ns, Mode::HalfExpand).to_string()}));
        }
    }
    fn describe(&self) -> serde_json::Value {
        json!({"unit_increment_pairs": self.pairs, "values": self.vals.len(), "modes": 9, "k": "0,1,2,-1,-2,-3,12345,-12346,last,-last"})
    }
}

// ---------------------------------------------------------------------------------------------
// until / since with smallestUnit + increment + mode

struct DiffRound {
    vals: Vec<(Inc, i128)>,
}

impl DiffRound {
    fn new(tier: Tier) -> Self {
        let all_below = tier.pick(5_000, 500_000);
        let mut vals = vec![];
        for inc in time_incs() {
            let last = NS_PER_DAY / inc.ns - 1;
            let mut ks = vec![0, 1, 2, last];
            ks.retain(|k| *k <= last);
            ks.sort();
            ks.dedup();
            for k in ks {
                for r in residues(inc.ns, all_below) {
                    let v = k * inc.ns + r;
                    if v != 0 {
                        vals.push((inc, v));
                        vals.push((inc, -v));
                    }
                }
            }
        }
        DiffRound { vals }
    }
}

impl Space for DiffRound {
    fn name(&self) -> String {
        "c07.differences".into()
    }
    fn len(&self) -> u64 {
        self.vals.len() as u64
    }
    fn block(&self) -> u64 {
        64
    }
    fn eval(&self, i: u64, out: &mut Out) {
        let (inc, v) = self.vals[i as usize];
        let rem = v.rem_euclid(inc.ns);
        if rem != 0 {
            out.nontrivial += 1;
        }
        out.note(|| format!("case: unit={} n={} difference={} ns", unit_name(inc.unit), inc.n, v));
        let (ta, tb) = if v >= 0 { (0, v) } else { (-v, 0) };
        let (pa, pb) = (plain_time(ta).expect("t"), plain_time(tb).expect("t"));
        let base = -5 * NS_PER_DAY + 777; // instants straddling the epoch
        let (ia, ib) = (Instant::try_new(base + ta).expect("i"), Instant::try_new(base + tb).expect("i"));
        let (da, db) = (plain_date_time(18_321, ta).expect("dt"), plain_date_time(18_321, tb).expect("dt"));
        let unit = iunit(inc.unit);
        for mode in ALL_MODES {
            let attrs = || {
                vec![
                    ("unit", unit_name(inc.unit).to_string()),
                    ("increment", inc.n.to_string()),
                    ("increment_parity", if inc.ns % 2 == 1 { "odd" } else { "even" }.to_string()),
                    ("mode", mode.name().to_string()),
                    ("difference_ns", v.to_string()),
                    ("sign", if v < 0 { "negative" } else { "positive" }.to_string()),
                    ("residue_class", residue_class(v.abs() % inc.ns, inc.ns).to_string()),
                ]
            };
            let until = r4::round(v, inc.ns, mode);
            let since = -r4::round(v, inc.ns, mode.negate());
            let st = diff(Some(Unit::Hour), Some(unit), Some(imode(mode)), Some(inc.n as u32));
            let g = call(|| pa.until(&pb, st));
            out.lockstep("PlainTime::until", &Ok(balanced_fields(until, r3::T_HOUR)), &g, |m, x| dur_fields(x) == *m, attrs);
            let g = call(|| pa.since(&pb, st));
            out.lockstep("PlainTime::since", &Ok(balanced_fields(since, r3::T_HOUR)), &g, |m, x| dur_fields(x) == *m, attrs);
            let g = call(|| ia.until(&ib, st));
            out.lockstep("Instant::until", &Ok(balanced_fields(until, r3::T_HOUR)), &g, |m, x| dur_fields(x) == *m, attrs);
            let g = call(|| ia.since(&ib, st));
            out.lockstep("Instant::since", &Ok(balanced_fields(since, r3::T_HOUR)), &g, |m, x| dur_fields(x) == *m, attrs);
            let g = call(|| da.until(&db, st));
            out.lockstep("PlainDateTime::until(largest hour)", &Ok(balanced_fields(until, r3::T_HOUR)), &g, |m, x| dur_fields(x) == *m, attrs);
            let g = call(|| da.since(&db, st));
            out.lockstep("PlainDateTime::since(largest hour)", &Ok(balanced_fields(since, r3::T_HOUR)), &g, |m, x| dur_fields(x) == *m, attrs);
            let sd = diff(None, Some(unit), Some(imode(mode)), Some(inc.n as u32));
            let g = call(|| da.until(&db, sd));
            out.lockstep("PlainDateTime::until(largest default)", &Ok(balanced_fields(until, r3::T_DAY)), &g, |m, x| dur_fields(x) == *m, attrs);
            let g = call(|| da.since(&db, sd));
            out.lockstep("PlainDateTime::since(largest default)", &Ok(balanced_fields(since, r3::T_DAY)), &g, |m, x| dur_fields(x) == *m, attrs);
        }
        if out.want_sample() && v < 0 && 2 * rem == inc.ns {
            out.sample(json!({"unit": unit_name(inc.unit), "increment": inc.n, "difference_ns": v.to_string(), "model_until_halfEven": r4::round(v, inc.ns, Mode::HalfEven).to_string(), "model_since_halfCeil": (-r4::round(v, inc.ns, Mode::HalfCeil.negate())).to_string()}));
        }
    }
    fn describe(&self) -> serde_json::Value {
        json!({"values": self.vals.len(), "entry_points": ["PlainTime", "Instant", "PlainDateTime"], "ops": ["until", "since"], "modes": 9})
    }
}

/// Duration::as_temporal_string with every fractional-digit precision: the printed value is the exact total
/// rounded to 10^(9-d) ns by the mode (read back from the text itself).
struct DurationText;
impl Space for DurationText {
    fn name(&self) -> String {
        "c07.duration_text".into()
    }
    fn len(&self) -> u64 {
        10 * 2
    }
    fn block(&self) -> u64 {
        1
    }
    fn eval(&self, i: u64, out: &mut Out) {
        let digits = (i / 2) as u8;
        let sign: i128 = if i % 2 == 0 { 1 } else { -1 };
        let step = 10i128.pow(9 - digits as u32);
        let mut residues = vec![0i128, 1, step / 2 - 1, step / 2, step / 2 + 1, step - 1];
        residues.retain(|r| *r >= 0 && *r < step);
        residues.sort();
        residues.dedup();
        for k in [0i128, 1, 2, 3, 59, 123_456_789 % (60_000_000_000 / step).max(1)] {
            for whole_seconds in [0i128, 1, 59, 3_599] {
                for r in &residues {
                    let mag = whole_seconds * 1_000_000_000 + (k * step + r) % 1_000_000_000;
                    if mag == 0 && sign < 0 {
                        continue;
                    }
                    let total = sign * mag;
                    let Ok(d) = dur10([0.0, 0.0, 0.0, 0.0, 0.0, 0.0, (sign * (mag / 1_000_000_000)) as f64, 0.0, 0.0, (sign * (mag % 1_000_000_000)) as f64]) else { continue };
                    if *r != 0 {
                        out.nontrivial += 1;
                    }
                    for mode in ALL_MODES {
                        let want = r4::round(total, step, mode);
                        let got = call(|| d.as_temporal_string(to_string_opts(Precision::Digit(digits), mode)));
                        let read = |text: &String| -> Option<(i128, usize)> {
                            let (neg, rest) = match text.strip_prefix('-') { Some(x) => (true, x), None => (false, text.as_str()) };
                            let body = rest.strip_prefix("PT")?.strip_suffix('S')?;
                            let (int, frac) = match body.split_once('.') { Some((a, b)) => (a, b), None => (body, "") };
                            if !int.bytes().all(|b| b.is_ascii_digit()) || !frac.bytes().all(|b| b.is_ascii_digit()) || int.is_empty() || frac.len() > 9 {
                                return None;
                            }
                            let v = int.parse::<i128>().ok()? * 1_000_000_000 + if frac.is_empty() { 0 } else { frac.parse::<i128>().ok()? * 10i128.pow(9 - frac.len() as u32) };
                            Some((if neg { -v } else { v }, frac.len()))
                        };
                        out.lockstep("Duration::as_temporal_string(digits, mode)", &Ok((want, digits as usize)), &got, |a, b| read(b) == Some(*a), || {
                            vec![("digits", digits.to_string()), ("mode", mode.name().to_string()), ("total_ns", total.to_string()), ("sign", if sign < 0 { "negative" } else { "positive" }.to_string()), ("residue_class", residue_class(*r, step).to_string())]
                        });
                    }
                }
            }
        }
    }
}

pub fn spaces(env: &Env) -> Vec<Box<dyn Space>> {
    vec![Box::new(TimeRound::new(env.tier)), Box::new(InstantRound::new(env.tier)), Box::new(DiffRound::new(env.tier)), Box::new(crate::checks::c08::CalendarTies { name: "c07.calendar_increments" }), Box::new(crate::checks::c09::RoundTies { name: "c07.duration_ties", tier: env.tier }), Box::new(DurationText)]
}

pub fn run(env: &Env) -> i32 {
    let mut rep = Report::new(
        env,
        "exploration",
        "product: every admissible (unit, increment) x residue battery {0,1,floor(I/2)-1,floor(I/2),floor(I/2)+1,I-1} (all residues for small I) x multiples k x 9 modes, mirrored to negative values; a case (one value for one increment) is non-trivial when the value is not a multiple (an actual rounding happens)",
    );
    rep.assumptions.push("R4: exact integer RoundNumberToIncrement (2*rem vs increment, parity of the quotient); negative instants with sign-dependent modes are judged for neighbour membership only (specification rounds instants 'as if positive', the property names the direction)".into());
    let _ = PlainTime::default();
    for s in spaces(env) {
        rep.run(s.as_ref());
    }
    rep.finish()
}

//! C09 — durations form a consistent signed quantity without a reference date.

use crate::conv::*;
use crate::engine::*;
use crate::imp::*;
use crate::providers::ErrProvider;
use serde_json::json;
use temporal_rs::error::ErrorKind;
use temporal_rs::options::Unit;
use temporal_rs::partial::PartialDuration;
use temporal_rs::{DateDuration, Duration, Sign, TimeDuration};
use tmc_ref::r3::{self, UNIT_NS};
use tmc_ref::r4::{self, ALL_MODES};
use tmc_ref::r5::{self, Fields, LIMIT_NS};

fn prev_double(x: f64) -> f64 {
    f64::from_bits(x.to_bits() - 1)
}

/// Per-field alphabets: 0, ±1, ±L (largest value valid on its own), ±(L + 1 step) (smallest invalid).
fn validity_alphabet(tier: Tier) -> Vec<Vec<f64>> {
    let mut v = vec![];
    for i in 0..10 {
        let (l, lp): (f64, f64) = if i < 3 {
            (4294967295.0, 4294967296.0)
        } else {
            let u = UNIT_NS[i - 3];
            let lim = LIMIT_NS as f64 / u as f64; // exact for s, ms, µs, ns
            if LIMIT_NS % u == 0 {
                let below = if lim < 9007199254740993.0 { lim - 1.0 } else { prev_double(lim) };
                (below, lim)
            } else {
                let l = ((LIMIT_NS - 1) / u) as f64;
                (l, l + 1.0)
            }
        };
        let mut a = vec![0.0, 1.0, -1.0, l, lp];
        if tier == Tier::Thorough {
            a.push(-l);
            a.push(-lp);
        }
        v.push(a);
    }
    v
}

fn ftext(f: &Fields) -> String {
    format!("{f:?}")
}

struct Validity {
    alph: Vec<Vec<f64>>,
}

impl Space for Validity {
    fn name(&self) -> String {
        "c09.validity".into()
    }
    fn len(&self) -> u64 {
        self.alph.iter().map(|a| a.len() as u64).product()
    }
    fn block(&self) -> u64 {
        8192
    }
    fn eval(&self, i: u64, out: &mut Out) {
        let radices: Vec<u64> = self.alph.iter().map(|a| a.len() as u64).collect();
        let ix = unrank(i, &radices);
        let mut f = [0.0; 10];
        for k in 0..10 {
            f[k] = self.alph[k][ix[k]];
        }
        let valid = r5::is_valid(&f);
        let nonzero = f.iter().filter(|v| **v != 0.0).count();
        if nonzero >= 2 {
            out.nontrivial += 1;
        }
        let near_limit = f.iter().enumerate().any(|(k, v)| v.abs() > 2.0 && k >= 3) as u8 + f[..3].iter().any(|v| v.abs() > 2.0) as u8;
        let attrs = || {
            vec![
                ("fields", ftext(&f)),
                ("sign_uniform", r5::sign_uniform(&f).to_string()),
                ("near_limit_groups", near_limit.to_string()),
                ("subsecond_nonzero", f[7..].iter().any(|v| *v != 0.0).to_string()),
                ("cal_at_2^32-1", f[..3].iter().any(|v| v.abs() == 4294967295.0).to_string()),
            ]
        };
        let model = if valid { Ok(f) } else { Err(ErrorKind::Range) };
        let got = call(|| dur10(f));
        out.lockstep("Duration::new", &model, &got, |m, d| dur_fields(d) == *m, attrs);
        // the constructors of the two parts and the conversions of a part into a duration, on the same limit values
        if f[..4].iter().all(|v| *v == 0.0) {
            let got = call(|| TimeDuration::new(ff(f[4]), ff(f[5]), ff(f[6]), ff(f[7]), ff(f[8]), ff(f[9])).map(|t| dur_fields(&Duration::from(t))));
            out.lockstep("TimeDuration::new, Duration::from(TimeDuration)", &model, &got, |m, d| *d == *m, attrs);
        }
        if f[4..].iter().all(|v| *v == 0.0) {
            let got = call(|| DateDuration::new(ff(f[0]), ff(f[1]), ff(f[2]), ff(f[3])).map(|t| dur_fields(&Duration::from(t))));
            out.lockstep("DateDuration::new, Duration::from(DateDuration)", &model, &got, |m, d| *d == *m, attrs);
        }
        if let Oc::Ok(d) = &got {
            if valid {
                // signed-number behaviour
                let s = match d.sign() {
                    Sign::Positive => 1,
                    Sign::Zero => 0,
                    Sign::Negative => -1,
                };
                out.law("sign", s == r5::sign(&f) && d.is_zero() == (r5::sign(&f) == 0), attrs);
                out.law("negated", dur_fields(&d.negated()) == r5::negate(&f), attrs);
                out.law("abs", dur_fields(&d.abs()) == f.map(|v| v.abs()), attrs);
                out.law("negated twice", dur_fields(&d.negated().negated()) == f, attrs);
            }
        }
        if out.want_sample() && !valid && r5::sign_uniform(&f) && nonzero >= 3 {
            out.sample(json!({"fields": ftext(&f), "model": "RangeError (limit exceeded)"}));
        }
    }
    fn describe(&self) -> serde_json::Value {
        json!({"per_field_values": self.alph})
    }
}

/// Partial records: every subset of present fields over {absent, 0, 1, -1}; DateDuration::new / TimeDuration::new.
struct Partials;
impl Space for Partials {
    fn name(&self) -> String {
        "c09.partial".into()
    }
    fn len(&self) -> u64 {
        4u64.pow(10)
    }
    fn block(&self) -> u64 {
        4096
    }
    fn eval(&self, i: u64, out: &mut Out) {
        let ix = unrank(i, &[4; 10]);
        let val = |k: usize| -> Option<f64> { [None, Some(0.0), Some(1.0), Some(-1.0)][ix[k]] };
        let f: Fields = core::array::from_fn(|k| val(k).unwrap_or(0.0));
        let all_absent = (0..10).all(|k| val(k).is_none());
        out.nontrivial += 1;
        let p = PartialDuration {
            years: val(0).map(ff),
            months: val(1).map(ff),
            weeks: val(2).map(ff),
            days: val(3).map(ff),
            hours: val(4).map(ff),
            minutes: val(5).map(ff),
            seconds: val(6).map(ff),
            milliseconds: val(7).map(ff),
            microseconds: val(8).map(ff),
            nanoseconds: val(9).map(ff),
        };
        let attrs = || vec![("partial", format!("{:?}", (0..10).map(val).collect::<Vec<_>>()))];
        let model = if all_absent {
            Err(ErrorKind::Type)
        } else if r5::is_valid(&f) {
            Ok(f)
        } else {
            Err(ErrorKind::Range)
        };
        let got = call(|| Duration::from_partial_duration(p));
        out.lockstep("Duration::from_partial_duration", &model, &got, |m, d| dur_fields(d) == *m, attrs);
        if ix[4..].iter().all(|x| *x == 0) {
            let g = [f[0], f[1], f[2], f[3], 0., 0., 0., 0., 0., 0.];
            let model = if r5::is_valid(&g) { Ok(()) } else { Err(ErrorKind::Range) };
            let got = call(|| DateDuration::new(ff(f[0]), ff(f[1]), ff(f[2]), ff(f[3])));
            out.lockstep("DateDuration::new", &model, &got, |_, _| true, attrs);
        }
        if ix[..4].iter().all(|x| *x == 0) {
            let g = [0., 0., 0., 0., f[4], f[5], f[6], f[7], f[8], f[9]];
            let model = if r5::is_valid(&g) { Ok(()) } else { Err(ErrorKind::Range) };
            let got = call(|| TimeDuration::new(ff(f[4]), ff(f[5]), ff(f[6]), ff(f[7]), ff(f[8]), ff(f[9])));
            out.lockstep("TimeDuration::new", &model, &got, |_, _| true, attrs);
        }
        if out.want_sample() && all_absent {
            out.sample(json!({"partial": "all fields absent", "model": "TypeError"}));
        }
    }
}

#[derive(Clone)]
pub struct D {
    pub f: Fields,
    pub imp: Duration,
}

/// ~400 calendar-free durations (days and time fields) plus a few with calendar units.
pub fn operand_alphabet() -> (Vec<D>, Vec<D>) {
    let mut fs: Vec<Fields> = vec![[0.0; 10]];
    let vals = [1.0, 23.0, 24.0, 59.0, 60.0, 999.0, 1000.0, 1_000_000.0];
    for k in 3..10 {
        for v in vals {
            let mut f = [0.0; 10];
            f[k] = v;
            fs.push(f);
        }
        // 40 % of the limit on this field alone
        let mut f = [0.0; 10];
        f[k] = (0.4 * LIMIT_NS as f64 / UNIT_NS[k - 3] as f64).floor();
        fs.push(f);
        let mut f = [0.0; 10];
        f[k] = (0.6 * LIMIT_NS as f64 / UNIT_NS[k - 3] as f64).floor();
        fs.push(f);
    }
    for f in [
        [0., 0., 0., 1., 23., 59., 59., 999., 999., 999.],
        [0., 0., 0., 0., 23., 59., 59., 999., 999., 999.],
        [0., 0., 0., 0., 0., 59., 59., 999., 999., 999.],
        [0., 0., 0., 0., 0., 0., 0., 999., 999., 999.],
        [0., 0., 0., 0., 0., 0., 0., 0., 0., 500.],
        [0., 0., 0., 0., 0., 0., 0., 0., 500., 0.],
        [0., 0., 0., 0., 0., 0., 0., 500., 0., 0.],
        [0., 0., 0., 0., 0., 0., 30., 0., 0., 0.],
        [0., 0., 0., 0., 0., 30., 0., 0., 0., 0.],
        [0., 0., 0., 0., 12., 0., 0., 0., 0., 0.],
        [0., 0., 0., 0., 1., 30., 0., 0., 0., 0.],
        [0., 0., 0., 0., 2., 30., 0., 0., 0., 0.],
        [0., 0., 0., 2., 12., 0., 0., 0., 0., 0.],
        [0., 0., 0., 0., 36., 0., 0., 0., 0., 0.],
        [0., 0., 0., 0., 0., 90., 0., 0., 0., 0.],
        [0., 0., 0., 0., 0., 0., 0., 1500., 0., 0.],
        [0., 0., 0., 0., 0., 0., 1., 0., 0., 1.],
        [0., 0., 0., 0., 0., 0., 0., 0., 0., 1500.],
        [0., 0., 0., 0., 0., 0., 0., 0., 2., 500.],
        [0., 0., 0., 3., 0., 0., 0., 0., 0., 1.],
        [0., 0., 0., 0., 0., 0., 0., 1., 1., 1.],
        [0., 0., 0., 0., 0., 0., 0., 0., 0., 9007199254740993000.0],
        // unbalanced multi-field durations (a lower field at or above its carry limit)
        [0., 0., 0., 0., 1., 90., 0., 0., 0., 0.],
        [0., 0., 0., 1., 25., 0., 1., 1500., 0., 0.],
        [0., 0., 0., 0., 0., 59., 60., 0., 0., 0.],
        [0., 0., 0., 0., 0., 0., 1., 999., 1000., 1000.],
        [0., 0., 0., 2., 48., 0., 0., 0., 0., 0.],
        [0., 0., 0., 0., 23., 59., 59., 999., 999., 1000.],
        [0., 0., 0., 1., 0., 0., 86400., 0., 0., 0.],
        [0., 0., 0., 0., 0., 1., 0., 60000., 0., 0.],
        // each field exactly at its carry threshold next to a non-zero larger field (and the same one below / above)
        [0., 0., 0., 1., 24., 0., 0., 0., 0., 0.],
        [0., 0., 0., 3., 24., 30., 0., 0., 0., 0.],
        [0., 0., 0., 1., 23., 0., 0., 0., 0., 0.],
        [0., 0., 0., 0., 24., 0., 0., 0., 0., 0.],
        [0., 0., 0., 0., 1., 60., 0., 0., 0., 0.],
        [0., 0., 0., 0., 0., 1., 60., 0., 0., 0.],
        [0., 0., 0., 0., 0., 0., 1., 1000., 0., 0.],
        [0., 0., 0., 0., 0., 0., 0., 1., 1000., 0.],
        [0., 0., 0., 0., 0., 0., 0., 0., 1., 1000.],
        [0., 0., 0., 0., 0., 0., 0., 0., 1., 999.],
        // within a second of the limit 2^53 s: balanced to a sub-second unit, the exact total is in range
        // but the double nearest to the large field is at the limit (must be a RangeError)
        [0., 0., 0., 0., 0., 0., 9007199254740991., 0., 0., 999_999_999.],
        [0., 0., 0., 0., 0., 0., 9007199254740991., 999., 0., 0.],
        [0., 0., 0., 0., 0., 0., 9007199254740991., 0., 0., 0.],
        [0., 0., 0., 0., 0., 0., 9007199254740990., 0., 0., 1_999_999_999.],
        // halves of the limit in sub-second fields: sums inside the window (and exactly at the limit)
        [0., 0., 0., 0., 0., 0., 0., 4503599627370496000., 0., 0.],
        [0., 0., 0., 0., 0., 0., 0., 4503599627370494976., 1_023_000., 999_999.],
        [0., 0., 0., 0., 0., 0., 0., 0., 4503599627370496000000., 0.],
        [0., 0., 0., 0., 0., 0., 0., 0., 4503599627370494951424., 1_048_575_999.],
        [0., 0., 0., 0., 0., 0., 0., 0., 0., 4503599627370496000000000.],
    ] {
        fs.push(f);
    }
    let mut v = vec![];
    for f in fs {
        for s in [1.0, -1.0] {
            let g = f.map(|x| if x == 0.0 { 0.0 } else { s * x });
            if s < 0.0 && r5::sign(&f) == 0 {
                continue;
            }
            if let Ok(imp) = dur10(g) {
                v.push(D { f: g, imp });
            }
        }
    }
    let mut cal = vec![];
    for f in [[1., 0., 0., 0., 0., 0., 0., 0., 0., 0.], [0., 1., 0., 0., 0., 0., 0., 0., 0., 0.], [0., 0., 1., 0., 0., 0., 0., 0., 0., 0.], [-1., 0., 0., -1., 0., 0., -1., 0., 0., 0.], [0., 0., 2., 3., 4., 0., 0., 0., 0., 0.]] {
        cal.push(D { f, imp: dur10(f).unwrap() });
    }
    (v, cal)
}

struct Pairs {
    free: Vec<D>,
    cal: Vec<D>,
}

impl Space for Pairs {
    fn name(&self) -> String {
        "c09.add_compare".into()
    }
    fn len(&self) -> u64 {
        let n = (self.free.len() + self.cal.len()) as u64;
        n * n
    }
    fn block(&self) -> u64 {
        512
    }
    fn eval(&self, i: u64, out: &mut Out) {
        let n = (self.free.len() + self.cal.len()) as u64;
        let get = |k: u64| if (k as usize) < self.free.len() { &self.free[k as usize] } else { &self.cal[k as usize - self.free.len()] };
        let (a, b) = (get(i / n), get(i % n));
        let attrs = || {
            vec![
                ("a", ftext(&a.f)),
                ("b", ftext(&b.f)),
                ("has_calendar_unit", (r5::default_largest(&a.f) < 3 || r5::default_largest(&b.f) < 3).to_string()),
                ("big_operand", (a.f.iter().chain(b.f.iter()).any(|v| v.abs() > 1e7)).to_string()),
            ]
        };
        out.nontrivial += 1;
        let me = |r: Result<Fields, r5::DErr>| r.map_err(|_| ErrorKind::Range);
        let sum = me(r5::add(&a.f, &b.f));
        let got = call(|| a.imp.add(&b.imp));
        out.lockstep("Duration::add", &sum, &got, |m, d| dur_fields(d) == *m, attrs);
        let diff = me(r5::add(&a.f, &r5::negate(&b.f)));
        let got = call(|| a.imp.subtract(&b.imp));
        out.lockstep("Duration::subtract", &diff, &got, |m, d| dur_fields(d) == *m, attrs);
        if let Ok(s) = &sum {
            out.state(&s.map(|x| x.to_bits()));
        }
        // commutativity (law, no expected value)
        let g1 = call(|| a.imp.add(&b.imp)).map(|d| dur_fields(&d));
        let g2 = call(|| b.imp.add(&a.imp)).map(|d| dur_fields(&d));
        out.law("add commutes", g1.ok() == g2.ok(), attrs);
        let cm = r5::compare(&a.f, &b.f).map_err(|_| ErrorKind::Range);
        let got = call(|| a.imp.compare_with_provider(&b.imp, None, &ErrProvider));
        out.lockstep("Duration::compare", &cm, &got, |m, o| m == o, attrs);
        let rev = call(|| b.imp.compare_with_provider(&a.imp, None, &ErrProvider));
        if let (Oc::Ok(x), Oc::Ok(y)) = (&got, &rev) {
            out.law("compare antisymmetric", *x == y.reverse(), attrs);
        }
        if out.want_sample() && i % 977 == 5 {
            out.sample(json!({"a": ftext(&a.f), "b": ftext(&b.f), "model_add": format!("{sum:?}"), "model_compare": format!("{cm:?}")}));
        }
    }
    fn describe(&self) -> serde_json::Value {
        json!({"calendar_free_durations": self.free.len(), "durations_with_calendar_units": self.cal.len(), "pairs": "all ordered pairs"})
    }
}

// field index (3 = day … 9 = ns) to Unit
fn funit(ix: usize) -> Unit {
    [Unit::Day, Unit::Hour, Unit::Minute, Unit::Second, Unit::Millisecond, Unit::Microsecond, Unit::Nanosecond][ix - 3]
}
fn fname(ix: usize) -> &'static str {
    ["day", "hour", "minute", "second", "millisecond", "microsecond", "nanosecond"][ix - 3]
}

fn increments_for(ix: usize, tier: Tier) -> Vec<u32> {
    match ix {
        3 => vec![1, 2, 3, 5, 7, 10],
        4 => vec![1, 2, 3, 4, 6, 8, 12],
        5 | 6 => tier.pick(vec![1, 2, 3, 5, 12, 15, 30], vec![1, 2, 3, 4, 5, 6, 10, 12, 15, 20, 30]),
        _ => tier.pick(vec![1, 2, 5, 8, 25, 125, 500], vec![1, 2, 4, 5, 8, 10, 20, 25, 40, 50, 100, 125, 200, 250, 500]),
    }
}

struct RoundTotal {
    durs: Vec<D>,
    tier: Tier,
}

impl Space for RoundTotal {
    fn name(&self) -> String {
        "c09.round_total".into()
    }
    fn len(&self) -> u64 {
        self.durs.len() as u64 * 7 * 8
    }
    fn block(&self) -> u64 {
        16
    }
    fn eval(&self, i: u64, out: &mut Out) {
        let ix = unrank(i, &[8, 7, self.durs.len() as u64]);
        let d = &self.durs[ix[2]];
        let smallest = 3 + ix[1];
        // largest: 0..6 explicit unit day..ns, 7 = absent (default)
        let largest_opt: Option<usize> = if ix[0] == 7 { None } else { Some(3 + ix[0]) };
        let existing = r5::default_largest(&d.f);
        let largest = largest_opt.unwrap_or(existing.min(smallest));
        out.nontrivial += 1;
        let base_attrs = |inc: u32, mode: &str| {
            vec![
                ("duration", ftext(&d.f)),
                ("largest", largest_opt.map(fname).unwrap_or("absent").to_string()),
                ("smallest", fname(smallest).to_string()),
                ("increment", inc.to_string()),
                ("mode", mode.to_string()),
                ("sign", if r5::sign(&d.f) < 0 { "negative" } else { "nonnegative" }.to_string()),
                ("big", d.f.iter().any(|v| v.abs() > 1e7).to_string()),
            ]
        };
        if ix[0] == 0 {
            // total(unit = smallest): once per (duration, unit)
            let (num, den) = r5::total(&d.f, smallest).expect("calendar free");
            let got = call(|| d.imp.total_with_provider(funit(smallest), None, &ErrProvider).map(|x| x.as_inner()));
            out.lockstep("Duration::total", &Ok((num, den)), &got, |m, x| r5::close_to_rational(*x, m.0, m.1), || base_attrs(1, "-"));
        }
        if largest > smallest {
            // largest unit smaller than smallest unit: C10's business
            return;
        }
        for inc in increments_for(smallest, self.tier) {
            for mode in ALL_MODES {
                let model = r5::round(&d.f, largest, smallest, inc, mode).map_err(|_| ErrorKind::Range);
                let got = call(|| d.imp.round_with_provider(round_opts(largest_opt.map(funit), Some(funit(smallest)), Some(imode(mode)), Some(inc)), None, &ErrProvider));
                // a balanced field above 2^53 is stored as the nearest double on both sides
                out.lockstep("Duration::round", &model, &got, |m, x| dur_fields(x) == *m, || base_attrs(inc, mode.name()));
                if mode == r4::Mode::HalfExpand && inc == 1 {
                    let got = call(|| d.imp.round_with_provider(round_opts(largest_opt.map(funit), Some(funit(smallest)), None, None), None, &ErrProvider));
                    out.lockstep("Duration::round(defaults)", &model, &got, |m, x| dur_fields(x) == *m, || base_attrs(inc, "absent"));
                }
            }
        }
        if out.want_sample() && r5::sign(&d.f) < 0 && smallest == 6 {
            out.sample(json!({"duration": ftext(&d.f), "largest": largest_opt.map(fname), "smallest": fname(smallest), "model_round_inc1_halfEven": format!("{:?}", r5::round(&d.f, largest, smallest, 1, r4::Mode::HalfEven))}));
        }
    }
    fn describe(&self) -> serde_json::Value {
        json!({"durations": self.durs.len(), "largest": "day..ns + absent", "smallest": "day..ns", "modes": 9})
    }
}

/// Days fields of the tie battery: both parities and signs, a day count at which a double no longer holds
/// a nanosecond next to it (200), and even / odd counts at and beyond 2^31 and 2^32.
const ROUND_TIES_DAYS: [i128; 13] = [0, 1, 2, 3, -1, -3, 200, -201, 1 << 31, (1 << 31) + 1, 1 << 32, -(1 << 32), (1 << 32) + 1];

/// Ties and their neighbours for every (unit, increment), with a non-zero days field next to the
/// time part: the total (a day counting 24 h) is what is rounded, not the time part alone.
pub struct RoundTies {
    pub name: &'static str,
    pub tier: Tier,
}
impl Space for RoundTies {
    fn name(&self) -> String {
        self.name.into()
    }
    fn len(&self) -> u64 {
        7 * ROUND_TIES_DAYS.len() as u64
    }
    fn block(&self) -> u64 {
        1
    }
    fn eval(&self, i: u64, out: &mut Out) {
        let ix = unrank(i, &[ROUND_TIES_DAYS.len() as u64, 7]);
        let smallest = 3 + ix[1];
        let days = ROUND_TIES_DAYS[ix[0]];
        let unit_ns = r3::UNIT_NS[smallest - 3];
        for inc in increments_for(smallest, self.tier) {
            let step = unit_ns * inc as i128;
            for (k, half) in [(0i128, true), (1, true), (2, true), (3, true), (5, true), (0, false), (1, false), (2, false)] {
                for delta in [-1i128, 0, 1] {
                    // time part = k steps + half a step (+- 1 ns), or k whole steps (+- 1 ns; a zero time part
                    // next to a days field that is not a multiple of the increment is one of these), carrying
                    // the sign of the days field
                    let sign = if days < 0 { -1 } else { 1 };
                    let time = sign * (k * step + if half { step / 2 } else { 0 } + delta);
                    if (step == 1 && delta != 0) || (time != 0 && (time < 0) != (sign < 0)) {
                        continue;
                    }
                    let b = r3::balance(time, r3::T_HOUR);
                    let f: Fields = [0.0, 0.0, 0.0, days as f64, b[1] as f64, b[2] as f64, b[3] as f64, b[4] as f64, b[5] as f64, b[6] as f64];
                    let Ok(imp) = dur10(f) else { continue };
                    out.nontrivial += 1;
                    for largest_opt in [None, Some(3usize), Some(4)] {
                        let largest = largest_opt.unwrap_or(r5::default_largest(&f).min(smallest));
                        if largest > smallest {
                            continue;
                        }
                        for mode in ALL_MODES {
                            let model = r5::round(&f, largest, smallest, inc, mode).map_err(|_| ErrorKind::Range);
                            let got = call(|| imp.round_with_provider(round_opts(largest_opt.map(funit), Some(funit(smallest)), Some(imode(mode)), Some(inc)), None, &ErrProvider));
                            out.lockstep("Duration::round(tie battery)", &model, &got, |m, x| dur_fields(x) == *m, || {
                                vec![("duration", ftext(&f)), ("days_field", days.to_string()), ("largest", largest_opt.map(fname).unwrap_or("absent").to_string()), ("smallest", fname(smallest).to_string()), ("increment", inc.to_string()), ("mode", mode.name().to_string()), ("offset_from_tie_ns", delta.to_string()), ("steps", k.to_string()), ("around", if half { "tie" } else { "multiple" }.to_string())]
                            });
                        }
                    }
                }
            }
        }
    }
}

/// The public helpers of the finite-double type that duration fields are made of: integrality test, truncation
/// with saturation, positivity, checked division and fused multiply-add, copysign - on all ordered pairs of a
/// value set around zero, one half, the i32 / i64 limits and the largest doubles.
struct FiniteHelpers;
const FH_VALUES: [f64; 22] = [0.0, -0.0, 0.4, -0.4, 0.5, -0.5, 1.0, -1.0, 1.5, -1.5, 7.0, 2147483647.0, 2147483648.0, -2147483648.0, -2147483649.0, 2147483647.5, 9.3e18, -9.3e18, 1e300, -1e300, f64::MAX, f64::MIN_POSITIVE];
impl Space for FiniteHelpers {
    fn name(&self) -> String {
        "c09.finite_f64_helpers".into()
    }
    fn len(&self) -> u64 {
        (FH_VALUES.len() * FH_VALUES.len()) as u64
    }
    fn block(&self) -> u64 {
        16
    }
    fn eval(&self, i: u64, out: &mut Out) {
        use temporal_rs::primitive::FiniteF64;
        let (a, b) = (FH_VALUES[i as usize / FH_VALUES.len()], FH_VALUES[i as usize % FH_VALUES.len()]);
        let (fa, fb) = (FiniteF64::try_from(a).expect("finite"), FiniteF64::try_from(b).expect("finite"));
        out.nontrivial += 1;
        let attrs = || vec![("a", format!("{a:e}")), ("b", format!("{b:e}"))];
        if i as usize % FH_VALUES.len() == 0 {
            let integral = a == a.trunc();
            let sat32 = |v: f64| v.clamp(i32::MIN as f64, i32::MAX as f64).trunc() as i32;
            let sat64 = |v: f64| v.clamp(i64::MIN as f64, i64::MAX as f64).trunc() as i64;
            let model: Result<i32, ErrorKind> = if integral { Ok(sat32(a)) } else { Err(ErrorKind::Range) };
            out.lockstep("FiniteF64::as_integer_if_integral::<i32>", &model, &call(|| fa.as_integer_if_integral::<i32>()), |x, y| x == y, attrs);
            let model: Result<i64, ErrorKind> = if integral { Ok(sat64(a)) } else { Err(ErrorKind::Range) };
            out.lockstep("FiniteF64::as_integer_if_integral::<i64>", &model, &call(|| fa.as_integer_if_integral::<i64>()), |x, y| x == y, attrs);
            out.lockstep("FiniteF64::as_integer_with_truncation::<i32>", &Ok(sat32(a)), &call_inf(|| fa.as_integer_with_truncation::<i32>()), |x, y| x == y, attrs);
            out.lockstep("FiniteF64::as_integer_with_truncation::<i64>", &Ok(sat64(a)), &call_inf(|| fa.as_integer_with_truncation::<i64>()), |x, y| x == y, attrs);
            let model: Result<i32, ErrorKind> = if sat32(a) > 0 { Ok(sat32(a)) } else { Err(ErrorKind::Range) };
            out.lockstep("FiniteF64::as_positive_integer_with_truncation::<i32>", &model, &call(|| fa.as_positive_integer_with_truncation::<i32>()), |x, y| x == y, attrs);
        }
        let q = a / b;
        let model = if q.is_finite() { Ok(q) } else { Err(ErrorKind::Range) };
        out.lockstep("FiniteF64::checked_div", &model, &call(|| fa.checked_div(&fb)), |x, y| y.as_inner().to_bits() == x.to_bits(), attrs);
        let r = a.mul_add(b, b);
        let model = if r.is_finite() { Ok(r) } else { Err(ErrorKind::Range) };
        out.lockstep("FiniteF64::checked_mul_add", &model, &call(|| fa.checked_mul_add(fb, fb)), |x, y| y.as_inner().to_bits() == x.to_bits(), attrs);
        let model = if a == 0.0 { a } else { a.copysign(b) };
        out.lockstep("FiniteF64::copysign", &Ok(model), &call_inf(|| fa.copysign(b)), |x, y| y.as_inner().to_bits() == x.to_bits(), attrs);
    }
    fn describe(&self) -> serde_json::Value {
        json!({"values": FH_VALUES.len(), "ordered_pairs": FH_VALUES.len() * FH_VALUES.len()})
    }
}

pub fn spaces(env: &Env) -> Vec<Box<dyn Space>> {
    let (free, cal) = operand_alphabet();
    vec![
        Box::new(Validity { alph: validity_alphabet(env.tier) }),
        Box::new(Partials),
        Box::new(Pairs { free: free.clone(), cal }),
        Box::new(RoundTotal { durs: free, tier: env.tier }),
        Box::new(RoundTies { name: "c09.round_ties", tier: env.tier }),
        Box::new(FiniteHelpers),
    ]
}

pub fn run(env: &Env) -> i32 {
    let mut rep = Report::new(
        env,
        "model_checking",
        "product sweeps: all 10-field combinations of {0, ±1, largest value valid alone, smallest value invalid alone}; all 4^10 partial records over {absent, 0, 1, -1}; all ordered pairs of ~400 operand durations for add/subtract/compare; durations x (largest, smallest) x increments x 9 modes for round, durations x units for total",
    );
    rep.assumptions.push("R5: exact i128 totals of integral double fields, a day = 24 h; total() is compared with the exact rational to within one ulp".into());
    for s in spaces(env) {
        rep.run(s.as_ref());
    }
    rep.finish()
}

//! C11 — formatting then parsing returns the same value; output is canonical.

use crate::checks::c07::{round_time_of_day, Inc};
use crate::checks::c15::zone_names;
use crate::conv::*;
use crate::engine::*;
use crate::imp::*;
use crate::providers::{ErrProvider, UtcProvider};
use serde_json::json;
use std::str::FromStr;
use temporal_rs::options::*;
use temporal_rs::parsers::Precision;
use temporal_rs::provider::TransitionDirection;
use temporal_rs::{Calendar, Duration, Instant, MonthCode, PlainDate, PlainDateTime, PlainMonthDay, PlainTime, PlainYearMonth, TimeZone, UtcOffset, ZonedDateTime};
use tmc_ref::r1::*;
use tmc_ref::r3::{self, TUnit, NS_PER_DAY};
use tmc_ref::r4::Mode;
use tmc_ref::r8f::*;

const YEARS: [i64; 17] = [-271_821, -271_820, -10_000, -9_999, -1_000, -1, 0, 1, 999, 1_000, 1_972, 9_999, 10_000, 99_999, 100_000, 275_759, 275_760];
const CALS: [&str; 4] = ["iso8601", "gregory", "japanese", "hebrew"];
const SHOWS: [(ShowCal, DisplayCalendar); 4] = [(ShowCal::Auto, DisplayCalendar::Auto), (ShowCal::Always, DisplayCalendar::Always), (ShowCal::Never, DisplayCalendar::Never), (ShowCal::Critical, DisplayCalendar::Critical)];

fn times() -> Vec<i128> {
    let mut v = vec![];
    for h in [0i128, 9, 10, 23] {
        for m in [0i128, 9, 59] {
            for s in [0i128, 9, 59] {
                for f in [0i128, 1, 10, 100, 999, 1_000, 100_000_000, 120_000_000, 123_456_789, 999_999_999, 500_000_000] {
                    v.push(h * 3_600_000_000_000 + m * 60_000_000_000 + s * 1_000_000_000 + f);
                }
            }
        }
    }
    v
}

fn precisions() -> Vec<(Prec, Precision, Option<Unit>)> {
    let mut v = vec![(Prec::Auto, Precision::Auto, None), (Prec::Minute, Precision::Auto, Some(Unit::Minute))];
    for d in 0..=9u8 {
        v.push((Prec::Digits(d), Precision::Digit(d), None));
    }
    v
}

/// The (unit, increment) that a precision resolves to, as an `Inc` for the rounding model.
fn inc_of(p: Prec) -> Option<Inc> {
    match p {
        Prec::Auto => None,
        Prec::Minute => Some(Inc { unit: r3::T_MINUTE, n: 1, ns: 60_000_000_000 }),
        Prec::Digits(0) => Some(Inc { unit: r3::T_SECOND, n: 1, ns: 1_000_000_000 }),
        Prec::Digits(d @ 1..=3) => Some(Inc { unit: r3::T_MS, n: 10u64.pow(3 - d as u32), ns: 10i128.pow(9 - d as u32) }),
        Prec::Digits(d @ 4..=6) => Some(Inc { unit: r3::T_US, n: 10u64.pow(6 - d as u32), ns: 10i128.pow(9 - d as u32) }),
        Prec::Digits(d) => Some(Inc { unit: r3::T_NS, n: 10u64.pow(9 - d as u32), ns: 10i128.pow(9 - d as u32) }),
    }
}

const MODES: [Option<Mode>; 4] = [None, Some(Mode::Trunc), Some(Mode::Ceil), Some(Mode::HalfExpand)];

struct PlainValues {
    times: Vec<i128>,
    tier: Tier,
}

impl Space for PlainValues {
    fn name(&self) -> String {
        "c11.plain_values".into()
    }
    fn len(&self) -> u64 {
        (YEARS.len() * 5 * 7) as u64
    }
    fn block(&self) -> u64 {
        4
    }
    fn eval(&self, i: u64, out: &mut Out) {
        let ix = unrank(i, &[7, 5, YEARS.len() as u64]);
        let y = YEARS[ix[2]];
        let m = [1u8, 2, 9, 10, 12][ix[1]];
        let d = [1u8, 9, 10, 28, 29, 30, 31][ix[0]];
        if !date_in_limits(y, m, d) {
            return;
        }
        out.nontrivial += 1;
        let dtext = date_text(y, m, d);
        // ---- PlainDate x calendars x calendar display
        for cal_id in CALS {
            let cal = Calendar::from_str(cal_id).unwrap();
            let Oc::Ok(date) = call(|| PlainDate::try_new(y as i32, m, d, cal.clone())) else { continue };
            for (sm, si) in SHOWS {
                let attrs = || vec![("type", "PlainDate".to_string()), ("date", dtext.clone()), ("calendar", cal_id.to_string()), ("show", format!("{sm:?}")), ("year_class", if y == 9999 { "9999" } else if (0..=9999).contains(&y) { "4digit" } else { "extended" }.to_string())];
                let want = format!("{dtext}{}", calendar_annotation(cal_id, sm));
                let got = call_inf(|| date.to_ixdtf_string(si));
                if !out.lockstep("PlainDate::to_ixdtf_string", &Ok(want.clone()), &got, |a, b| a == b, attrs) {
                    continue;
                }
                // parse back
                let keeps_cal = sm != ShowCal::Never || cal_id == "iso8601";
                let back = call(|| PlainDate::from_str(&want));
                out.lockstep("PlainDate::from_str(format(v)) = v", &Ok(()), &back, |_, b| b.compare_iso(&date).is_eq() && (!keeps_cal || b.calendar().identifier() == cal_id), attrs);
                if let Oc::Ok(b) = &back {
                    if keeps_cal {
                        out.law("format(parse(format(v))) = format(v)", b.to_ixdtf_string(si) == want, attrs);
                    }
                }
            }
            out.law("Display = auto text", sm_default_display(&date) == format!("{dtext}{}", calendar_annotation(cal_id, ShowCal::Auto)), || vec![("type", "PlainDate".into()), ("date", dtext.clone()), ("calendar", cal_id.to_string())]);
        }
        // ---- PlainDateTime x times x precision x mode (ISO + one other calendar)
        for (k, t) in self.times.iter().enumerate() {
            if self.tier == Tier::Quick && (k + i as usize) % 9 != 0 {
                continue; // each date takes a ninth of the time alphabet; all times are covered across dates
            }
            let Oc::Ok(dt) = call(|| plain_date_time(days_from_civil(y, m, d), *t)) else { continue };
            out.law("Display = auto text", call_inf(|| format!("{dt}")).ok() == Some(&format!("{dtext}T{}", time_text(*t, Prec::Auto))), || vec![("type", "PlainDateTime".to_string()), ("value", format!("{dtext}T{}", time_text(*t, Prec::Auto)))]);
            for (pm, pi, su) in precisions() {
                for mode in MODES {
                    let attrs = || vec![("type", "PlainDateTime".to_string()), ("value", format!("{dtext}T{}", time_text(*t, Prec::Auto))), ("precision", format!("{pm:?}")), ("mode", format!("{mode:?}"))];
                    let r = match inc_of(pm) {
                        None => *t,
                        Some(inc) => round_time_of_day(*t, &inc, mode.unwrap_or(Mode::Trunc)),
                    };
                    let (rd, rt) = (days_from_civil(y, m, d) + (r / NS_PER_DAY) as i64, r % NS_PER_DAY);
                    let (ry, rm, rdd) = civil_from_days(rd);
                    let model = if dt_in_limits(rd, rt) { Ok(format!("{}T{}", date_text(ry, rm, rdd), time_text(rt, pm))) } else { Err(temporal_rs::error::ErrorKind::Range) };
                    let opts = ToStringRoundingOptions { precision: pi, smallest_unit: su, rounding_mode: mode.map(imode) };
                    let got = call(|| dt.to_ixdtf_string(opts, DisplayCalendar::Auto));
                    if !out.lockstep("PlainDateTime::to_ixdtf_string", &model, &got, |a, b| a == b, attrs) {
                        continue;
                    }
                    if let Ok(text) = &model {
                        let back = call(|| PlainDateTime::from_str(text));
                        out.lockstep("PlainDateTime::from_str(format(v)) = rounded v", &Ok((rd, if pm == Prec::Minute { rt } else { rt })), &back, |a, b| dt_parts(b) == *a, attrs);
                    }
                }
            }
        }
        if out.want_sample() && y == 9999 {
            out.sample(json!({"date": dtext, "canonical": "four-digit year for 0000-9999, signed six digits otherwise"}));
        }
    }
    fn describe(&self) -> serde_json::Value {
        json!({"years": YEARS, "months": [1, 2, 9, 10, 12], "days": [1, 9, 10, 28, 29, 30, 31], "calendars": CALS, "calendar_display": 4, "times": self.times.len(), "precisions": 12, "modes": 4})
    }
}

fn sm_default_display(d: &PlainDate) -> String {
    d.to_string()
}

struct Times {
    times: Vec<i128>,
}
impl Space for Times {
    fn name(&self) -> String {
        "c11.plain_time".into()
    }
    fn len(&self) -> u64 {
        self.times.len() as u64
    }
    fn block(&self) -> u64 {
        8
    }
    fn eval(&self, i: u64, out: &mut Out) {
        let t = self.times[i as usize];
        let pt = plain_time(t).unwrap();
        if t % 1_000_000_000 != 0 {
            out.nontrivial += 1;
        }
        for (pm, pi, su) in precisions() {
            for mode in [None, Some(Mode::Trunc), Some(Mode::Ceil), Some(Mode::HalfExpand), Some(Mode::Floor), Some(Mode::HalfEven)] {
                let attrs = || vec![("type", "PlainTime".to_string()), ("value", time_text(t, Prec::Auto)), ("precision", format!("{pm:?}")), ("mode", format!("{mode:?}"))];
                let r = match inc_of(pm) {
                    None => t,
                    Some(inc) => round_time_of_day(t, &inc, mode.unwrap_or(Mode::Trunc)) % NS_PER_DAY,
                };
                let want = time_text(r, pm);
                let got = call(|| pt.to_ixdtf_string(ToStringRoundingOptions { precision: pi, smallest_unit: su, rounding_mode: mode.map(imode) }));
                if out.lockstep("PlainTime::to_ixdtf_string", &Ok(want.clone()), &got, |a, b| a == b, attrs) {
                    let back = call(|| PlainTime::from_str(&want));
                    out.lockstep("PlainTime::from_str(format(v)) = rounded v", &Ok(r), &back, |a, b| time_ns(b) == *a, attrs);
                    for variant in [format!("T{want}"), format!("t{want}"), want.replace(':', "")] {
                        let back = call(|| PlainTime::from_str(&variant));
                        out.lockstep("PlainTime::from_str(other spelling)", &Ok(r), &back, |a, b| time_ns(b) == *a, || vec![("text", variant.clone())]);
                    }
                }
            }
        }
        if out.want_sample() && t % 1_000_000_000 == 120_000_000 {
            out.sample(json!({"time_ns": t.to_string(), "auto": time_text(t, Prec::Auto), "digits3": time_text(t, Prec::Digits(3))}));
        }
    }
}

struct InstantsZoned;
impl Space for InstantsZoned {
    fn name(&self) -> String {
        "c11.instant_and_zoned".into()
    }
    fn len(&self) -> u64 {
        2879
    }
    fn block(&self) -> u64 {
        16
    }
    fn eval(&self, i: u64, out: &mut Out) {
        let minutes = i as i64 - 1439;
        let off = minutes * 60;
        let otext = offset_text(off);
        let Some(tz) = crate::imp::zone_of(&otext) else {
            out.unjudged += 1; // a refusal of the offset text is reported by the identifier round trip
            return;
        };
        out.nontrivial += 1;
        for t in [1_614_834_367_008_009_010i128, -86_399_999_998_997_996, 0, 253_402_300_799_999_999_999, -62_198_755_200_000_000_000, tmc_ref::r1::MAX_INSTANT_NS, -tmc_ref::r1::MAX_INSTANT_NS, -tmc_ref::r1::MAX_INSTANT_NS + 1] {
            let local = t + off as i128 * 1_000_000_000;
            let (day, tod) = (local.div_euclid(NS_PER_DAY) as i64, local.rem_euclid(NS_PER_DAY));
            let (y, m, d) = civil_from_days(day);
            let inst = Instant::try_new(t).unwrap();
            let attrs = || vec![("offset", otext.clone()), ("instant", t.to_string())];
            // Instant with an offset zone, and with Z
            let want = format!("{}T{}{otext}", date_text(y, m, d), time_text(tod, Prec::Auto));
            let got = call(|| inst.to_ixdtf_string_with_provider(Some(&tz), ToStringRoundingOptions::default(), &ErrProvider));
            if out.lockstep("Instant::to_ixdtf_string(offset zone)", &Ok(want.clone()), &got, |a, b| a == b, attrs) {
                let back = call(|| Instant::from_str(&want));
                out.lockstep("Instant::from_str(format(v)) = v", &Ok(t), &back, |a, b| b.epoch_nanoseconds().as_i128() == *a, attrs);
            }
            if minutes == 0 {
                let (y0, m0, d0) = civil_from_days(t.div_euclid(NS_PER_DAY) as i64);
                let wz = format!("{}T{}Z", date_text(y0, m0, d0), time_text(t.rem_euclid(NS_PER_DAY), Prec::Auto));
                let got = call(|| inst.to_ixdtf_string_with_provider(None, ToStringRoundingOptions::default(), &UtcProvider));
                if out.lockstep("Instant::to_ixdtf_string(Z)", &Ok(wz.clone()), &got, |a, b| a == b, attrs) {
                    let back = call(|| Instant::from_str(&wz));
                    out.lockstep("Instant::from_str(format(v)) = v", &Ok(t), &back, |a, b| b.epoch_nanoseconds().as_i128() == *a, attrs);
                }
            }
            // ZonedDateTime x display options x calendars
            for cal_id in ["iso8601", "gregory"] {
                let z = ZonedDateTime::try_new(t, Calendar::from_str(cal_id).unwrap(), tz.clone()).unwrap();
                for (so, doff) in [(true, DisplayOffset::Auto), (false, DisplayOffset::Never)] {
                    for (stz, dtz) in [(1, DisplayTimeZone::Auto), (0, DisplayTimeZone::Never), (2, DisplayTimeZone::Critical)] {
                        for (sm, si) in SHOWS {
                            if (i + t.unsigned_abs() as u64) % 3 != 0 && !(so && stz == 1 && sm == ShowCal::Auto) {
                                continue;
                            }
                            let attrs = || vec![("offset", otext.clone()), ("instant", t.to_string()), ("calendar", cal_id.to_string()), ("display", format!("offset:{so} zone:{stz} cal:{sm:?}"))];
                            let want = format!(
                                "{}T{}{}{}{}",
                                date_text(y, m, d),
                                time_text(tod, Prec::Auto),
                                if so { otext.clone() } else { String::new() },
                                match stz {
                                    0 => String::new(),
                                    1 => format!("[{otext}]"),
                                    _ => format!("[!{otext}]"),
                                },
                                calendar_annotation(cal_id, sm)
                            );
                            let got = call(|| z.to_ixdtf_string_with_provider(doff, dtz, si, ToStringRoundingOptions::default(), &ErrProvider));
                            if !out.lockstep("ZonedDateTime::to_ixdtf_string", &Ok(want.clone()), &got, |a, b| a == b, attrs) {
                                continue;
                            }
                            if so && stz == 1 && sm == ShowCal::Auto {
                                let got = call(|| z.to_string_with_provider(&ErrProvider));
                                out.lockstep("ZonedDateTime::to_string = text with every option at auto", &Ok(want.clone()), &got, |a, b| a == b, attrs);
                            }
                            if stz != 0 {
                                let keeps_cal = sm != ShowCal::Never || cal_id == "iso8601";
                                let back = call(|| ZonedDateTime::from_str_with_provider(&want, Disambiguation::Reject, OffsetDisambiguation::Reject, &ErrProvider));
                                // the specification refuses a wall-clock date on the first day of the date range when an
                                // offset is to be matched (CheckISODaysRange): such a text does not parse back
                                let expect = if so && day < -100_000_000 { Err(temporal_rs::error::ErrorKind::Range) } else { Ok(t) };
                                if expect.is_err() {
                                    out.unjudged += 1;
                                }
                                out.lockstep("ZonedDateTime::from_str(format(v)) = v", &expect, &back, |a, b| b.epoch_nanoseconds().as_i128() == *a && b.timezone() == &tz && (!keeps_cal || b.calendar().identifier() == cal_id), attrs);
                            }
                        }
                    }
                }
            }
        }
        // ZonedDateTime::toString rounds the instant first, then prints the rounded wall-clock reading
        if i % 16 == 7 || minutes == 0 {
            for t in [1_614_834_367_500_000_000i128, 1_614_834_367_999_999_999, 1_614_815_999_999_999_999, 951_782_399_999_500_000, 59_999_999_999] {
                let z = ZonedDateTime::try_new(t, Calendar::default(), tz.clone()).unwrap();
                for (pm, pi, su) in precisions() {
                    for mode in [None, Some(Mode::Ceil), Some(Mode::HalfExpand), Some(Mode::Floor), Some(Mode::HalfEven)] {
                        let attrs = || vec![("offset", otext.clone()), ("instant", t.to_string()), ("precision", format!("{pm:?}")), ("mode", format!("{mode:?}")), ("type", "ZonedDateTime".to_string())];
                        let r = match inc_of(pm) {
                            None => t,
                            Some(inc) => tmc_ref::r4::round_as_if_positive(t, inc.ns, mode.unwrap_or(Mode::Trunc)),
                        };
                        let local = r + off as i128 * 1_000_000_000;
                        let (y, m, d) = civil_from_days(local.div_euclid(NS_PER_DAY) as i64);
                        let want = format!("{}T{}{otext}[{otext}]", date_text(y, m, d), time_text(local.rem_euclid(NS_PER_DAY), pm));
                        let opts = ToStringRoundingOptions { precision: pi, smallest_unit: su, rounding_mode: mode.map(imode) };
                        let got = call(|| z.to_ixdtf_string_with_provider(DisplayOffset::Auto, DisplayTimeZone::Auto, DisplayCalendar::Auto, opts, &ErrProvider));
                        let inst_want = want.split('[').next().unwrap_or("").to_string();
                        let opts_i = ToStringRoundingOptions { precision: pi, smallest_unit: su, rounding_mode: mode.map(imode) };
                        let got_i = call(|| Instant::try_new(t)?.to_ixdtf_string_with_provider(Some(&tz), opts_i, &ErrProvider));
                        out.lockstep("Instant::to_ixdtf_string(in a zone, rounded)", &Ok(inst_want), &got_i, |a, b| a == b, attrs);
                        if out.lockstep("ZonedDateTime::to_ixdtf_string(rounded)", &Ok(want.clone()), &got, |a, b| a == b, attrs) {
                            let back = call(|| ZonedDateTime::from_str_with_provider(&want, Disambiguation::Reject, OffsetDisambiguation::Reject, &ErrProvider));
                            out.lockstep("ZonedDateTime::from_str(format(v)) = rounded v", &Ok(r), &back, |a, b| b.epoch_nanoseconds().as_i128() == *a, attrs);
                        }
                    }
                }
            }
        }
        // UtcOffset print/parse round trip
        let got = call(|| UtcOffset::from_str(&otext)?.to_string());
        out.lockstep("UtcOffset round trip", &Ok(otext.clone()), &got, |a, b| a == b, || vec![("offset", otext.clone())]);
        let got = call(|| TimeZone::try_from_str(&otext)?.identifier());
        out.lockstep("TimeZone(offset) round trip", &Ok(otext.clone()), &got, |a, b| a == b, || vec![("offset", otext.clone())]);
        if out.want_sample() && minutes == 330 {
            out.sample(json!({"offset": otext}));
        }
    }
}

struct Durations {
    list: Vec<[f64; 10]>,
}

fn duration_list() -> Vec<[f64; 10]> {
    let mut v: Vec<[f64; 10]> = vec![
        [0.; 10],
        [1., 2., 3., 4., 5., 6., 7., 8., 9., 10.],
        [0., 0., 0., 0., 0., 0., 0., 1., 0., 0.],
        [0., 0., 0., 0., 0., 0., 0., 0., 1., 0.],
        [0., 0., 0., 0., 0., 0., 0., 0., 0., 1.],
        [0., 0., 0., 0., 0., 0., 0., 999., 999., 999.],
        [0., 0., 0., 0., 0., 0., 0., 1000., 0., 0.],
        [0., 0., 0., 0., 0., 0., 59., 1000., 1000., 1000.],
        [0., 0., 0., 0., 0., 0., 0., 1_000_001., 0., 0.],
        [0., 0., 0., 0., 0., 0., 1., 500., 0., 0.],
        [0., 0., 0., 0., 0., 60., 60., 0., 0., 0.],
        [0., 0., 0., 0., 25., 0., 0., 0., 0., 0.],
        [1., 0., 0., 0., 0., 0., 0., 0., 0., 0.],
        [0., 10., 0., 0., 0., 0., 0., 0., 0., 0.],
        [0., 0., 59., 0., 0., 0., 0., 0., 0., 0.],
        [0., 0., 0., 1000., 0., 0., 0., 0., 0., 0.],
        [4294967295., 4294967295., 4294967295., 0., 0., 0., 0., 0., 0., 0.],
        [0., 0., 0., 0., 0., 0., 9007199254740991., 0., 0., 0.],
        [0., 0., 0., 0., 0., 0., 0., 0., 0., 9007199254740991.],
        [0., 0., 0., 1., 0., 0., 0., 0., 0., 1.],
        [0., 0., 0., 0., 0., 1., 0., 0., 0., 0.],
        [0., 0., 0., 0., 0., 0., 10., 10., 10., 10.],
        [0., 0., 0., 0., 1., 0., 0., 0., 0., 999_999_999.],
    ];
    let neg: Vec<[f64; 10]> = v.iter().filter(|f| f.iter().any(|x| *x != 0.0)).map(|f| f.map(|x| if x == 0.0 { 0.0 } else { -x })).collect();
    v.extend(neg);
    v
}

impl Space for Durations {
    fn name(&self) -> String {
        "c11.durations".into()
    }
    fn len(&self) -> u64 {
        self.list.len() as u64
    }
    fn block(&self) -> u64 {
        2
    }
    fn eval(&self, i: u64, out: &mut Out) {
        let f = self.list[i as usize];
        let Ok(d) = dur10(f) else { return };
        out.nontrivial += 1;
        let g = f.map(|x| x as i128);
        let sec_ns = g[6] * 1_000_000_000 + g[7] * 1_000_000 + g[8] * 1_000 + g[9];
        let attrs0 = || vec![("duration", format!("{f:?}"))];
        // auto precision: fields as they are, sub-second fields folded into the seconds
        let want = duration_text(g[0], g[1], g[2], g[3], g[4], g[5], sec_ns, None);
        let got = call(|| d.as_temporal_string(ToStringRoundingOptions::default()));
        if out.lockstep("Duration::as_temporal_string(auto)", &Ok(want.clone()), &got, |a, b| a == b, attrs0) {
            let back = call(|| Duration::from_str(&want));
            out.lockstep("Duration::from_str(format(v)) = v (sub-seconds folded)", &Ok(()), &back, |_, b| {
                let h = dur_i128(b);
                h[..6] == g[..6] && h[6] * 1_000_000_000 + h[7] * 1_000_000 + h[8] * 1_000 + h[9] == sec_ns
            }, attrs0);
            if let Oc::Ok(b) = &back {
                out.law("format(parse(format(v))) = format(v)", b.as_temporal_string(ToStringRoundingOptions::default()).ok().as_ref() == Some(&want), attrs0);
            }
            out.law("Display = auto text", d.to_string() == want, attrs0);
        }
        // fractional-digit precision with rounding of the total time
        let time_total = g[4] * 3_600_000_000_000 + g[5] * 60_000_000_000 + sec_ns;
        let largest = f.iter().position(|x| *x != 0.0).unwrap_or(9);
        for digits in [0u8, 1, 3, 6, 8, 9] {
            for mode in [None, Some(Mode::Ceil), Some(Mode::HalfExpand), Some(Mode::Floor)] {
                let attrs = || vec![("duration", format!("{f:?}")), ("digits", digits.to_string()), ("mode", format!("{mode:?}"))];
                let r = tmc_ref::r4::round(time_total, 10i128.pow(9 - digits as u32), mode.unwrap_or(Mode::Trunc));
                let (days_extra, h, mi, s_ns) = if largest <= 3 {
                    let b = r3::balance(r, r3::T_DAY);
                    (b[0], b[1], b[2], b[3] * 1_000_000_000 + b[4] * 1_000_000 + b[5] * 1_000 + b[6])
                } else {
                    let tl = TUnit((largest - 3).min(3));
                    let b = r3::balance(r, tl);
                    (0, b[1], b[2], b[3] * 1_000_000_000 + b[4] * 1_000_000 + b[5] * 1_000 + b[6])
                };
                // smallest unit nanosecond with increment 1 is the no-rounding, no-balancing path
                let (days_extra, h, mi, s_ns) = if digits == 9 { (0, g[4], g[5], sec_ns) } else { (days_extra, h, mi, s_ns) };
                let total_days = g[3] + days_extra;
                if (s_ns / 1_000_000_000).abs() >= (1i128 << 53) || r.abs() >= tmc_ref::r5::LIMIT_NS {
                    out.unjudged += 1;
                    continue;
                }
                let want = duration_text(g[0], g[1], g[2], total_days, h, mi, s_ns, Some(digits));
                let got = call(|| d.as_temporal_string(ToStringRoundingOptions { precision: Precision::Digit(digits), smallest_unit: None, rounding_mode: mode.map(imode) }));
                out.lockstep("Duration::as_temporal_string(digits)", &Ok(want), &got, |a, b| a == b, attrs);
            }
        }
        if out.want_sample() && sec_ns != 0 && g[6] == 0 {
            out.sample(json!({"fields": format!("{f:?}"), "canonical_auto": want}));
        }
    }
}

/// Option enums, month codes, zone identifiers, calendar identifiers: print/parse round trip for every value.
struct Names {
    zones: Vec<String>,
}
impl Space for Names {
    fn name(&self) -> String {
        "c11.names".into()
    }
    fn len(&self) -> u64 {
        self.zones.len() as u64 + 1
    }
    fn block(&self) -> u64 {
        16
    }
    fn eval(&self, i: u64, out: &mut Out) {
        if i > 0 {
            let name = &self.zones[i as usize - 1];
            out.nontrivial += 1;
            let got = call(|| TimeZone::try_from_str(name)?.identifier());
            out.lockstep("TimeZone identifier round trip", &Ok(name.clone()), &got, |a, b| a == b, || vec![("zone", name.clone())]);
            let got = call(|| TimeZone::try_from_identifier_str(name)?.identifier());
            out.lockstep("TimeZone::try_from_identifier_str round trip", &Ok(name.clone()), &got, |a, b| a == b, || vec![("zone", name.clone())]);
            return;
        }
        macro_rules! rt {
            ($tyname:expr, $ty:ty, [$($v:expr),+]) => {{
                $(
                    out.nontrivial += 1;
                    let v: $ty = $v;
                    let text = v.to_string();
                    let back = <$ty>::from_str(&text);
                    out.lockstep(concat!($tyname, " print/parse"), &Ok(format!("{:?}", v)), &Oc::Ok(format!("{:?}", back.ok())), |a: &String, b: &String| *b == format!("Some({a})"), || vec![("variant", format!("{:?}", v)), ("text", text.clone())]);
                    out.law(concat!($tyname, " text is lower camel case ASCII"), !text.is_empty() && text.chars().all(|c| c.is_ascii_alphabetic()) && text.chars().next().unwrap().is_ascii_lowercase(), || vec![("text", text.clone())]);
                )+
            }};
        }
        use Unit as U;
        rt!("Unit", Unit, [U::Auto, U::Nanosecond, U::Microsecond, U::Millisecond, U::Second, U::Minute, U::Hour, U::Day, U::Week, U::Month, U::Year]);
        use RoundingMode as R;
        rt!("RoundingMode", RoundingMode, [R::Ceil, R::Floor, R::Expand, R::Trunc, R::HalfCeil, R::HalfFloor, R::HalfExpand, R::HalfTrunc, R::HalfEven]);
        rt!("ArithmeticOverflow", ArithmeticOverflow, [ArithmeticOverflow::Constrain, ArithmeticOverflow::Reject]);
        rt!("DurationOverflow", DurationOverflow, [DurationOverflow::Constrain, DurationOverflow::Balance]);
        rt!("Disambiguation", Disambiguation, [Disambiguation::Compatible, Disambiguation::Earlier, Disambiguation::Later, Disambiguation::Reject]);
        rt!("OffsetDisambiguation", OffsetDisambiguation, [OffsetDisambiguation::Use, OffsetDisambiguation::Prefer, OffsetDisambiguation::Ignore, OffsetDisambiguation::Reject]);
        rt!("DisplayCalendar", DisplayCalendar, [DisplayCalendar::Auto, DisplayCalendar::Always, DisplayCalendar::Never, DisplayCalendar::Critical]);
        rt!("DisplayOffset", DisplayOffset, [DisplayOffset::Auto, DisplayOffset::Never]);
        rt!("DisplayTimeZone", DisplayTimeZone, [DisplayTimeZone::Auto, DisplayTimeZone::Never, DisplayTimeZone::Critical]);
        rt!("TransitionDirection", TransitionDirection, [TransitionDirection::Next, TransitionDirection::Previous]);
        // plural unit spellings parse too
        for (t, u) in [("years", U::Year), ("months", U::Month), ("weeks", U::Week), ("days", U::Day), ("hours", U::Hour), ("minutes", U::Minute), ("seconds", U::Second), ("milliseconds", U::Millisecond), ("microseconds", U::Microsecond), ("nanoseconds", U::Nanosecond)] {
            out.law("Unit plural spelling", Unit::from_str(t).ok() == Some(u), || vec![("text", t.to_string())]);
        }
        for n in 1..=13u8 {
            for leap in [false, true] {
                if leap && n == 13 {
                    continue;
                }
                out.nontrivial += 1;
                let text = format!("M{n:02}{}", if leap { "L" } else { "" });
                let got = call(|| MonthCode::from_str(&text).map(|c| (c.as_str().to_string(), c.to_month_integer(), c.is_leap_month())));
                out.lockstep("MonthCode print/parse", &Ok((text.clone(), n, leap)), &got, |a, b| a == b, || vec![("text", text.clone())]);
            }
        }
        for (id, _) in crate::checks::c16::CALENDARS {
            out.nontrivial += 1;
            let got = call(|| Calendar::from_str(id).map(|c| c.identifier().to_string()));
            out.lockstep("Calendar identifier round trip", &Ok(id.to_string()), &got, |a, b| a == b, || vec![("calendar", id.to_string())]);
        }
        // year-month / month-day texts parse back (canonical texts are judged in C18)
        for (y, m) in [(2020i32, 2u8), (-271_821, 4), (275_760, 9), (9_999, 12), (10_000, 1), (0, 1)] {
            for dc in [DisplayCalendar::Auto, DisplayCalendar::Always, DisplayCalendar::Critical] {
                let v = PlainYearMonth::new_with_overflow(y, m, None, Calendar::default(), ArithmeticOverflow::Reject).unwrap();
                let text = v.to_ixdtf_string(dc);
                let back = call(|| PlainYearMonth::from_str(&text));
                out.lockstep("PlainYearMonth::from_str(format(v)) = v", &Ok(()), &back, |_, b| *b == v, || vec![("text", text.clone())]);
            }
        }
        for (m, d) in [(2u8, 29u8), (1, 1), (12, 31)] {
            for dc in [DisplayCalendar::Auto, DisplayCalendar::Always, DisplayCalendar::Critical] {
                let v = PlainMonthDay::new_with_overflow(m, d, Calendar::default(), ArithmeticOverflow::Reject, None).unwrap();
                let text = v.to_ixdtf_string(dc);
                let back = call(|| PlainMonthDay::from_str(&text));
                out.lockstep("PlainMonthDay::from_str(format(v)) = v", &Ok(()), &back, |_, b| *b == v, || vec![("text", text.clone())]);
            }
        }
        out.sample(json!({"enums": 10, "month_codes": 25, "calendars": 18}));
    }
}

/// ZonedDateTime in named zones: text against the R7 zone model (offset rounded to the minute,
/// half away from zero), and parse(format(v)) = v with offset and disambiguation both `reject`.
struct ZonedNamed {
    names: Vec<String>,
    tier: Tier,
}
impl Space for ZonedNamed {
    fn name(&self) -> String {
        "c11.zoned_named".into()
    }
    fn len(&self) -> u64 {
        self.names.len() as u64
    }
    fn block(&self) -> u64 {
        1
    }
    fn eval(&self, i: u64, out: &mut Out) {
        let name = &self.names[i as usize];
        let Ok(rz) = crate::checks::c15::load_ref_zone(name) else {
            out.unjudged += 1;
            return;
        };
        out.nontrivial += 1;
        let provider = temporal_rs::tzdb::FsTzdbProvider::default();
        let Some(tz) = crate::imp::zone_of(name) else {
            out.unjudged += 1;
            return;
        };
        const NS: i128 = 1_000_000_000;
        let lo = self.tier.pick(days_from_civil(1880, 1, 1), days_from_civil(1, 1, 1)) as i128 * NS_PER_DAY;
        let hi = days_from_civil(2037, 12, 31) as i128 * NS_PER_DAY;
        let mut probes: Vec<i128> = vec![0, 1_614_834_367_008_009_010, -2_208_988_800 * NS, -3_000_000_000 * NS, 2_000_000_000 * NS + 1];
        let tr: Vec<i128> = rz.zone.trans.iter().map(|x| x.0).filter(|t| *t >= lo && *t <= hi).collect();
        let step = self.tier.pick((tr.len() / 12).max(1), 1);
        for t in tr.iter().step_by(step) {
            probes.extend([*t - 1, *t, *t + 1_800 * NS]);
        }
        // instants that the to-string rounding moves onto (or across) a transition
        let mut rounded_probes: Vec<i128> = vec![1_614_834_367_008_009_010];
        for t in tr.iter().step_by(step) {
            rounded_probes.extend([*t - 1, *t - 400_000_000, *t - 20 * NS, *t + 400_000_000, *t + 20 * NS]);
        }
        for t in rounded_probes {
            let Oc::Ok(z) = call(|| ZonedDateTime::try_new(t, Calendar::default(), tz.clone())) else { continue };
            for (pm, pi, su) in [(Prec::Digits(0), Precision::Digit(0), None), (Prec::Minute, Precision::Auto, Some(Unit::Minute)), (Prec::Digits(3), Precision::Digit(3), None)] {
                for mode in [Mode::Ceil, Mode::HalfExpand, Mode::Floor] {
                    // The specification rounds the instant "as if positive"; for a negative instant on an exact
                    // tie halfExpand read by its name picks the other neighbour (see C07): either reading is
                    // accepted, but the text must be the complete, consistent text of that rounded instant.
                    let r = tmc_ref::r4::round_as_if_positive(t, inc_of(pm).unwrap().ns, mode);
                    let r2 = tmc_ref::r4::round(t, inc_of(pm).unwrap().ns, mode);
                    let text_of = |r: i128| {
                        let o = rz.zone.offset_at(r);
                        let local = r + o as i128 * NS;
                        let (y, m, d) = civil_from_days(local.div_euclid(NS_PER_DAY) as i64);
                        let rounded = tmc_ref::r4::round(o as i128, 60, Mode::HalfExpand) as i64;
                        format!("{}T{}{}[{name}]", date_text(y, m, d), time_text(local.rem_euclid(NS_PER_DAY), pm), offset_text(rounded))
                    };
                    let o = rz.zone.offset_at(r);
                    let want = vec![text_of(r), text_of(r2)];
                    if r != r2 {
                        out.unjudged += 1;
                    }
                    use temporal_rs::provider::TimeZoneProvider;
                    let p_off = [r, r2, t].iter().all(|x| call(|| provider.get_named_tz_offset_nanoseconds(name, *x)).ok().map(|y| y.offset) == Some(rz.zone.offset_at(*x)));
                    let attrs = || vec![("provider_offset", if p_off { "right" } else { "wrong" }.to_string()), ("zone", name.clone()), ("instant", t.to_string()), ("rounded_instant", r.to_string()), ("offset_changes_by_rounding", (rz.zone.offset_at(t) != o).to_string()), ("precision", format!("{pm:?}")), ("mode", format!("{mode:?}")), ("region", if rz.file.trans.first().map(|x| t < x.0 as i128 * NS).unwrap_or(true) { "before_first_transition" } else if t > rz.last_table as i128 * NS { "after_table" } else { "table" }.to_string())];
                    let opts = ToStringRoundingOptions { precision: pi, smallest_unit: su, rounding_mode: Some(imode(mode)) };
                    let got = call(|| z.to_ixdtf_string_with_provider(DisplayOffset::Auto, DisplayTimeZone::Auto, DisplayCalendar::Auto, opts, &provider));
                    out.lockstep("ZonedDateTime::to_ixdtf_string(named zone)", &Ok(want.clone()), &got, |a, b| a.contains(b), attrs);
                    let inst_want: Vec<String> = want.iter().map(|w| w.split('[').next().unwrap_or("").to_string()).collect();
                    let opts_i = ToStringRoundingOptions { precision: pi, smallest_unit: su, rounding_mode: Some(imode(mode)) };
                    let got_i = call(|| Instant::try_new(t)?.to_ixdtf_string_with_provider(Some(&tz), opts_i, &provider));
                    out.lockstep("Instant::to_ixdtf_string(in a named zone, rounded)", &Ok(inst_want), &got_i, |a, b| a.contains(b), attrs);
                }
            }
        }
        for t in probes {
            let o = rz.zone.offset_at(t);
            let local = t + o as i128 * NS;
            let (y, m, d) = civil_from_days(local.div_euclid(NS_PER_DAY) as i64);
            let rounded = tmc_ref::r4::round(o as i128, 60, Mode::HalfExpand) as i64;
            let want = format!("{}T{}{}[{name}]", date_text(y, m, d), time_text(local.rem_euclid(NS_PER_DAY), Prec::Auto), offset_text(rounded));
            // Is the provider itself right about this instant / this wall-clock reading? (C15 judges that;
            // here it only attributes a failed round trip to its cause.)
            use temporal_rs::provider::TimeZoneProvider;
            let p_off = call(|| provider.get_named_tz_offset_nanoseconds(name, t)).ok().map(|x| x.offset) == Some(o);
            let p_cand = match crate::checks::c15::iso_dt(local) {
                Some(dt) => call(|| provider.get_named_tz_epoch_nanoseconds(name, dt)).ok().map(|v| v.iter().map(|e| e.as_i128()).collect::<std::collections::BTreeSet<_>>()) == Some(rz.zone.candidates(local).into_iter().collect()),
                None => false,
            };
            let attrs = || vec![("provider_offset", if p_off { "right" } else { "wrong" }.to_string()), ("provider_candidates", if p_cand { "right" } else { "wrong" }.to_string()), ("zone", name.clone()), ("instant", t.to_string()), ("offset_s", o.to_string()), ("sub_minute_offset", (o % 60 != 0).to_string()), ("region", if rz.file.trans.first().map(|x| t < x.0 as i128 * NS).unwrap_or(true) { "before_first_transition" } else if t > rz.last_table as i128 * NS { "after_table" } else { "table" }.to_string())];
            let Oc::Ok(z) = call(|| ZonedDateTime::try_new(t, Calendar::default(), tz.clone())) else { continue };
            let got = call(|| z.to_ixdtf_string_with_provider(DisplayOffset::Auto, DisplayTimeZone::Auto, DisplayCalendar::Auto, ToStringRoundingOptions::default(), &provider));
            if out.lockstep("ZonedDateTime::to_ixdtf_string(named zone)", &Ok(want.clone()), &got, |a, b| a == b, attrs) {
                let back = call(|| ZonedDateTime::from_str_with_provider(&want, Disambiguation::Reject, OffsetDisambiguation::Reject, &provider));
                // The text carries the offset to the minute only; the specification matches it against the
                // candidates in order (exact, else rounded). Where two candidates round to the same text
                // (a sub-minute fold) the specification itself returns the earlier one.
                use tmc_ref::r6::{Disamb, OffsetInput, OffsetOpt};
                let spec = rz.zone.interpret(local, OffsetInput::Offset { ns: rounded as i128 * NS, minute_precision: true }, Disamb::Reject, OffsetOpt::Reject);
                if spec != Ok(t) {
                    out.unjudged += 1;
                }
                let spec = spec.map_err(|_| temporal_rs::error::ErrorKind::Range);
                out.lockstep("ZonedDateTime::from_str(format(v)) = v (named zone)", &spec, &back, |a, b| b.epoch_nanoseconds().as_i128() == *a && b.timezone().identifier().ok().as_deref() == Some(name.as_str()), attrs);
                // the same text given as a relativeTo string denotes the same zoned value
                let rel = call(|| temporal_rs::options::RelativeTo::try_from_str_with_provider(&want, &provider));
                out.lockstep("RelativeTo::try_from_str(format(v)) = v (named zone)", &spec, &rel, |a, b| matches!(b, temporal_rs::options::RelativeTo::ZonedDateTime(z) if z.epoch_nanoseconds().as_i128() == *a), attrs);
            }
        }
        if out.want_sample() && name == "Africa/Monrovia" {
            out.sample(json!({"zone": name, "note": "sub-minute offsets print rounded to the minute and still parse back to the same instant"}));
        }
    }
}

pub fn spaces(env: &Env) -> Vec<Box<dyn Space>> {
    vec![Box::new(Names { zones: zone_names() }), Box::new(Durations { list: duration_list() }), Box::new(Times { times: times() }), Box::new(InstantsZoned), Box::new(PlainValues { times: times(), tier: env.tier }), Box::new(ZonedNamed { names: zone_names(), tier: env.tier })]
}

pub fn run(env: &Env) -> i32 {
    let mut rep = Report::new(
        env,
        "exploration",
        "value products: years (range ends, -10000/-9999, -1, 0, 999/1000, 9999/10000, 99999/100000) x months x days x calendars x 4 calendar displays for dates; 396 times (every trailing-zero pattern of the fraction) x 12 precisions x rounding modes for times and date-times; all 2879 fixed offsets x 5 instants x display options for instants and zoned values; durations incl. sub-second-only, folded and limit cases x digits x modes; every variant of every option enum, all month codes, all 597 zone names, all calendar identifiers",
    );
    rep.assumptions.push("R8 formatter: canonical text rules (4-digit / signed 6-digit year, minimal or exact fraction, +-HH:MM, zone before calendar annotation, '!' only under critical); rounding in toString per R4 in RoundTime's frame".into());
    for s in spaces(env) {
        rep.run(s.as_ref());
    }
    rep.finish()
}

//! C19 — convenience (compiled-data) and FFI layers return exactly what the core returns.
//! Part A (this file): every compiled-data wrapper vs its *_with_provider twin with a fresh provider.
//! Part B (c19_ffi.rs): every temporal_capi function vs the temporal_rs method it names.

use crate::engine::*;
use crate::imp::*;
use serde_json::json;
use std::collections::BTreeSet;
use temporal_rs::options::{
    ArithmeticOverflow, Disambiguation, DisplayCalendar, DisplayOffset, DisplayTimeZone, OffsetDisambiguation, RelativeTo, ToStringRoundingOptions, Unit,
};
use temporal_rs::parsers::Precision;
use temporal_rs::tzdb::FsTzdbProvider;
use temporal_rs::{Calendar, Duration, Instant, Now, PlainDateTime, PlainTime, TimeZone, ZonedDateTime};

pub const ZONES: [&str; 10] = ["UTC", "+05:30", "-03:30", "America/New_York", "Europe/London", "Australia/Lord_Howe", "Pacific/Apia", "Asia/Kathmandu", "America/Toronto", "America/Sao_Paulo"];
pub const CALS: [&str; 3] = ["iso8601", "gregory", "japanese"];
// every field distinct: ...T..:..:07.008009010-like readings; around DST changes; negative epoch
pub const INSTANTS: [i128; 13] = [
    1_614_834_367_008_009_010, // 2021-03-04T05:06:07.008009010Z
    1_636_263_000_001_002_003, // inside New York's repeated hour 2021-11-07
    1_615_705_200_000_000_000, // New York spring-forward instant
    -86_399_999_998_997_996,
    946_684_799_999_999_999,
    2_500_000_000_123_456_789,
    // days whose midnight is skipped: Toronto 1919-03-31 (23:30 -> 00:30, the gap starts before midnight),
    // Sao Paulo 2018-11-04 (00:00 -> 01:00), Apia 2011-12-31 (the 30th is skipped altogether)
    -1_601_710_000_000_000_000,
    1_541_340_000_000_000_000,
    1_325_325_600_000_000_000,
    // both ends of the instant range and a day inside them (core and wrapper must fail alike there)
    8_640_000_000_000_000_000_000,
    -8_640_000_000_000_000_000_000,
    8_640_000_000_000_000_000_000 - 86_400_000_000_000,
    -8_640_000_000_000_000_000_000 + 86_400_000_000_001,
];

/// Outcome of a call rendered to a comparable string: Debug of the value or the error kind.
pub fn render<T: std::fmt::Debug>(o: Oc<T>) -> Oc<String> {
    match o {
        Oc::Ok(v) => Oc::Ok(format!("{v:?}")),
        Oc::Err(k, _) => Oc::Ok(format!("Err({k:?})")),
        Oc::Panic(m) => Oc::Panic(m),
    }
}

/// Compare a wrapper outcome with the core outcome (both rendered).
pub fn same(out: &mut Out, name: &str, wrapper: Oc<String>, core: Oc<String>, attrs: impl Fn() -> Vec<(&'static str, String)>) {
    match core {
        Oc::Ok(c) => {
            out.lockstep(name, &Ok(c), &wrapper, |a, b| a == b, attrs);
        }
        Oc::Panic(_) | Oc::Err(_, _) => {
            // the core itself panicked: C03's business; the wrapper is not judged on this input
            out.unjudged += 1;
        }
    }
}

macro_rules! pair {
    ($out:expr, $names:expr, $name:expr, $attrs:expr, $w:expr, $c:expr) => {{
        $names.insert($name.to_string());
        let w = render(call(|| $w));
        let c = render(call(|| $c));
        same($out, $name, w, c, $attrs);
    }};
}
pub(crate) use pair;

pub struct Compiled {
    instants: Vec<i128>,
    zones: Vec<String>,
    cals: Vec<&'static str>,
}

impl Compiled {
    /// quick: the hand-picked alphabets above; thorough: every 16th Zone/Link name of tzdata.zi next to them,
    /// 37 more instants (hourly across New York's 2021 changes, Lord Howe's half-hour change, month starts of
    /// 2024 with distinct sub-second fields, 1883 and 2100) and three more calendars.
    pub fn new(tier: Tier) -> Self {
        let mut instants = INSTANTS.to_vec();
        let mut zones: Vec<String> = ZONES.iter().map(|s| s.to_string()).collect();
        let mut cals = CALS.to_vec();
        if tier == Tier::Thorough {
            for k in -4i128..=4 {
                instants.push(1_636_264_800_000_000_000 + k * 3_600_000_000_000 + 7_008_009_010); // 2021-11-07T06:00Z +- 4 h
                instants.push(1_615_705_200_000_000_000 + k * 3_600_000_000_000 + 59_999_999_999); // 2021-03-14T07:00Z +- 4 h
            }
            for k in -2i128..=2 {
                instants.push(1_617_463_800_000_000_000 + k * 1_800_000_000_000 + 1); // Lord Howe 2021-04-03T15:30Z +- 1 h
            }
            for m in 0..12i128 {
                instants.push(1_704_067_200_000_000_000 + m * 2_629_800_000_000_000 + (m + 1) * 1_001_001_001);
            }
            instants.push(-2_717_640_000_000_000_000 + 123); // 1883-11-18, the day of the US railway time change
            instants.push(4_102_444_800_000_000_000 + 999_999_999); // 2100-01-01
            let all = crate::checks::c15::zone_names();
            for (k, z) in all.iter().enumerate() {
                if k % 16 == 5 && !zones.contains(z) && TimeZone::try_from_str(z).is_ok() {
                    zones.push(z.clone());
                }
            }
            cals.extend(["hebrew", "islamic-civil", "ethiopic"]);
        }
        Compiled { instants, zones, cals }
    }
}

impl Space for Compiled {
    fn name(&self) -> String {
        "c19.compiled_wrappers".into()
    }
    fn len(&self) -> u64 {
        (self.instants.len() * self.zones.len() * self.cals.len()) as u64
    }
    fn block(&self) -> u64 {
        1
    }
    fn eval(&self, i: u64, out: &mut Out) {
        let ix = unrank(i, &[self.instants.len() as u64, self.zones.len() as u64, self.cals.len() as u64]);
        let (t, zone, cal) = (self.instants[ix[0]], self.zones[ix[1]].as_str(), self.cals[ix[2]]);
        let Some(tz) = crate::imp::zone_of(zone) else {
            out.unjudged += 1;
            return;
        };
        let calendar: Calendar = cal.parse().expect("calendar");
        let z = ZonedDateTime::try_new(t, calendar.clone(), tz.clone()).expect("zdt");
        let z2 = ZonedDateTime::try_new(self.instants[(ix[0] + 1) % self.instants.len()], calendar.clone(), tz.clone()).expect("zdt");
        let p = FsTzdbProvider::default();
        let attrs = || vec![("instant", t.to_string()), ("zone", zone.to_string()), ("calendar", cal.to_string())];
        let mut names: BTreeSet<String> = BTreeSet::new();
        out.nontrivial += 1;
        let n = &mut names;
        pair!(out, n, "ZonedDateTime::year", attrs, z.year(), z.year_with_provider(&p));
        pair!(out, n, "ZonedDateTime::month", attrs, z.month(), z.month_with_provider(&p));
        pair!(out, n, "ZonedDateTime::month_code", attrs, z.month_code(), z.month_code_with_provider(&p));
        pair!(out, n, "ZonedDateTime::day", attrs, z.day(), z.day_with_provider(&p));
        pair!(out, n, "ZonedDateTime::hour", attrs, z.hour(), z.hour_with_provider(&p));
        pair!(out, n, "ZonedDateTime::minute", attrs, z.minute(), z.minute_with_provider(&p));
        pair!(out, n, "ZonedDateTime::second", attrs, z.second(), z.second_with_provider(&p));
        pair!(out, n, "ZonedDateTime::millisecond", attrs, z.millisecond(), z.millisecond_with_provider(&p));
        pair!(out, n, "ZonedDateTime::microsecond", attrs, z.microsecond(), z.microsecond_with_provider(&p));
        pair!(out, n, "ZonedDateTime::nanosecond", attrs, z.nanosecond(), z.nanosecond_with_provider(&p));
        pair!(out, n, "ZonedDateTime::offset", attrs, z.offset(), z.offset_with_provider(&p));
        pair!(out, n, "ZonedDateTime::offset_nanoseconds", attrs, z.offset_nanoseconds(), z.offset_nanoseconds_with_provider(&p));
        pair!(out, n, "ZonedDateTime::era", attrs, z.era(), z.era_with_provider(&p));
        pair!(out, n, "ZonedDateTime::era_year", attrs, z.era_year(), z.era_year_with_provider(&p));
        pair!(out, n, "ZonedDateTime::day_of_week", attrs, z.day_of_week(), z.day_of_week_with_provider(&p));
        pair!(out, n, "ZonedDateTime::day_of_year", attrs, z.day_of_year(), z.day_of_year_with_provider(&p));
        pair!(out, n, "ZonedDateTime::week_of_year", attrs, z.week_of_year(), z.week_of_year_with_provider(&p));
        pair!(out, n, "ZonedDateTime::year_of_week", attrs, z.year_of_week(), z.year_of_week_with_provider(&p));
        pair!(out, n, "ZonedDateTime::days_in_week", attrs, z.days_in_week(), z.days_in_week_with_provider(&p));
        pair!(out, n, "ZonedDateTime::days_in_month", attrs, z.days_in_month(), z.days_in_month_with_provider(&p));
        pair!(out, n, "ZonedDateTime::days_in_year", attrs, z.days_in_year(), z.days_in_year_with_provider(&p));
        pair!(out, n, "ZonedDateTime::months_in_year", attrs, z.months_in_year(), z.months_in_year_with_provider(&p));
        pair!(out, n, "ZonedDateTime::in_leap_year", attrs, z.in_leap_year(), z.in_leap_year_with_provider(&p));
        pair!(out, n, "ZonedDateTime::hours_in_day", attrs, z.hours_in_day(), z.hours_in_day_with_provider(&p));
        for dir in [temporal_rs::provider::TransitionDirection::Next, temporal_rs::provider::TransitionDirection::Previous] {
            pair!(out, n, "ZonedDateTime::get_time_zone_transition", attrs, z.get_time_zone_transition(dir), z.get_time_zone_transition_with_provider(dir, &p));
        }
        pair!(out, n, "ZonedDateTime::start_of_day", attrs, z.start_of_day(), z.start_of_day_with_provider(&p));
        pair!(out, n, "ZonedDateTime::to_plain_date", attrs, z.to_plain_date(), z.to_plain_date_with_provider(&p));
        pair!(out, n, "ZonedDateTime::to_plain_time", attrs, z.to_plain_time(), z.to_plain_time_with_provider(&p));
        pair!(out, n, "ZonedDateTime::to_plain_datetime", attrs, z.to_plain_datetime(), z.to_plain_datetime_with_provider(&p));
        for time in [PlainTime::try_new(1, 2, 3, 4, 5, 6).unwrap(), PlainTime::try_new(2, 30, 0, 0, 0, 0).unwrap()] {
            pair!(out, n, "ZonedDateTime::with_plain_time", attrs, z.with_plain_time(time), z.with_plain_time_and_provider(time, &p));
        }
        let durs = [dur10([1., 2., 3., 4., 5., 6., 7., 8., 9., 10.]).unwrap(), dur10([0., 0., 0., 0., -25., 0., 0., 0., 0., -1.]).unwrap(), dur10([0., 1., 0., 0., 0., 0., 0., 0., 0., 0.]).unwrap(), dur10([0., 0., 0., 1., 0., 0., 0., 0., 0., 0.]).unwrap(), dur10([0., 0., 0., -2., -3., 0., 0., 0., 0., 0.]).unwrap()];
        for d in &durs {
            for ov in [None, Some(ArithmeticOverflow::Constrain), Some(ArithmeticOverflow::Reject)] {
                pair!(out, n, "ZonedDateTime::add", attrs, z.add(d, ov), z.add_with_provider(d, ov, &p));
                pair!(out, n, "ZonedDateTime::subtract", attrs, z.subtract(d, ov), z.subtract_with_provider(d, ov, &p));
            }
        }
        for st in [diff(None, None, None, None), diff(Some(Unit::Year), Some(Unit::Hour), Some(temporal_rs::options::RoundingMode::HalfEven), Some(2)), diff(Some(Unit::Hour), None, None, None), diff(Some(Unit::Second), Some(Unit::Hour), None, None)] {
            pair!(out, n, "ZonedDateTime::until", attrs, z.until(&z2, st), z.until_with_provider(&z2, st, &p));
            pair!(out, n, "ZonedDateTime::since", attrs, z.since(&z2, st), z.since_with_provider(&z2, st, &p));
            // ... and on equal operands (the options are validated all the same: the last settings are invalid)
            let same = z.clone();
            pair!(out, n, "ZonedDateTime::until(equal operands)", attrs, z.until(&same, st), z.until_with_provider(&same, st, &p));
            pair!(out, n, "ZonedDateTime::since(equal operands)", attrs, z.since(&same, st), z.since_with_provider(&same, st, &p));
        }
        // directional and half modes with a granularity that really rounds (since mirrors the mode, until does not)
        for mode in [temporal_rs::options::RoundingMode::Ceil, temporal_rs::options::RoundingMode::Floor, temporal_rs::options::RoundingMode::HalfCeil, temporal_rs::options::RoundingMode::HalfFloor, temporal_rs::options::RoundingMode::Expand] {
            for st in [diff(Some(Unit::Hour), Some(Unit::Hour), Some(mode), None), diff(None, Some(Unit::Minute), Some(mode), Some(15)), diff(Some(Unit::Month), Some(Unit::Day), Some(mode), Some(2))] {
                pair!(out, n, "ZonedDateTime::until", attrs, z.until(&z2, st), z.until_with_provider(&z2, st, &p));
                pair!(out, n, "ZonedDateTime::since", attrs, z.since(&z2, st), z.since_with_provider(&z2, st, &p));
            }
        }
        for st in [diff(Some(Unit::Hour), Some(Unit::Hour), None, Some(7)), diff(None, Some(Unit::Minute), None, Some(60)), diff(Some(Unit::Minute), Some(Unit::Day), None, None)] {
            let same = z.clone();
            pair!(out, n, "ZonedDateTime::until(equal operands)", attrs, z.until(&same, st), z.until_with_provider(&same, st, &p));
            pair!(out, n, "ZonedDateTime::since(equal operands)", attrs, z.since(&same, st), z.since_with_provider(&same, st, &p));
            pair!(out, n, "ZonedDateTime::until", attrs, z.until(&z2, st), z.until_with_provider(&z2, st, &p));
        }
        for (doff, dtz, dcal) in [(DisplayOffset::Auto, DisplayTimeZone::Auto, DisplayCalendar::Auto), (DisplayOffset::Never, DisplayTimeZone::Critical, DisplayCalendar::Always), (DisplayOffset::Auto, DisplayTimeZone::Never, DisplayCalendar::Critical)] {
            for prec in [Precision::Auto, Precision::Digit(3), Precision::Digit(0)] {
                let o = || ToStringRoundingOptions { precision: prec, smallest_unit: None, rounding_mode: None };
                pair!(out, n, "ZonedDateTime::to_ixdtf_string", attrs, z.to_ixdtf_string(doff, dtz, dcal, o()), z.to_ixdtf_string_with_provider(doff, dtz, dcal, o(), &p));
            }
        }
        // Display goes through the wrapper with default options
        {
            n.insert("ZonedDateTime::fmt".into());
            let w = render(call_inf(|| z.to_string()).map(Ok::<String, ()>));
            let c = render(call(|| z.to_string_with_provider(&p)).map(Ok::<String, ()>));
            same(out, "ZonedDateTime::fmt (Display)", w, c, attrs);
        }
        // strings
        let text = z.to_string_with_provider(&p).ok();
        if let Some(text) = &text {
            for dis in [Disambiguation::Compatible, Disambiguation::Reject] {
                for oo in [OffsetDisambiguation::Reject, OffsetDisambiguation::Ignore, OffsetDisambiguation::Use] {
                    pair!(out, n, "ZonedDateTime::from_str", attrs, ZonedDateTime::from_str(text, dis, oo), ZonedDateTime::from_str_with_provider(text, dis, oo, &p));
                }
            }
            pair!(out, n, "RelativeTo::try_from_str", attrs, RelativeTo::try_from_str(text).map(|r| format!("{r:?}")), RelativeTo::try_from_str_with_provider(text, &p).map(|r| format!("{r:?}")));
        }
        for bad in ["2021-03-04T05:06:07[Not/AZone]", "garbage", "2021-03-04"] {
            pair!(out, n, "ZonedDateTime::from_str", attrs, ZonedDateTime::from_str(bad, Disambiguation::Compatible, OffsetDisambiguation::Reject), ZonedDateTime::from_str_with_provider(bad, Disambiguation::Compatible, OffsetDisambiguation::Reject, &p));
            pair!(out, n, "RelativeTo::try_from_str", attrs, RelativeTo::try_from_str(bad).map(|r| format!("{r:?}")), RelativeTo::try_from_str_with_provider(bad, &p).map(|r| format!("{r:?}")));
        }
        // Instant / PlainDateTime wrappers
        let inst = Instant::try_new(t).unwrap();
        for tzo in [None, Some(&tz)] {
            for prec in [Precision::Auto, Precision::Minute, Precision::Digit(6)] {
                let o = || ToStringRoundingOptions { precision: if prec == Precision::Minute { Precision::Auto } else { prec }, smallest_unit: if prec == Precision::Minute { Some(Unit::Minute) } else { None }, rounding_mode: Some(temporal_rs::options::RoundingMode::Ceil) };
                pair!(out, n, "Instant::to_ixdtf_string", attrs, inst.to_ixdtf_string(tzo, o()), inst.to_ixdtf_string_with_provider(tzo, o(), &p));
            }
        }
        if let Ok(pdt) = z.to_plain_datetime_with_provider(&p) {
            let pdt: PlainDateTime = pdt;
            for dis in [Disambiguation::Compatible, Disambiguation::Earlier, Disambiguation::Later, Disambiguation::Reject] {
                pair!(out, n, "PlainDateTime::to_zoned_date_time", attrs, pdt.to_zoned_date_time(&tz, dis), pdt.to_zoned_date_time_with_provider(&tz, dis, &p));
            }
        }
        // Duration wrappers with plain / zoned / no relativeTo
        let rels: Vec<Option<RelativeTo>> = vec![None, Some(RelativeTo::ZonedDateTime(z.clone())), z.to_plain_date_with_provider(&p).ok().map(RelativeTo::PlainDate)];
        for d in &durs {
            for rel in &rels {
                for (l, s) in [(Some(Unit::Year), Some(Unit::Day)), (None, Some(Unit::Hour)), (Some(Unit::Hour), None)] {
                    pair!(out, n, "Duration::round", attrs, d.round(round_opts(l, s, None, None), rel.clone()), d.round_with_provider(round_opts(l, s, None, None), rel.clone(), &p));
                }
                for u in [Unit::Day, Unit::Hour, Unit::Month, Unit::Nanosecond] {
                    pair!(out, n, "Duration::total", attrs, d.total(u, rel.clone()), d.total_with_provider(u, rel.clone(), &p));
                }
                pair!(out, n, "Duration::compare", attrs, d.compare(&durs[0], rel.clone()), d.compare_with_provider(&durs[0], rel.clone(), &p));
            }
        }
        // Now::* read the clock themselves: sandwiched between two core readings
        if ix[0] == 0 && ix[2] == 0 || i == 0 {
            let mut now_zones = vec![None, Some(tz.clone())];
            if ix[0] == 0 && ix[2] == 0 {
                // fixed offsets of both signs with a minute part (the wrappers may treat them apart from named zones)
                for o in ["-03:30", "+05:45", "-00:30", "-11:59", "+14:00"] {
                    now_zones.push(Some(TimeZone::try_from_str(o).expect("offset zone")));
                }
                // fixed offsets chosen from the clock so that local time is 00:00..00:14 (either sign), where the
                // date depends on the last minutes of the reading (the sandwich absorbs a rollover in between)
                let minute = (std::time::SystemTime::now().duration_since(std::time::UNIX_EPOCH).unwrap().as_secs() / 60 % 1440) as i64;
                for k in [0i64, 1, 7, 14] {
                    let off = (minute - k).rem_euclid(1440);
                    now_zones.push(Some(TimeZone::try_from_str(&format!("-{:02}:{:02}", off / 60, off % 60)).expect("offset zone")));
                    if off >= 1 {
                        let pos = 1440 - off;
                        now_zones.push(Some(TimeZone::try_from_str(&format!("+{:02}:{:02}", pos / 60, pos % 60)).expect("offset zone")));
                    }
                }
            }
            for tzn in now_zones {
                for which in 0..3 {
                    let name = ["Now::plain_datetime_iso", "Now::plain_date_iso", "Now::plain_time_iso"][which];
                    n.insert(name.to_string());
                    if tzn.is_none() && Now::time_zone_identifier().is_err() {
                        out.unjudged += 1; // no system time zone in this environment
                        continue;
                    }
                    let before = std::time::SystemTime::now();
                    let got_dt = call(|| Now::plain_datetime_iso(tzn.clone()));
                    let got_d = call(|| Now::plain_date_iso(tzn.clone()));
                    let got_t = call(|| Now::plain_time_iso(tzn.clone()));
                    let after = std::time::SystemTime::now();
                    let ns = |t: std::time::SystemTime| t.duration_since(std::time::UNIX_EPOCH).unwrap().as_nanos() as i128;
                    let sys_tz = tzn.clone().unwrap_or_else(|| TimeZone::IanaIdentifier(Now::time_zone_identifier().unwrap_or_else(|_| "UTC".into())));
                    let core_at = |t: i128| -> Option<PlainDateTime> { ZonedDateTime::try_new(t, Calendar::default(), sys_tz.clone()).ok()?.to_plain_datetime_with_provider(&p).ok() };
                    // clock resolution: widen the sandwich by 1 ms on both sides
                    let (lo, hi) = (core_at(ns(before) - 1_000_000), core_at(ns(after) + 1_000_000));
                    let got = format!("{:?}", (&got_dt, &got_d, &got_t));
                    let ok = match (lo, hi) {
                        (Some(lo), Some(hi)) => match which {
                            0 => matches!(&got_dt, Oc::Ok(x) if lo.compare_iso(x).is_le() && x.compare_iso(&hi).is_le()),
                            1 => matches!(&got_d, Oc::Ok(x) if x.compare_iso(&temporal_rs::PlainDate::from(lo.clone())).is_ge() && x.compare_iso(&temporal_rs::PlainDate::from(hi.clone())).is_le()),
                            _ => matches!(&got_t, Oc::Ok(x) if {
                                let (a, b) = (PlainTime::from(lo.clone()), PlainTime::from(hi.clone()));
                                if a <= b { a <= *x && *x <= b } else { *x >= a || *x <= b }
                            }),
                        },
                        _ => false,
                    };
                    out.law(name, ok, || vec![("timezone", format!("{tzn:?}")), ("got", format!("{got:?}"))]);
                }
            }
        }
        out.count("wrapper_names_paired", names.len() as u64);
        if i == 0 {
            // completeness guard: every `pub fn` of the compiled sources must be in the pairing table
            let mut src = BTreeSet::new();
            for f in ["duration.rs", "instant.rs", "now.rs", "plain_date_time.rs", "zoneddatetime.rs", "mod.rs"] {
                if let Ok(text) = std::fs::read_to_string(format!("/repo/src/builtins/compiled/{f}")) {
                    let text = text.split("#[cfg(test)]").next().unwrap_or("").split("\nmod tests {").next().unwrap_or("").to_string();
                    for line in text.lines() {
                        if let Some(rest) = line.trim().strip_prefix("pub fn ") {
                            let name: String = rest.chars().take_while(|c| c.is_alphanumeric() || *c == '_').collect();
                            src.insert(name);
                        }
                    }
                }
            }
            let paired: BTreeSet<String> = names.iter().map(|x| x.rsplit("::").next().unwrap().to_string()).collect();
            let unpaired: Vec<&String> = src.iter().filter(|x| !paired.contains(*x)).collect();
            out.count("compiled_pub_fns_in_source", src.len() as u64);
            out.count("compiled_pub_fns_unpaired", unpaired.len() as u64);
            if !unpaired.is_empty() {
                eprintln!("[C19] coverage gap: compiled wrappers without a pairing: {unpaired:?}");
            }
        }
        if out.want_sample() {
            out.sample(json!({"instant_ns": t.to_string(), "zone": zone, "calendar": cal, "wrappers_compared": names.len()}));
        }
    }
    fn describe(&self) -> serde_json::Value {
        json!({"instants": self.instants.len(), "zones": self.zones.len(), "zone_names": self.zones, "calendars": self.cals})
    }
}

pub fn spaces(env: &Env) -> Vec<Box<dyn Space>> {
    let mut v: Vec<Box<dyn Space>> = vec![Box::new(Compiled::new(env.tier))];
    v.extend(crate::checks::c19_ffi::spaces(env.tier));
    v
}

pub fn run(env: &Env) -> i32 {
    let mut rep = Report::new(
        env,
        "exploration",
        "pairwise differential over programs: every compiled-data wrapper is called next to its *_with_provider twin (fresh FsTzdbProvider) and every temporal_capi function next to the temporal_rs method it names, on receivers with pairwise distinct field values x zones x calendars x small argument alphabets; results compared through complete snapshots (all getters), errors by kind",
    );
    rep.assumptions.push("the core methods are the reference (their own correctness is C01-C18's subject); inputs on which the core itself panics are not judged here; Now::* are sandwiched between two core readings of the clock".into());
    rep.run(&Compiled::new(env.tier));
    for s in crate::checks::c19_ffi::spaces(env.tier) {
        rep.run(s.as_ref());
    }
    rep.extra.insert("exhaustive".into(), json!(true));
    rep.extra.insert("exhaustive_scope".into(), json!("programs: every wrapper and FFI function found in the sources is paired (see counters *_unpaired); inputs are a bounded alphabet"));
    rep.finish()
}

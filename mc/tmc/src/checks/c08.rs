//! C08 — Duration round / total / compare relative to a plain date = add-then-remeasure; the same
//! machinery reached through until/since of PlainDate / PlainDateTime with a calendar smallestUnit.

use crate::conv::*;
use crate::engine::*;
use crate::imp::*;
use crate::providers::ErrProvider;
use serde_json::json;
use std::cmp::Ordering;
use temporal_rs::error::ErrorKind;
use temporal_rs::options::RelativeTo;
use temporal_rs::{Duration, PlainDate};
use tmc_ref::r2::{add_date_time, DateDur, Dt, Overflow, Ymd, NS_PER_DAY};
use tmc_ref::r4::{Mode, ALL_MODES};
use tmc_ref::r5::{close_to_rational, DErr, Fields};
use tmc_ref::r5r;

const REL_DATES: [(i64, u8, u8); 12] = [(2019, 1, 1), (2020, 1, 31), (2020, 2, 29), (2019, 12, 31), (2020, 3, 31), (2021, 2, 28), (2000, 3, 1), (1972, 1, 1), (2023, 8, 15), (0, 1, 1), (-271_821, 4, 20), (275_760, 9, 13)];

fn tunit(ix: usize) -> temporal_rs::options::Unit {
    ALL_UNITS[ix]
}

fn durations(tier: Tier) -> Vec<[i64; 10]> {
    let (ys, ms, ws, ds, hs, ns): (&[i64], &[i64], &[i64], &[i64], &[i64], &[i64]) = match tier {
        Tier::Quick => (&[0, 1], &[0, 1, 11, 13], &[0, 3], &[0, 20, 40], &[0, 36], &[0, 1]),
        _ => (&[0, 1, 2], &[0, 1, 11, 12, 13], &[0, 1, 3], &[0, 1, 20, 31, 40], &[0, 12, 36], &[0, 1]),
    };
    let mut v = vec![];
    for y in ys {
        for m in ms {
            for w in ws {
                for d in ds {
                    for h in hs {
                        for n in ns {
                            let f = [*y, *m, *w, *d, *h, 0, 0, 0, 0, *n];
                            v.push(f);
                            if f.iter().any(|x| *x != 0) {
                                v.push(f.map(|x| -x));
                            }
                        }
                    }
                }
            }
        }
    }
    // shapes outside the product: month ends, exact unit fills, half-way points, large values
    for f in [
        [0, 0, 0, 0, 0, 0, 0, 0, 0, 1],
        [0, 0, 0, 0, 23, 59, 59, 999, 999, 999],
        [0, 0, 0, 0, 24, 0, 0, 0, 0, 0],
        [0, 0, 0, 365, 0, 0, 0, 0, 0, 0],
        [0, 0, 0, 366, 0, 0, 0, 0, 0, 0],
        [0, 0, 52, 1, 0, 0, 0, 0, 0, 0],
        [0, 6, 0, 0, 0, 0, 0, 0, 0, 0],
        [0, 0, 0, 15, 12, 0, 0, 0, 0, 0],
        [0, 0, 0, 14, 12, 0, 0, 0, 0, 0],
        [0, 1, 0, 30, 13, 0, 0, 0, 0, 0],
        [0, 11, 0, 20, 0, 0, 0, 0, 0, 0],
        [1, 11, 4, 2, 23, 30, 0, 0, 0, 0],
        [100, 0, 0, 0, 0, 0, 0, 0, 0, 0],
        [0, 1200, 0, 0, 0, 0, 0, 0, 0, 0],
        [0, 0, 0, 36_525, 0, 0, 0, 0, 0, 0],
        [0, 0, 0, 0, 0, 0, 86_400 * 400, 0, 0, 0],
        [300_000, 0, 0, 0, 0, 0, 0, 0, 0, 0],
        [0, 0, 0, 0, 0, 90, 0, 0, 0, 0],
        // unbalanced time fields under a larger unit (each field at or above its carry threshold, the others in range)
        [0, 0, 0, 3, 4, 0, 0, 0, 0, 123_456],
        [0, 0, 0, 0, 0, 0, 12, 250, 0, 48_211],
        [0, 0, 0, 1, 0, 0, 0, 0, 0, 1000],
        [0, 0, 0, 1, 0, 0, 0, 0, 999, 1000],
        [0, 0, 0, 1, 0, 0, 0, 0, 1000, 0],
        [0, 0, 0, 1, 0, 0, 0, 1000, 0, 0],
        [0, 0, 0, 1, 0, 0, 60, 0, 0, 0],
        [0, 0, 0, 1, 0, 60, 0, 0, 0, 0],
        [0, 0, 0, 0, 1, 0, 0, 0, 0, 5000],
        [0, 0, 0, 2, 0, 59, 59, 999, 999, 1999],
        [0, 0, 0, 0, 0, 1, 0, 0, 2500, 0],
    ] {
        v.push(f);
        v.push(f.map(|x: i64| -x));
    }
    v
}

/// (largest, smallest, increment) cells valid for Duration.round with a relativeTo
fn option_cells() -> Vec<(usize, usize, i64)> {
    let mut v = vec![];
    for largest in 0..10 {
        for smallest in largest..10 {
            let incs: &[i64] = match smallest {
                0..=3 => {
                    if largest == smallest {
                        &[1, 2, 3, 5]
                    } else {
                        &[1]
                    }
                }
                4 => &[1, 2, 12],
                5 | 6 => &[1, 15, 30],
                _ => &[1, 500],
            };
            for i in incs {
                v.push((largest, smallest, *i));
            }
        }
    }
    v
}

fn to_fields(f: &[i64; 10]) -> Fields {
    f.map(|x| x as f64)
}

fn err_of(e: DErr) -> ErrorKind {
    match e {
        DErr::Range => ErrorKind::Range,
        DErr::SpecAssert => ErrorKind::Assert,
    }
}

struct RoundRelative {
    durs: Vec<[i64; 10]>,
    dates: Vec<(i64, u8, u8)>,
    cells: Vec<(usize, usize, i64)>,
}

impl Space for RoundRelative {
    fn name(&self) -> String {
        "c08.round_relative".into()
    }
    fn len(&self) -> u64 {
        (self.durs.len() * self.dates.len()) as u64
    }
    fn block(&self) -> u64 {
        8
    }
    fn eval(&self, i: u64, out: &mut Out) {
        let f = self.durs[i as usize % self.durs.len()];
        let (y, m, d) = self.dates[i as usize / self.durs.len()];
        let rel = Ymd::new(y, m, d);
        let Ok(dur) = dur10(to_fields(&f)) else { return };
        let Oc::Ok(pdate) = call(|| pd(y, m, d)) else { return };
        let ff = to_fields(&f);
        for (largest, smallest, inc) in &self.cells {
            for mode in ALL_MODES {
                let model = match std::panic::catch_unwind(|| r5r::round_relative(&ff, rel, *largest, *inc, *smallest, mode)) {
                    Ok(m) => m,
                    Err(_) => panic!("reference model failed on duration={f:?} rel={rel:?} largest={largest} inc={inc} smallest={smallest} mode={mode:?}"),
                };
                let attrs = || {
                    vec![
                        ("duration", format!("{f:?}")),
                        ("relative_to", format!("{y}-{m}-{d}")),
                        ("largest", unit_label(*largest).to_string()),
                        ("smallest", unit_label(*smallest).to_string()),
                        ("smallest_group", if *smallest <= 2 { "calendar" } else if *smallest == 3 { "day" } else { "time" }.to_string()),
                        ("increment", inc.to_string()),
                        ("mode", mode.name().to_string()),
                        ("sign", if f.iter().any(|x| *x < 0) { "negative" } else { "nonnegative" }.to_string()),
                        ("shape", shape(&f)),
                        ("model", format!("{model:?}")),
                    ]
                };
                let got = call(|| dur.round_with_provider(round_opts(Some(tunit(*largest)), Some(tunit(*smallest)), Some(imode(mode)), Some(*inc as u32)), Some(RelativeTo::PlainDate(pdate.clone())), &ErrProvider));
                match &model {
                    Ok(fields) if fields.iter().any(|x| x.abs() >= 1i128 << 53) => {
                        out.unjudged += 1;
                    }
                    Ok(fields) => {
                        // the reference must carry (bubble) or cross a month boundary for the case to count as non-trivial
                        if *smallest <= 3 && fields[..3] != f.map(|x| x as i128)[..3] {
                            out.nontrivial += 1;
                        }
                        out.lockstep("Duration::round(relativeTo plain date)", &Ok(*fields), &got, |a, b| dur_i128(b) == *a, attrs);
                        // law (definition): with no rounding, start + result = start + duration
                        if *smallest == 9 && *inc == 1 {
                            if let (Ok((origin, target)), Oc::Ok(r)) = (r5r::target_of(&ff, rel), &got) {
                                let g = dur_i128(r);
                                let date = DateDur { years: g[0] as i64, months: g[1] as i64, weeks: g[2] as i64, days: g[3] as i64 };
                                let time = g[4] * 3_600_000_000_000 + g[5] * 60_000_000_000 + g[6] * 1_000_000_000 + g[7] * 1_000_000 + g[8] * 1_000 + g[9];
                                let back = add_date_time(origin, date, time, Overflow::Constrain);
                                out.law("start + round(d, no rounding) = start + d", back == Ok(target), attrs);
                            }
                        }
                    }
                    Err(DErr::SpecAssert) => {
                        out.unjudged += 1;
                        if got.is_panic() {
                            out.lockstep("Duration::round(relativeTo plain date)", &Ok([0i128; 10]), &got, |_, _| true, attrs);
                        }
                    }
                    Err(_) if no_op_shortcut(&f, *largest, *smallest, *inc) && matches!(&got, Oc::Ok(d) if dur_i128(d) == f.map(|x| x as i128)) => {
                        // no rounding, no re-balancing: the result is the duration itself and lies in range; only
                        // the intermediate date is out of range (the earlier specification text returned the duration here)
                        out.unjudged += 1;
                    }
                    Err(e) => {
                        out.lockstep("Duration::round(relativeTo plain date)", &Err::<[i128; 10], _>(err_of(*e)), &got, |_, _| false, attrs);
                    }
                }
            }
        }
        if out.want_sample() && f == [0, 11, 0, 20, 0, 0, 0, 0, 0, 0] && (y, m, d) == (2019, 1, 1) {
            out.sample(json!({"duration": "P11M20D", "relativeTo": "2019-01-01", "largest": "year", "smallest": "month", "mode": "ceil", "model": format!("{:?}", r5r::round_relative(&ff, rel, 0, 1, 1, Mode::Ceil))}));
        }
    }
    fn describe(&self) -> serde_json::Value {
        json!({"durations": self.durs.len(), "relative_dates": self.dates.iter().map(|d| format!("{}-{}-{}", d.0, d.1, d.2)).collect::<Vec<_>>(), "option_cells": self.cells.len(), "modes": 9})
    }
}

/// smallestUnit nanosecond, increment 1, largestUnit = the duration's own largest unit, no calendar
/// units, every time field below its carry limit: rounding changes nothing.
fn no_op_shortcut(f: &[i64; 10], largest: usize, smallest: usize, inc: i64) -> bool {
    let own_largest = f.iter().position(|x| *x != 0).unwrap_or(9);
    smallest == 9 && inc == 1 && largest == own_largest && f[..3] == [0, 0, 0] && f[4].abs() < 24 && f[5].abs() < 60 && f[6].abs() < 60 && f[7].abs() < 1000 && f[8].abs() < 1000 && f[9].abs() < 1000
}

fn unit_label(ix: usize) -> &'static str {
    ["year", "month", "week", "day", "hour", "minute", "second", "millisecond", "microsecond", "nanosecond"][ix]
}

fn shape(f: &[i64; 10]) -> String {
    let names = ["y", "mo", "w", "d", "h", "mi", "s", "ms", "us", "ns"];
    let s: Vec<&str> = (0..10).filter(|k| f[*k] != 0).map(|k| names[k]).collect();
    if s.is_empty() {
        "zero".into()
    } else {
        s.join("+")
    }
}

struct TotalRelative {
    durs: Vec<[i64; 10]>,
    dates: Vec<(i64, u8, u8)>,
}

impl Space for TotalRelative {
    fn name(&self) -> String {
        "c08.total_relative".into()
    }
    fn len(&self) -> u64 {
        (self.durs.len() * self.dates.len()) as u64
    }
    fn block(&self) -> u64 {
        32
    }
    fn eval(&self, i: u64, out: &mut Out) {
        let f = self.durs[i as usize % self.durs.len()];
        let (y, m, d) = self.dates[i as usize / self.durs.len()];
        let rel = Ymd::new(y, m, d);
        let Ok(dur) = dur10(to_fields(&f)) else { return };
        let Oc::Ok(pdate) = call(|| pd(y, m, d)) else { return };
        let ff = to_fields(&f);
        for unit in 0..10 {
            let model = r5r::total_relative(&ff, rel, unit);
            let attrs = || vec![("duration", format!("{f:?}")), ("relative_to", format!("{y}-{m}-{d}")), ("unit", unit_label(unit).to_string()), ("shape", shape(&f)), ("sign", if f.iter().any(|x| *x < 0) { "negative" } else { "nonnegative" }.to_string()), ("model", format!("{model:?}"))];
            let got = call(|| dur.total_with_provider(tunit(unit), Some(RelativeTo::PlainDate(pdate.clone())), &ErrProvider));
            match &model {
                Ok((num, den)) => {
                    if unit <= 2 && num % den != 0 {
                        out.nontrivial += 1;
                    }
                    out.lockstep("Duration::total(relativeTo plain date)", &Ok((*num, *den)), &got, |a, b| close_to_rational(b.as_inner(), a.0, a.1), attrs);
                    // the same duration reached through negated() / abs(): the measurement does not depend on the route
                    if f.iter().any(|x| *x != 0) {
                        let negative = f.iter().any(|x| *x < 0);
                        let via = call(|| {
                            let opposite = dur10(to_fields(&f.map(|x| -x)))?;
                            let same = if negative { opposite.negated() } else { opposite.abs() };
                            same.total_with_provider(tunit(unit), Some(RelativeTo::PlainDate(pdate.clone())), &ErrProvider)
                        });
                        out.lockstep("Duration::total of a duration obtained through negated() / abs()", &Ok((*num, *den)), &via, |a, b| close_to_rational(b.as_inner(), a.0, a.1), attrs);
                    }
                }
                Err(DErr::SpecAssert) => {
                    out.unjudged += 1;
                }
                Err(e) => {
                    out.lockstep("Duration::total(relativeTo plain date)", &Err::<(i128, i128), _>(err_of(*e)), &got, |_, _| false, attrs);
                }
            }
        }
        if out.want_sample() && f == [0, 1, 0, 20, 0, 0, 0, 0, 0, 0] {
            out.sample(json!({"duration": "P1M20D", "relativeTo": format!("{y}-{m}-{d}"), "total_months_exact": format!("{:?}", r5r::total_relative(&ff, rel, 1))}));
        }
    }
}

struct CompareRelative {
    durs: Vec<[i64; 10]>,
    dates: Vec<(i64, u8, u8)>,
}

impl Space for CompareRelative {
    fn name(&self) -> String {
        "c08.compare_relative".into()
    }
    fn len(&self) -> u64 {
        (self.durs.len() * self.dates.len()) as u64
    }
    fn block(&self) -> u64 {
        4
    }
    fn eval(&self, i: u64, out: &mut Out) {
        let fa = self.durs[i as usize % self.durs.len()];
        let (y, m, d) = self.dates[i as usize / self.durs.len()];
        let rel = Ymd::new(y, m, d);
        let Ok(a) = dur10(to_fields(&fa)) else { return };
        let Oc::Ok(pdate) = call(|| pd(y, m, d)) else { return };
        for fb in &self.durs {
            let Ok(b) = dur10(to_fields(fb)) else { continue };
            let model = r5r::compare_relative(&to_fields(&fa), &to_fields(fb), Some(rel));
            let attrs = || vec![("a", format!("{fa:?}")), ("b", format!("{fb:?}")), ("relative_to", format!("{y}-{m}-{d}")), ("shapes", format!("{} vs {}", shape(&fa), shape(fb))), ("model", format!("{model:?}"))];
            let got = call(|| a.compare_with_provider(&b, Some(RelativeTo::PlainDate(pdate.clone())), &ErrProvider));
            if matches!(model, Ok(o) if o != Ordering::Equal) && (fa[..3] != [0, 0, 0] || fb[..3] != [0, 0, 0]) {
                out.nontrivial += 1;
            }
            let model = model.map_err(err_of);
            if out.lockstep("Duration::compare(relativeTo plain date)", &model, &got, |a, b| a == b, attrs) {
                if let Oc::Ok(o) = &got {
                    let rev = call(|| b.compare_with_provider(&a, Some(RelativeTo::PlainDate(pdate.clone())), &ErrProvider));
                    out.lockstep("compare(b, a) = reverse of compare(a, b)", &Ok(o.reverse()), &rev, |a, b| a == b, attrs);
                }
            }
        }
        // a calendar unit against days plus a sub-second field worth a day and more (the fields are not balanced)
        if i as usize % self.durs.len() == 0 {
            let day_ns = 86_400_000_000_000i64;
            let shapes: [[i64; 10]; 10] = [
                [0, 1, 0, 0, 0, 0, 0, 0, 0, 0],
                [1, 0, 0, 0, 0, 0, 0, 0, 0, 0],
                [0, 0, 0, 30, 0, 0, 0, 0, 0, day_ns + 3_600_000_000_000],
                [0, 0, 0, 27, 0, 0, 0, 0, 0, day_ns],
                [0, 0, 0, 365, 0, 0, 0, 0, 108_000_000_000, 0],
                [0, 0, 0, 364, 0, 0, 0, 0, 86_400_000_000, 0],
                [0, 0, 4, 0, 0, 0, 0, 86_400_000 * 3, 0, 0],
                [0, -1, 0, 0, 0, 0, 0, 0, 0, 0],
                [0, 0, 0, -30, 0, 0, 0, 0, 0, -(day_ns + 3_600_000_000_000)],
                [0, 0, 0, -27, 0, 0, 0, 0, -86_400_000_000, 0],
            ];
            for fa in &shapes {
                for fb in &shapes {
                    let (Ok(a), Ok(b)) = (dur10(to_fields(fa)), dur10(to_fields(fb))) else { continue };
                    let model = r5r::compare_relative(&to_fields(fa), &to_fields(fb), Some(rel));
                    let attrs = || vec![("a", format!("{fa:?}")), ("b", format!("{fb:?}")), ("relative_to", format!("{y}-{m}-{d}")), ("shapes", "unbalanced sub-second fields".to_string()), ("model", format!("{model:?}"))];
                    let got = call(|| a.compare_with_provider(&b, Some(RelativeTo::PlainDate(pdate.clone())), &ErrProvider));
                    out.lockstep("Duration::compare(relativeTo plain date)", &model.map_err(err_of), &got, |a, b| a == b, attrs);
                }
            }
        }
    }
}

/// until / since of PlainDate and PlainDateTime with rounding to calendar units and days.
struct UntilRounded {
    days: Vec<i64>,
    tods: Vec<i128>,
}

impl Space for UntilRounded {
    fn name(&self) -> String {
        "c08.until_since_rounded".into()
    }
    fn len(&self) -> u64 {
        (self.days.len() * self.days.len()) as u64
    }
    fn block(&self) -> u64 {
        4
    }
    fn eval(&self, i: u64, out: &mut Out) {
        let a = self.days[i as usize % self.days.len()];
        let b = self.days[i as usize / self.days.len()];
        let (ya, yb) = (Ymd::from_epoch_day(a), Ymd::from_epoch_day(b));
        let (Oc::Ok(da), Oc::Ok(db)) = (call(|| pd(ya.y, ya.m, ya.d)), call(|| pd(yb.y, yb.m, yb.d))) else { return };
        for largest in 0..4usize {
            for smallest in largest..4usize {
                for inc in if largest == smallest { vec![1i64, 2, 3, 5] } else { vec![1] } {
                    for mode in ALL_MODES {
                        let attrs = |ty: &str, op: &str, ta: i128, tb: i128| {
                            vec![("type", ty.to_string()), ("op", op.to_string()), ("a", format!("{ya:?}+{ta}")), ("b", format!("{yb:?}+{tb}")), ("largest", unit_label(largest).to_string()), ("smallest", unit_label(smallest).to_string()), ("increment", inc.to_string()), ("mode", mode.name().to_string())]
                        };
                        // PlainDate
                        // DifferenceTemporalPlainDate skips the rounding step altogether for smallestUnit day, increment 1
                        let (sm_eff, inc_eff) = if smallest == 3 && inc == 1 { (9, 1) } else { (smallest, inc) };
                        let model = r5r::diff_with_rounding(Dt::new(ya, 0), Dt::new(yb, 0), largest, inc_eff, sm_eff, mode).and_then(|d| r5r::from_internal(&d, 3)).map_err(err_of);
                        if matches!(&model, Ok(f) if f.iter().any(|x| *x != 0)) && smallest < 3 {
                            out.nontrivial += 1;
                        }
                        let settings = diff(Some(tunit(largest)), Some(tunit(smallest)), Some(imode(mode)), Some(inc as u32));
                        let got = call(|| da.until(&db, settings));
                        if model == Err(ErrorKind::Assert) {
                            out.unjudged += 1;
                        } else {
                            out.lockstep("PlainDate::until(rounded)", &model, &got, |m, x| dur_i128(x) == *m, || attrs("PlainDate", "until", 0, 0));
                        }
                        // since = -(until with the negated mode)
                        let model_since = r5r::diff_with_rounding(Dt::new(ya, 0), Dt::new(yb, 0), largest, inc_eff, sm_eff, mode.negate()).and_then(|d| r5r::from_internal(&d, 3)).map(|f| f.map(|x| -x)).map_err(err_of);
                        let got = call(|| da.since(&db, settings));
                        if model_since == Err(ErrorKind::Assert) {
                            out.unjudged += 1;
                        } else {
                            out.lockstep("PlainDate::since(rounded)", &model_since, &got, |m, x| dur_i128(x) == *m, || attrs("PlainDate", "since", 0, 0));
                        }
                        // PlainDateTime with times of day
                        for (ta, tb) in self.tods.iter().zip(self.tods.iter().rev()) {
                            let (Oc::Ok(pa), Oc::Ok(pb)) = (call(|| plain_date_time(a, *ta)), call(|| plain_date_time(b, *tb))) else { continue };
                            let model = r5r::diff_with_rounding(Dt::new(ya, *ta), Dt::new(yb, *tb), largest, inc, smallest, mode).and_then(|d| r5r::from_internal(&d, largest)).map_err(err_of);
                            let got = call(|| pa.until(&pb, settings));
                            if model == Err(ErrorKind::Assert) {
                                out.unjudged += 1;
                            } else {
                                out.lockstep("PlainDateTime::until(rounded)", &model, &got, |m, x| dur_i128(x) == *m, || attrs("PlainDateTime", "until", *ta, *tb));
                            }
                        }
                    }
                }
            }
        }
    }
    fn describe(&self) -> serde_json::Value {
        json!({"days": self.days.len(), "pairs": "all ordered", "times_of_day": self.tods.len(), "largest": "year..day", "smallest": "largest..day", "increments": "1; 2,3,5 when largest = smallest", "modes": 9})
    }
}

/// Rounding of date differences to multiples of weeks, months and years: targets a whole number
/// of units away, so that every multiple, every exact tie (odd and even position) and their
/// neighbours occur for even and odd increments, in both directions.
pub struct CalendarTies {
    pub name: &'static str,
}
const TIE_BASES: [(i64, u8, u8); 5] = [(2020, 1, 1), (2021, 1, 1), (2019, 7, 1), (2020, 2, 29), (2021, 1, 31)];
impl Space for CalendarTies {
    fn name(&self) -> String {
        self.name.into()
    }
    fn len(&self) -> u64 {
        (TIE_BASES.len() * 3 * 14) as u64
    }
    fn block(&self) -> u64 {
        1
    }
    fn eval(&self, i: u64, out: &mut Out) {
        let ix = unrank(i, &[14, 3, TIE_BASES.len() as u64]);
        let (y, m, d) = TIE_BASES[ix[2]];
        let unit = [0usize, 1, 2][ix[1]];
        let k = ix[0] as i64 + 1;
        let base = Ymd::new(y, m, d);
        let step = |n: i64| match unit {
            0 => DateDur { years: n, ..Default::default() },
            1 => DateDur { months: n, ..Default::default() },
            _ => DateDur { weeks: n, ..Default::default() },
        };
        let incs: &[i64] = match unit {
            0 => &[1, 2, 4],
            1 => &[1, 2, 3, 4, 6],
            _ => &[1, 2, 3, 4, 6],
        };
        for dir in [1i64, -1] {
            let Ok(target) = tmc_ref::r2::add_iso_date(base, step(k * dir), Overflow::Constrain) else { continue };
            // the target itself, and one day either side of it (tie +- a day)
            for off in [0i64, 1, -1] {
                let t = Ymd::from_epoch_day(target.epoch_day() + off);
                let (Oc::Ok(da), Oc::Ok(db)) = (call(|| pd(base.y, base.m, base.d)), call(|| pd(t.y, t.m, t.d))) else { continue };
                for inc in incs {
                    for mode in ALL_MODES {
                        let attrs = |op: &str| vec![("op", op.to_string()), ("from", format!("{base:?}")), ("to", format!("{t:?}")), ("unit", unit_label(unit).to_string()), ("units_apart", (k * dir).to_string()), ("day_offset", off.to_string()), ("increment", inc.to_string()), ("increment_parity", if inc % 2 == 0 { "even" } else { "odd" }.to_string()), ("mode", mode.name().to_string())];
                        let model = r5r::diff_with_rounding(Dt::new(base, 0), Dt::new(t, 0), unit, *inc, unit, mode).and_then(|d| r5r::from_internal(&d, 3)).map_err(err_of);
                        if model == Err(ErrorKind::Assert) {
                            out.unjudged += 1;
                            continue;
                        }
                        if off == 0 && k % inc != 0 {
                            out.nontrivial += 1;
                        }
                        let settings = diff(Some(tunit(unit)), Some(tunit(unit)), Some(imode(mode)), Some(*inc as u32));
                        let got = call(|| da.until(&db, settings));
                        out.lockstep("PlainDate::until(calendar increments)", &model, &got, |m, x| dur_i128(x) == *m, || attrs("until"));
                        let model_since = r5r::diff_with_rounding(Dt::new(base, 0), Dt::new(t, 0), unit, *inc, unit, mode.negate()).and_then(|d| r5r::from_internal(&d, 3)).map(|f| f.map(|x| -x)).map_err(err_of);
                        if model_since != Err(ErrorKind::Assert) {
                            let got = call(|| da.since(&db, settings));
                            out.lockstep("PlainDate::since(calendar increments)", &model_since, &got, |m, x| dur_i128(x) == *m, || attrs("since"));
                        }
                        // the same through date-times at noon and through Duration::round
                        if let (Oc::Ok(pa), Oc::Ok(pb)) = (call(|| plain_date_time(base.epoch_day(), 43_200_000_000_000)), call(|| plain_date_time(t.epoch_day(), 43_200_000_000_000))) {
                            let got = call(|| pa.until(&pb, settings));
                            out.lockstep("PlainDateTime::until(calendar increments)", &model, &got, |m, x| dur_i128(x) == *m, || attrs("until"));
                        }
                    }
                }
            }
        }
        if out.want_sample() && k == 7 && unit == 1 {
            out.sample(json!({"from": format!("{base:?}"), "unit": "month", "months_apart": 7, "increment": 2, "note": "exact tie when the two bracketing months have equal length"}));
        }
    }
}

pub fn spaces(env: &Env) -> Vec<Box<dyn Space>> {
    let quick = env.tier == Tier::Quick;
    let durs = durations(env.tier);
    let dates: Vec<(i64, u8, u8)> = if quick { REL_DATES[..4].iter().copied().chain(REL_DATES[10..].iter().copied()).collect() } else { REL_DATES.to_vec() };
    let cmp_durs: Vec<[i64; 10]> = durs.iter().copied().enumerate().filter(|(k, _)| k % if quick { 5 } else { 3 } == 0).map(|x| x.1).collect();
    let day = |y, m, d| tmc_ref::r1::days_from_civil(y, m, d);
    let mut days = vec![day(2019, 1, 1), day(2019, 1, 31), day(2019, 2, 28), day(2019, 12, 31), day(2020, 1, 31), day(2020, 2, 29), day(2020, 3, 1), day(2020, 3, 31), day(2020, 12, 31), day(2021, 2, 28), day(2021, 7, 16), day(2024, 2, 29)];
    if !quick {
        days.extend([day(1972, 1, 1), day(2000, 2, 29), day(2019, 7, 1), day(2019, 7, 2), day(2020, 8, 30), day(2020, 8, 31), day(2021, 1, 1), day(-271_821, 4, 20), day(275_760, 9, 13), day(1, 1, 1)]);
    }
    vec![
        Box::new(RoundRelative { durs: durs.clone(), dates: dates.clone(), cells: option_cells() }),
        Box::new(TotalRelative { durs: durs.clone(), dates: dates.clone() }),
        Box::new(CompareRelative { durs: cmp_durs, dates: dates[..if quick { 3 } else { 6 }].to_vec() }),
        Box::new(UntilRounded { days, tods: vec![0, 1, 12 * 3_600_000_000_000, NS_PER_DAY - 1] }),
        Box::new(CalendarTies { name: "c08.calendar_increments" }),
    ]
}

pub fn run(env: &Env) -> i32 {
    let mut rep = Report::new(
        env,
        "exploration",
        "products: durations (years x months x weeks x days x hours x ns alphabets, both signs, plus month-end / unit-fill / half-way / large shapes) x reference dates (month ends, leap day, both range ends) x every valid (largestUnit, smallestUnit) pair x increments x 9 modes for round; x 10 units for total; all ordered pairs of a duration subset for compare; all ordered pairs of a date set x times of day for rounded until/since",
    );
    rep.assumptions.push("R5-relative: the specification's RoundRelativeDuration / TotalRelativeDuration / DateDurationDays transcribed in exact integer and rational arithmetic over R2 and R4 (ISO calendar)".into());
    for s in spaces(env) {
        rep.run(s.as_ref());
    }
    rep.finish()
}

//! C03 (b): extreme-value product sweep over the public functions.

use crate::conv::*;
use crate::engine::*;
use crate::imp::*;
use crate::providers::{ErrProvider, UtcProvider};
use serde_json::json;
use std::str::FromStr;
use temporal_rs::options::*;
use temporal_rs::parsers::Precision;
use temporal_rs::partial::{PartialDate, PartialDateTime, PartialDuration, PartialTime};
use temporal_rs::primitive::FiniteF64;
use temporal_rs::{Calendar, Duration, Instant, MonthCode, PlainDate, PlainDateTime, PlainMonthDay, PlainTime, PlainYearMonth, TimeZone, ZonedDateTime};
use tinystr::TinyAsciiStr;
use tmc_ref::r1::{civil_from_days, MAX_DAY, MAX_INSTANT_NS, MIN_DAY, NS_PER_DAY};

const P31: f64 = 2147483647.0;
const P31P: f64 = 2147483648.0;
const P32: f64 = 4294967295.0;
const P53: f64 = 9007199254740991.0;

pub fn extreme_durations() -> Vec<[f64; 10]> {
    let mut v: Vec<[f64; 10]> = vec![[0.0; 10]];
    // field maxima that keep the duration valid
    let maxima = [P32, P32, P32, 104_249_991_374.0, 2_501_999_792_983.0, 150_119_987_579_016.0, P53, P53, P53, P53];
    for k in 0..10 {
        for val in [1.0, P31, P31P, P32, maxima[k]] {
            if k < 3 && val > P32 {
                continue;
            }
            let mut f = [0.0; 10];
            f[k] = val;
            v.push(f);
            v.push(f.map(|x: f64| if x == 0.0 { 0.0 } else { -x }));
        }
    }
    v.push([P32, P32, P32, 0.0, 0.0, 0.0, 0.0, 0.0, 0.0, 0.0]);
    v.push([1.0, 1.0, 1.0, 1.0, 1.0, 1.0, 1.0, 1.0, 1.0, 1.0]);
    v.push([0.0, 0.0, 0.0, 0.0, 23.0, 59.0, 59.0, 999.0, 999.0, 999.0]);
    v.push([0.0, 0.0, 0.0, 0.0, 0.0, 0.0, P53, 999.0, 999.0, 999.0]);
    v.push([-1.0, -1.0, -1.0, -1.0, -1.0, -1.0, -1.0, -1.0, -1.0, -1.0]);
    v
}

fn units_opt() -> Vec<Option<Unit>> {
    let mut v = vec![None, Some(Unit::Auto)];
    v.extend(ALL_UNITS.iter().map(|u| Some(*u)));
    v
}
const INCS: [Option<u32>; 5] = [None, Some(1), Some(2), Some(999_999_999), Some(1_000_000_000)];
const MODES: [Option<RoundingMode>; 4] = [None, Some(RoundingMode::Ceil), Some(RoundingMode::HalfEven), Some(RoundingMode::Expand)];
const CALS: [&str; 7] = ["iso8601", "gregory", "japanese", "hebrew", "chinese", "islamic-umalqura", "ethioaa"];

fn probe<T: std::fmt::Debug>(out: &mut Out, op: &str, got: Oc<T>, attrs: impl Fn() -> Vec<(&'static str, String)>) {
    // panic-only oracle: any value and any Type/Range/Syntax/Generic error is fine
    let got = got.map(|_| ());
    out.lockstep(op, &Ok(()), &got, |_, _| true, attrs);
}

fn dates() -> Vec<PlainDate> {
    let mut v = vec![];
    for day in [MIN_DAY, MIN_DAY + 1, -719_528, 0, 18_321, MAX_DAY - 1, MAX_DAY] {
        let (y, m, d) = civil_from_days(day);
        if let Oc::Ok(p) = call(|| pd(y, m, d)) {
            v.push(p);
        }
    }
    v
}

fn date_times() -> Vec<PlainDateTime> {
    [(MIN_DAY, 1i128), (MIN_DAY + 1, 0), (0, 0), (18_321, 43_200_000_000_001), (MAX_DAY, NS_PER_DAY - 1)].iter().filter_map(|(d, t)| call(|| plain_date_time(*d, *t)).ok().cloned()).collect()
}

fn instants() -> Vec<i128> {
    vec![-MAX_INSTANT_NS, -MAX_INSTANT_NS + 1, -1, 0, 1_582_934_400_123_456_789, MAX_INSTANT_NS - 1, MAX_INSTANT_NS]
}

fn zones() -> Vec<TimeZone> {
    ["UTC", "+00:00", "+23:59", "-23:59", "+05:45"].iter().map(|s| TimeZone::try_from_str(s).unwrap()).collect()
}

struct Arithmetic;
impl Space for Arithmetic {
    fn name(&self) -> String {
        "c03.extreme_arithmetic".into()
    }
    fn len(&self) -> u64 {
        extreme_durations().len() as u64
    }
    fn block(&self) -> u64 {
        1
    }
    fn eval(&self, i: u64, out: &mut Out) {
        let f = extreme_durations()[i as usize];
        let a = || vec![("duration", format!("{f:?}"))];
        let made = call(|| dur10(f));
        probe(out, "Duration::new", made.clone().map(|_| ()), a);
        let Oc::Ok(d) = made else { return };
        out.nontrivial += 1;
        for ov in [None, Some(ArithmeticOverflow::Constrain), Some(ArithmeticOverflow::Reject)] {
            for date in dates() {
                probe(out, "PlainDate::add", call(|| date.add(&d, ov)), a);
                probe(out, "PlainDate::subtract", call(|| date.subtract(&d, ov)), a);
                for cal in &CALS[1..] {
                    if let Oc::Ok(c) = call(|| date.with_calendar(Calendar::from_str(cal).unwrap())) {
                        probe(out, "PlainDate::add(non-ISO calendar)", call(|| c.add(&d, ov)), || {
                            let mut v = a();
                            v.push(("calendar", cal.to_string()));
                            v
                        });
                    }
                }
            }
            for dt in date_times() {
                probe(out, "PlainDateTime::add", call(|| dt.add(&d, ov)), a);
                probe(out, "PlainDateTime::subtract", call(|| dt.subtract(&d, ov)), a);
            }
            for (y, m) in [(-271_821, 4u8), (1970, 1), (275_760, 9)] {
                if let Oc::Ok(ym) = call(|| PlainYearMonth::new_with_overflow(y, m, None, Calendar::default(), ArithmeticOverflow::Reject)) {
                    probe(out, "PlainYearMonth::add", call(|| ym.add(&d, ov.unwrap_or(ArithmeticOverflow::Constrain))), a);
                    probe(out, "PlainYearMonth::subtract", call(|| ym.subtract(&d, ov.unwrap_or(ArithmeticOverflow::Constrain))), a);
                }
            }
            for t in instants() {
                for tz in zones() {
                    if let Oc::Ok(z) = call(|| ZonedDateTime::try_new(t, Calendar::default(), tz.clone())) {
                        probe(out, "ZonedDateTime::add", call(|| z.add_with_provider(&d, ov, &UtcProvider)), a);
                        probe(out, "ZonedDateTime::subtract", call(|| z.subtract_with_provider(&d, ov, &UtcProvider)), a);
                    }
                }
            }
        }
        for tod in [0i128, NS_PER_DAY - 1] {
            let t = plain_time(tod).unwrap();
            probe(out, "PlainTime::add", call(|| t.add(&d)), a);
            probe(out, "PlainTime::subtract", call(|| t.subtract(&d)), a);
        }
        for t in instants() {
            let inst = Instant::try_new(t).unwrap();
            probe(out, "Instant::add", call(|| inst.add(d)), a);
            probe(out, "Instant::subtract", call(|| inst.subtract(d)), a);
        }
        // duration with duration, with and without reference points, every unit incl. auto
        for g in extreme_durations().iter().step_by(7) {
            let Ok(e) = dur10(*g) else { continue };
            probe(out, "Duration::add", call(|| d.add(&e)), a);
            probe(out, "Duration::subtract", call(|| d.subtract(&e)), a);
            probe(out, "Duration::compare", call(|| d.compare_with_provider(&e, None, &ErrProvider)), a);
            for date in dates().iter().step_by(3) {
                probe(out, "Duration::compare(plain relativeTo)", call(|| d.compare_with_provider(&e, Some(RelativeTo::PlainDate(date.clone())), &ErrProvider)), a);
            }
        }
        probe(out, "Duration::negated/abs/sign", call_inf(|| (d.negated(), d.abs(), d.sign(), d.is_zero())), a);
        probe(out, "Duration::to_string", call(|| d.as_temporal_string(ToStringRoundingOptions::default())), a);
        for u in units_opt().into_iter().flatten() {
            probe(out, "Duration::total", call(|| d.total_with_provider(u, None, &ErrProvider)), a);
            for date in dates().iter().step_by(2) {
                probe(out, "Duration::total(plain relativeTo)", call(|| d.total_with_provider(u, Some(RelativeTo::PlainDate(date.clone())), &ErrProvider)), a);
            }
            for t in [0i128, MAX_INSTANT_NS, -MAX_INSTANT_NS] {
                let z = ZonedDateTime::try_new(t, Calendar::default(), TimeZone::try_from_str("+23:59").unwrap()).unwrap();
                probe(out, "Duration::total(zoned relativeTo)", call(|| d.total_with_provider(u, Some(RelativeTo::ZonedDateTime(z.clone())), &ErrProvider)), a);
            }
        }
        for l in units_opt() {
            for s in units_opt() {
                for inc in [None, Some(1), Some(1_000_000_000)] {
                    let o = || round_opts(l, s, Some(RoundingMode::HalfExpand), inc);
                    probe(out, "Duration::round", call(|| d.round_with_provider(o(), None, &ErrProvider)), a);
                    for date in dates().iter().step_by(3) {
                        probe(out, "Duration::round(plain relativeTo)", call(|| d.round_with_provider(o(), Some(RelativeTo::PlainDate(date.clone())), &ErrProvider)), a);
                    }
                    let z = ZonedDateTime::try_new(MAX_INSTANT_NS, Calendar::default(), TimeZone::try_from_str("-23:59").unwrap()).unwrap();
                    probe(out, "Duration::round(zoned relativeTo)", call(|| d.round_with_provider(o(), Some(RelativeTo::ZonedDateTime(z.clone())), &ErrProvider)), a);
                }
            }
        }
        if out.want_sample() && f[0] == P32 {
            out.sample(json!({"duration_fields": format!("{f:?}")}));
        }
    }
}

/// until / since / round / toString of extreme receivers over the whole option matrix.
struct Options;
impl Space for Options {
    fn name(&self) -> String {
        "c03.extreme_options".into()
    }
    fn len(&self) -> u64 {
        (units_opt().len() * units_opt().len()) as u64
    }
    fn block(&self) -> u64 {
        1
    }
    fn eval(&self, i: u64, out: &mut Out) {
        let us = units_opt();
        let (l, s) = (us[i as usize % us.len()], us[i as usize / us.len()]);
        if l == Some(Unit::Auto) || s == Some(Unit::Auto) {
            out.nontrivial += 1;
        }
        for inc in INCS {
            for mode in MODES {
                let a = || vec![("largest", format!("{l:?}")), ("smallest", format!("{s:?}")), ("increment", format!("{inc:?}")), ("mode", format!("{mode:?}"))];
                let ds = || diff(l, s, mode, inc);
                let ro = || round_opts(l, s, mode, inc);
                let dates = dates();
                for x in &dates {
                    for y in [&dates[0], &dates[dates.len() - 1], &dates[3]] {
                        probe(out, "PlainDate::until", call(|| x.until(y, ds())), a);
                        probe(out, "PlainDate::since", call(|| x.since(y, ds())), a);
                    }
                }
                let dts = date_times();
                for x in &dts {
                    for y in [&dts[0], &dts[dts.len() - 1]] {
                        probe(out, "PlainDateTime::until", call(|| x.until(y, ds())), a);
                        probe(out, "PlainDateTime::since", call(|| x.since(y, ds())), a);
                    }
                    probe(out, "PlainDateTime::round", call(|| x.round(ro())), a);
                }
                for (ta, tb) in [(0i128, NS_PER_DAY - 1), (NS_PER_DAY - 1, 0)] {
                    let (x, y) = (plain_time(ta).unwrap(), plain_time(tb).unwrap());
                    probe(out, "PlainTime::until", call(|| x.until(&y, ds())), a);
                    probe(out, "PlainTime::since", call(|| x.since(&y, ds())), a);
                    probe(out, "PlainTime::round", call(|| x.round(s.unwrap_or(Unit::Auto), inc.map(|v| v as f64), mode)), a);
                }
                for (ya, yb) in [((-271_821, 4u8), (275_760, 9u8)), ((275_760, 9), (-271_821, 4)), ((1970, 1), (275_760, 9))] {
                    let mk = |(y, m): (i32, u8)| PlainYearMonth::new_with_overflow(y, m, None, Calendar::default(), ArithmeticOverflow::Reject);
                    if let (Ok(x), Ok(y)) = (mk(ya), mk(yb)) {
                        probe(out, "PlainYearMonth::until", call(|| x.until(&y, ds())), a);
                        probe(out, "PlainYearMonth::since", call(|| x.since(&y, ds())), a);
                    }
                }
                for ta in instants() {
                    let x = Instant::try_new(ta).unwrap();
                    for tb in [-MAX_INSTANT_NS, MAX_INSTANT_NS] {
                        let y = Instant::try_new(tb).unwrap();
                        probe(out, "Instant::until", call(|| x.until(&y, ds())), a);
                        probe(out, "Instant::since", call(|| x.since(&y, ds())), a);
                    }
                    probe(out, "Instant::round", call(|| x.round(ro())), a);
                    for tz in zones().iter().step_by(2) {
                        let zx = ZonedDateTime::try_new(ta, Calendar::default(), tz.clone()).unwrap();
                        let zy = ZonedDateTime::try_new(-ta, Calendar::default(), tz.clone()).unwrap();
                        probe(out, "ZonedDateTime::until", call(|| zx.until_with_provider(&zy, ds(), &UtcProvider)), a);
                        probe(out, "ZonedDateTime::since", call(|| zx.since_with_provider(&zy, ds(), &UtcProvider)), a);
                    }
                }
            }
        }
        // toString options: every precision incl. out-of-range digit counts, every unit as smallestUnit
        for prec in [Precision::Auto, Precision::Minute, Precision::Digit(0), Precision::Digit(9), Precision::Digit(10), Precision::Digit(255)] {
            for mode in MODES {
                let o = || ToStringRoundingOptions { precision: prec, smallest_unit: s, rounding_mode: mode };
                let a = || vec![("precision", format!("{prec:?}")), ("smallest", format!("{s:?}")), ("mode", format!("{mode:?}"))];
                for x in date_times() {
                    probe(out, "PlainDateTime::to_ixdtf_string", call(|| x.to_ixdtf_string(o(), DisplayCalendar::Auto)), a);
                }
                probe(out, "PlainTime::to_ixdtf_string", call(|| plain_time(NS_PER_DAY - 1).unwrap().to_ixdtf_string(o())), a);
                for t in instants() {
                    let x = Instant::try_new(t).unwrap();
                    probe(out, "Instant::to_ixdtf_string", call(|| x.to_ixdtf_string_with_provider(None, o(), &UtcProvider)), a);
                    for tz in zones() {
                        probe(out, "Instant::to_ixdtf_string(zone)", call(|| x.to_ixdtf_string_with_provider(Some(&tz), o(), &UtcProvider)), a);
                        let z = ZonedDateTime::try_new(t, Calendar::default(), tz.clone()).unwrap();
                        probe(out, "ZonedDateTime::to_ixdtf_string", call(|| z.to_ixdtf_string_with_provider(DisplayOffset::Auto, DisplayTimeZone::Critical, DisplayCalendar::Always, o(), &UtcProvider)), a);
                    }
                }
                for f in extreme_durations().iter().step_by(5) {
                    if let Ok(d) = dur10(*f) {
                        probe(out, "Duration::as_temporal_string", call(|| d.as_temporal_string(o())), a);
                    }
                }
            }
        }
    }
}

/// Field records with extreme field values for every from_partial / with.
struct Partials;
const YEARS: [Option<i32>; 7] = [None, Some(i32::MIN), Some(-271_821), Some(0), Some(2020), Some(275_760), Some(i32::MAX)];
const MONTHS: [Option<u8>; 6] = [None, Some(0), Some(1), Some(12), Some(13), Some(255)];
const DAYS: [Option<u8>; 6] = [None, Some(0), Some(1), Some(31), Some(32), Some(255)];
const CODES: [&str; 6] = ["", "M01", "M13", "M00", "M99L", "M05L"];
const ERAS: [&str; 6] = ["", "ce", "bce", "reiwa", "xx", "aaaaaaaaaaaaaaaaaaa"];
const ERA_YEARS: [Option<i32>; 5] = [None, Some(i32::MIN), Some(0), Some(1), Some(i32::MAX)];
impl Space for Partials {
    fn name(&self) -> String {
        "c03.extreme_partial_records".into()
    }
    fn len(&self) -> u64 {
        (YEARS.len() * MONTHS.len() * DAYS.len()) as u64
    }
    fn block(&self) -> u64 {
        2
    }
    fn eval(&self, i: u64, out: &mut Out) {
        let ix = unrank(i, &[DAYS.len() as u64, MONTHS.len() as u64, YEARS.len() as u64]);
        let (year, month, day) = (YEARS[ix[2]], MONTHS[ix[1]], DAYS[ix[0]]);
        out.nontrivial += 1;
        for code in CODES {
            for era in ERAS {
                for era_year in ERA_YEARS {
                    for cal in CALS {
                        let a = || vec![("record", format!("year={year:?} month={month:?} day={day:?} code={code} era={era} eraYear={era_year:?}")), ("calendar", cal.to_string())];
                        let mk = || {
                            let mut p = PartialDate::default();
                            p.year = year;
                            p.month = month;
                            p.day = day;
                            p.month_code = if code.is_empty() { None } else { MonthCode::from_str(code).ok() };
                            p.era = if era.is_empty() { None } else { TinyAsciiStr::<19>::try_from_str(era).ok() };
                            p.era_year = era_year;
                            p.calendar = Calendar::from_str(cal).unwrap();
                            p
                        };
                        for ov in [None, Some(ArithmeticOverflow::Reject)] {
                            probe(out, "PlainDate::from_partial", call(|| PlainDate::from_partial(mk(), ov)), a);
                            probe(out, "PlainYearMonth::from_partial", call(|| PlainYearMonth::from_partial(mk(), ov.unwrap_or(ArithmeticOverflow::Constrain))), a);
                            if era.is_empty() && era_year.is_none() {
                                probe(out, "PlainDateTime::from_partial", call(|| PlainDateTime::from_partial(PartialDateTime { date: mk(), time: PartialTime::default() }, ov)), a);
                            }
                        }
                        if cal == "iso8601" || cal == "hebrew" {
                            for base in dates().iter().step_by(3) {
                                if let Oc::Ok(b) = call(|| base.with_calendar(Calendar::from_str(cal).unwrap())) {
                                    probe(out, "PlainDate::with", call(|| b.with(mk(), None)), a);
                                }
                            }
                        }
                    }
                }
            }
        }
        // time records and duration records once per (month, day) slice
        if ix[2] == 0 {
            let hs = [None, Some(0u8), Some(23), Some(24), Some(255)];
            let subs = [None, Some(0u16), Some(999), Some(1000), Some(65535)];
            for h in hs {
                for mi in hs {
                    for ms in subs {
                        for ns in subs {
                            let a = || vec![("record", format!("hour={h:?} minute={mi:?} second={:?} ms={ms:?} us={:?} ns={ns:?}", month, day))];
                            let mk = || {
                                let mut p = PartialTime::default();
                                p.hour = h;
                                p.minute = mi;
                                p.second = month;
                                p.millisecond = ms;
                                p.microsecond = day.map(|d| d as u16 * 257);
                                p.nanosecond = ns;
                                p
                            };
                            for ov in [None, Some(ArithmeticOverflow::Reject)] {
                                probe(out, "PlainTime::from_partial", call(|| PlainTime::from_partial(mk(), ov)), a);
                                probe(out, "PlainTime::with", call(|| plain_time(NS_PER_DAY - 1).unwrap().with(mk(), ov)), a);
                            }
                        }
                    }
                }
            }
            let vals = [None, Some(0.0), Some(-0.0), Some(0.5), Some(-1.0), Some(P32), Some(P32 + 1.0), Some(P53), Some(P53 + 1.0), Some(1e300), Some(f64::MAX), Some(f64::MIN_POSITIVE)];
            for y in vals {
                for d in vals {
                    for ns in vals {
                        let a = || vec![("record", format!("years={y:?} days={d:?} nanoseconds={ns:?}"))];
                        let got = call(|| {
                            let mut p = PartialDuration::default();
                            p.years = y.map(FiniteF64::try_from).transpose()?;
                            p.days = d.map(FiniteF64::try_from).transpose()?;
                            p.nanoseconds = ns.map(FiniteF64::try_from).transpose()?;
                            Duration::from_partial_duration(p)
                        });
                        probe(out, "Duration::from_partial_duration", got, a);
                    }
                }
            }
            for v in [f64::NAN, f64::INFINITY, f64::NEG_INFINITY, -1.0, 0.0, 0.5, 1.0, 1e9, 1e10, 4294967296.0, f64::MAX] {
                probe(out, "RoundingIncrement::try_from(f64)", call(|| RoundingIncrement::try_from(v)), || vec![("value", format!("{v:?}"))]);
                probe(out, "FiniteF64::try_from", call(|| FiniteF64::try_from(v)), || vec![("value", format!("{v:?}"))]);
            }
            for v in [0u32, 1, u32::MAX] {
                probe(out, "RoundingIncrement::try_new", call(|| RoundingIncrement::try_new(v)), || vec![("value", v.to_string())]);
            }
            for v in [i64::MIN, -8_640_000_000_000_001, 8_640_000_000_000_001, i64::MAX] {
                probe(out, "Instant::from_epoch_milliseconds", call(|| Instant::from_epoch_milliseconds(v)), || vec![("value", v.to_string())]);
            }
            for v in [i128::MIN, i128::MAX, i64::MIN as i128, u64::MAX as i128] {
                probe(out, "Instant::try_new", call(|| Instant::try_new(v)), || vec![("value", v.to_string())]);
            }
            for (m, d) in [(0u8, 0u8), (13, 1), (2, 30), (255, 255), (2, 29)] {
                for ry in [None, Some(i32::MIN), Some(1972), Some(i32::MAX)] {
                    for cal in CALS {
                        probe(out, "PlainMonthDay::new_with_overflow", call(|| PlainMonthDay::new_with_overflow(m, d, Calendar::from_str(cal).unwrap(), ArithmeticOverflow::Constrain, ry)), || vec![("record", format!("{m}-{d} ref {ry:?}")), ("calendar", cal.to_string())]);
                    }
                }
            }
        }
    }
}

/// Every getter and conversion of every calendar at the range ends.
struct Getters;
impl Space for Getters {
    fn name(&self) -> String {
        "c03.extreme_getters".into()
    }
    fn len(&self) -> u64 {
        crate::checks::c16::CALENDARS.len() as u64
    }
    fn block(&self) -> u64 {
        1
    }
    fn eval(&self, i: u64, out: &mut Out) {
        let cal_id = crate::checks::c16::CALENDARS[i as usize].0;
        let cal = Calendar::from_str(cal_id).unwrap();
        out.nontrivial += 1;
        for base in dates() {
            let a = || vec![("calendar", cal_id.to_string()), ("date", base.to_ixdtf_string(DisplayCalendar::Never))];
            let Oc::Ok(d) = call(|| base.with_calendar(cal.clone())) else { continue };
            probe(out, "date getters", call_inf(|| (d.year(), d.month(), d.month_code(), d.day(), d.day_of_week(), d.day_of_year(), d.days_in_month(), d.days_in_year(), d.months_in_year(), d.in_leap_year(), d.era(), d.era_year())), a);
            probe(out, "week getters", call(|| Ok((d.week_of_year()?, d.year_of_week()?, d.days_in_week()?))), a);
            probe(out, "to_plain_year_month", call(|| d.to_plain_year_month()), a);
            probe(out, "to_plain_month_day", call(|| d.to_plain_month_day()), a);
            probe(out, "to_plain_date_time", call(|| d.to_plain_date_time(None)), a);
            probe(out, "to_ixdtf_string", call_inf(|| d.to_ixdtf_string(DisplayCalendar::Always)), a);
            for other in dates().iter().step_by(3) {
                if let Oc::Ok(o) = call(|| other.with_calendar(cal.clone())) {
                    for u in [Unit::Year, Unit::Month, Unit::Week, Unit::Day] {
                        probe(out, "until (same calendar)", call(|| d.until(&o, diff(Some(u), None, None, None))), a);
                    }
                }
            }
            for tz in zones() {
                probe(out, "to_zoned_date_time", call(|| d.to_zoned_date_time_with_provider(tz.clone(), None, &UtcProvider)), a);
            }
        }
        for t in instants() {
            for tz in zones() {
                let z = ZonedDateTime::try_new(t, cal.clone(), tz.clone()).unwrap();
                let a = || vec![("calendar", cal_id.to_string()), ("instant", t.to_string())];
                probe(out, "zoned getters", call(|| Ok((z.year_with_provider(&UtcProvider)?, z.month_with_provider(&UtcProvider)?, z.day_with_provider(&UtcProvider)?, z.hour_with_provider(&UtcProvider)?, z.era_with_provider(&UtcProvider)?, z.day_of_year_with_provider(&UtcProvider)?, z.week_of_year_with_provider(&UtcProvider)?, z.days_in_month_with_provider(&UtcProvider)?))), a);
                probe(out, "zoned hours_in_day", call(|| z.hours_in_day_with_provider(&UtcProvider)), a);
                probe(out, "zoned start_of_day", call(|| z.start_of_day_with_provider(&UtcProvider)), a);
                probe(out, "zoned to_string", call(|| z.to_string_with_provider(&UtcProvider)), a);
                probe(out, "zoned with_calendar/with_timezone", call(|| z.with_calendar(Calendar::default())?.with_timezone(TimeZone::try_from_str("-23:59")?)), a);
            }
        }
    }
}

pub fn spaces(_env: &Env) -> Vec<Box<dyn Space>> {
    vec![Box::new(Arithmetic), Box::new(Options), Box::new(Partials), Box::new(Getters)]
}

//! C03 (d): hostile time-zone environments through every *_with_provider method.

use crate::engine::*;
use crate::imp::*;
use crate::providers::SynthProvider;
use serde_json::json;
use temporal_rs::iso::IsoDateTime;
use temporal_rs::options::{Disambiguation, DisplayCalendar, DisplayOffset, DisplayTimeZone, OffsetDisambiguation, RelativeTo, ToStringRoundingOptions};
use temporal_rs::provider::{TimeZoneOffset, TimeZoneProvider, TransitionDirection};
use temporal_rs::time::EpochNanoseconds;
use temporal_rs::{Calendar, Instant, PlainDateTime, TemporalError, TemporalResult, TimeZone, ZonedDateTime};
use tmc_ref::r6::Zone;

/// How the provider misbehaves.
#[derive(Clone, Copy, Debug, PartialEq)]
pub enum Hostile {
    /// every answer is an error
    AllErrors,
    /// no candidate instant for any wall-clock time (as if everything were skipped)
    NoCandidates,
    /// three candidates for every wall-clock time
    ThreeCandidates,
    /// candidates in descending order
    DescendingCandidates,
    /// offset of +26 h
    Offset26h,
    /// offset of -26 h
    OffsetMinus26h,
    /// offset beyond 32 bits of seconds
    OffsetHuge,
    /// offset i64::MAX / 10^9 seconds
    OffsetMax,
    /// the offset alternates between two values on every call
    Flipping,
    /// candidates at the far ends of the representable range
    CandidatesAtRangeEnds,
    /// transition lookups return the queried instant itself
    TransitionIsQuery,
}
pub const ALL_HOSTILE: [Hostile; 11] = [
    Hostile::AllErrors,
    Hostile::NoCandidates,
    Hostile::ThreeCandidates,
    Hostile::DescendingCandidates,
    Hostile::Offset26h,
    Hostile::OffsetMinus26h,
    Hostile::OffsetHuge,
    Hostile::OffsetMax,
    Hostile::Flipping,
    Hostile::CandidatesAtRangeEnds,
    Hostile::TransitionIsQuery,
];

pub struct HostileProvider {
    pub kind: Hostile,
    pub calls: std::sync::atomic::AtomicU64,
}

impl HostileProvider {
    fn offset(&self) -> i64 {
        match self.kind {
            Hostile::Offset26h => 26 * 3600,
            Hostile::OffsetMinus26h => -26 * 3600,
            Hostile::OffsetHuge => 1i64 << 33,
            Hostile::OffsetMax => i64::MAX / 1_000_000_000,
            Hostile::Flipping => {
                if self.calls.fetch_add(1, std::sync::atomic::Ordering::Relaxed) % 2 == 0 {
                    3600
                } else {
                    -7200
                }
            }
            _ => 3600,
        }
    }
}

impl TimeZoneProvider for HostileProvider {
    fn check_identifier(&self, _: &str) -> bool {
        self.kind != Hostile::AllErrors
    }
    fn get_named_tz_epoch_nanoseconds(&self, _: &str, local: IsoDateTime) -> TemporalResult<Vec<EpochNanoseconds>> {
        let l = local.as_nanoseconds().map(|x| x.as_i128()).unwrap_or(0);
        let mk = |v: i128| EpochNanoseconds::try_from(v.clamp(-tmc_ref::r1::MAX_INSTANT_NS, tmc_ref::r1::MAX_INSTANT_NS)).unwrap();
        let o = self.offset() as i128 * 1_000_000_000;
        match self.kind {
            Hostile::AllErrors => Err(TemporalError::general("hostile provider")),
            Hostile::NoCandidates => Ok(vec![]),
            Hostile::ThreeCandidates => Ok(vec![mk(l - 3_600_000_000_000), mk(l), mk(l + 3_600_000_000_000)]),
            Hostile::DescendingCandidates => Ok(vec![mk(l + 3_600_000_000_000), mk(l)]),
            Hostile::CandidatesAtRangeEnds => Ok(vec![mk(i128::MIN / 2), mk(i128::MAX / 2)]),
            _ => Ok(vec![mk(l - o)]),
        }
    }
    fn get_named_tz_offset_nanoseconds(&self, _: &str, t: i128) -> TemporalResult<TimeZoneOffset> {
        if self.kind == Hostile::AllErrors {
            return Err(TemporalError::general("hostile provider"));
        }
        Ok(TimeZoneOffset { transition_epoch: Some((t / 1_000_000_000) as i64), offset: self.offset() })
    }
    fn get_named_tz_transition(&self, _: &str, t: i128, _: TransitionDirection) -> TemporalResult<Option<EpochNanoseconds>> {
        match self.kind {
            Hostile::AllErrors => Err(TemporalError::general("hostile provider")),
            Hostile::TransitionIsQuery => Ok(EpochNanoseconds::try_from(t).ok()),
            _ => Ok(None),
        }
    }
}

/// Every zoned operation with the given provider; only panics / internal-assertion errors are failures.
pub fn drive(out: &mut Out, provider: &impl TimeZoneProvider, zone_name: &str, env_label: &str, instants: &[i128]) {
    let tz = crate::imp::zone_of(zone_name).unwrap_or(TimeZone::IanaIdentifier(zone_name.to_string()));
    let probe = |out: &mut Out, op: &str, t: i128, got: Oc<String>| {
        out.lockstep(op, &Ok(String::new()), &got, |_, _| true, || vec![("environment", env_label.to_string()), ("instant", t.to_string())]);
    };
    let durations: Vec<temporal_rs::Duration> = [[0f64, 0., 0., 1., 0., 0., 0., 0., 0., 0.], [0., 1., 0., 0., 0., 0., 0., 0., 0., 0.], [1., 0., 0., 0., 0., 0., 0., 0., 0., 0.], [0., 0., 0., 0., 25., 0., 0., 0., 0., 0.], [0., 0., 0., 0., 0., 0., 0., 0., 0., 1.], [0., 0., 1., 2., 3., 4., 5., 6., 7., 8.], [0., 0., 0., -1., 0., 0., 0., 0., 0., 0.], [0., -1., 0., -31., -23., 0., 0., 0., 0., -1.]]
        .iter()
        .map(|f| dur10(*f).unwrap())
        .collect();
    for t in instants {
        let t = *t;
        let Oc::Ok(z) = call(|| ZonedDateTime::try_new(t, Calendar::default(), tz.clone())) else { continue };
        macro_rules! p {
            ($name:expr, $e:expr) => {
                probe(out, $name, t, call(|| $e.map(|v| format!("{:?}", v))));
            };
        }
        p!("year", z.year_with_provider(provider));
        p!("month", z.month_with_provider(provider));
        p!("month_code", z.month_code_with_provider(provider));
        p!("day", z.day_with_provider(provider));
        p!("hour", z.hour_with_provider(provider));
        p!("minute", z.minute_with_provider(provider));
        p!("second", z.second_with_provider(provider));
        p!("millisecond", z.millisecond_with_provider(provider));
        p!("microsecond", z.microsecond_with_provider(provider));
        p!("nanosecond", z.nanosecond_with_provider(provider));
        p!("offset", z.offset_with_provider(provider));
        p!("offset_nanoseconds", z.offset_nanoseconds_with_provider(provider));
        p!("day_of_week", z.day_of_week_with_provider(provider));
        p!("day_of_year", z.day_of_year_with_provider(provider));
        p!("week_of_year", z.week_of_year_with_provider(provider));
        p!("year_of_week", z.year_of_week_with_provider(provider));
        p!("days_in_week", z.days_in_week_with_provider(provider));
        p!("days_in_month", z.days_in_month_with_provider(provider));
        p!("days_in_year", z.days_in_year_with_provider(provider));
        p!("months_in_year", z.months_in_year_with_provider(provider));
        p!("in_leap_year", z.in_leap_year_with_provider(provider));
        p!("era", z.era_with_provider(provider));
        p!("era_year", z.era_year_with_provider(provider));
        p!("hours_in_day", z.hours_in_day_with_provider(provider));
        p!("start_of_day", z.start_of_day_with_provider(provider));
        p!("to_plain_date", z.to_plain_date_with_provider(provider));
        p!("to_plain_time", z.to_plain_time_with_provider(provider));
        p!("to_plain_datetime", z.to_plain_datetime_with_provider(provider));
        p!("to_string", z.to_string_with_provider(provider));
        p!("to_ixdtf_string", z.to_ixdtf_string_with_provider(DisplayOffset::Auto, DisplayTimeZone::Auto, DisplayCalendar::Auto, ToStringRoundingOptions::default(), provider));
        p!("with_plain_time(midnight)", z.with_plain_time_and_provider(crate::conv::plain_time(0).unwrap(), provider));
        p!("with_plain_time(noon)", z.with_plain_time_and_provider(crate::conv::plain_time(43_200_000_000_000).unwrap(), provider));
        p!("transition(next)", z.get_time_zone_transition_with_provider(TransitionDirection::Next, provider));
        p!("transition(previous)", z.get_time_zone_transition_with_provider(TransitionDirection::Previous, provider));
        for d in &durations {
            p!("add", z.add_with_provider(d, None, provider));
            p!("subtract", z.subtract_with_provider(d, None, provider));
            p!("Duration::round(relativeTo zoned, day)", d.round_with_provider(round_opts(Some(ALL_UNITS[0]), Some(ALL_UNITS[3]), None, None), Some(RelativeTo::ZonedDateTime(z.clone())), provider));
            p!("Duration::round(relativeTo zoned, hour)", d.round_with_provider(round_opts(None, Some(ALL_UNITS[4]), None, None), Some(RelativeTo::ZonedDateTime(z.clone())), provider));
            p!("Duration::total(relativeTo zoned, month)", d.total_with_provider(ALL_UNITS[1], Some(RelativeTo::ZonedDateTime(z.clone())), provider));
            p!("Duration::total(relativeTo zoned, day)", d.total_with_provider(ALL_UNITS[3], Some(RelativeTo::ZonedDateTime(z.clone())), provider));
            p!("Duration::compare(relativeTo zoned)", d.compare_with_provider(&durations[0], Some(RelativeTo::ZonedDateTime(z.clone())), provider));
        }
        for t2 in instants {
            let Oc::Ok(z2) = call(|| ZonedDateTime::try_new(*t2, Calendar::default(), tz.clone())) else { continue };
            for largest in [0usize, 1, 2, 3, 4, 9] {
                p!("until", z.until_with_provider(&z2, diff(Some(ALL_UNITS[largest]), None, None, None), provider));
                p!("since", z.since_with_provider(&z2, diff(Some(ALL_UNITS[largest]), Some(ALL_UNITS[largest.max(3)]), None, None), provider));
            }
        }
        // wall-clock -> instant
        let local = t.clamp(-8_000_000_000_000_000_000_000, 8_000_000_000_000_000_000_000);
        let (day, tod) = (local.div_euclid(86_400_000_000_000) as i64, local.rem_euclid(86_400_000_000_000));
        if let Oc::Ok(pdt) = call(|| crate::conv::plain_date_time(day, tod)) {
            for dis in [Disambiguation::Compatible, Disambiguation::Earlier, Disambiguation::Later, Disambiguation::Reject] {
                p!("PlainDateTime::to_zoned_date_time", pdt.to_zoned_date_time_with_provider(&tz, dis, provider));
            }
            let pd = PlainDateTime::to_plain_date(&pdt).unwrap();
            p!("PlainDate::to_zoned_date_time", pd.to_zoned_date_time_with_provider(tz.clone(), None, provider));
            if let Oc::Ok(text) = call(|| pdt.to_ixdtf_string(ToStringRoundingOptions::default(), DisplayCalendar::Never)) {
                for suffix in ["", "+01:00", "Z", "-02:00"] {
                    let s = format!("{text}{suffix}[{zone_name}]");
                    for od in [OffsetDisambiguation::Use, OffsetDisambiguation::Prefer, OffsetDisambiguation::Ignore, OffsetDisambiguation::Reject] {
                        p!("ZonedDateTime::from_str", ZonedDateTime::from_str_with_provider(&s, Disambiguation::Compatible, od, provider));
                    }
                    p!("RelativeTo::try_from_str", RelativeTo::try_from_str_with_provider(&s, provider).map(|_| ()));
                }
            }
        }
        if let Oc::Ok(inst) = call(|| Instant::try_new(t)) {
            p!("Instant::to_ixdtf_string(zone)", inst.to_ixdtf_string_with_provider(Some(&tz), ToStringRoundingOptions::default(), provider));
        }
    }
}

struct HostileProviders;
impl Space for HostileProviders {
    fn name(&self) -> String {
        "c03.hostile_providers".into()
    }
    fn len(&self) -> u64 {
        ALL_HOSTILE.len() as u64
    }
    fn block(&self) -> u64 {
        1
    }
    fn eval(&self, i: u64, out: &mut Out) {
        let kind = ALL_HOSTILE[i as usize];
        let p = HostileProvider { kind, calls: Default::default() };
        out.nontrivial += 1;
        let m = tmc_ref::r1::MAX_INSTANT_NS;
        drive(out, &p, "Hostile/Zone", &format!("{kind:?}"), &[0, 1_615_708_800_000_000_000, -1, m, -m, m - 86_400_000_000_000, -m + 86_400_000_000_000]);
        out.sample(json!({"environment": format!("{kind:?}")}));
    }
}

/// Rule sets at the edge of what a zone can be, served consistently (the answers are those of the rule set).
struct ExtremeZones {
    zones: Vec<(String, Zone)>,
}
impl Space for ExtremeZones {
    fn name(&self) -> String {
        "c03.extreme_rule_sets".into()
    }
    fn len(&self) -> u64 {
        self.zones.len() as u64
    }
    fn block(&self) -> u64 {
        1
    }
    fn eval(&self, i: u64, out: &mut Out) {
        let (label, zone) = &self.zones[i as usize];
        let p = SynthProvider { name: "Extreme/Zone", zone };
        out.nontrivial += 1;
        let mut instants = vec![0i128, tmc_ref::r1::MAX_INSTANT_NS, -tmc_ref::r1::MAX_INSTANT_NS];
        for (t, _) in &zone.trans {
            instants.extend([*t - 1, *t, *t + 1, *t - 3_600_000_000_000, *t + 86_400_000_000_000]);
        }
        instants.retain(|t| t.abs() <= tmc_ref::r1::MAX_INSTANT_NS);
        instants.truncate(12);
        drive(out, &p, "Extreme/Zone", label, &instants);
        out.sample(json!({"rule_set": label}));
    }
}

pub fn spaces(_env: &Env) -> Vec<Box<dyn Space>> {
    const S: i128 = 1_000_000_000;
    let t0 = 1_615_708_800i128 * S; // 2021-03-14T08:00Z
    let m = tmc_ref::r1::MAX_INSTANT_NS;
    let zones = vec![
        ("offset +26h, no transition".to_string(), Zone { initial: 26 * 3600, trans: vec![] }),
        ("offset -26h, no transition".to_string(), Zone { initial: -26 * 3600, trans: vec![] }),
        ("transitions one second apart".to_string(), Zone { initial: 0, trans: vec![(t0, 3600), (t0 + S, 0), (t0 + 2 * S, 3600)] }),
        ("24 h gap".to_string(), Zone { initial: -12 * 3600, trans: vec![(t0, 12 * 3600)] }),
        ("24 h overlap".to_string(), Zone { initial: 12 * 3600, trans: vec![(t0, -12 * 3600)] }),
        ("48 h gap".to_string(), Zone { initial: -24 * 3600, trans: vec![(t0, 24 * 3600)] }),
        ("transition at the epoch".to_string(), Zone { initial: 3600, trans: vec![(0, 7200)] }),
        ("transition at the upper range end".to_string(), Zone { initial: 0, trans: vec![(m, 3600)] }),
        ("transition at the lower range end".to_string(), Zone { initial: 0, trans: vec![(-m, 3600)] }),
        ("sub-second offsets are not representable; offset of one second".to_string(), Zone { initial: 1, trans: vec![(t0, -1)] }),
        ("four transitions within a day".to_string(), Zone { initial: 0, trans: vec![(t0, 3600), (t0 + 6 * 3600 * S, 7200), (t0 + 12 * 3600 * S, -3600), (t0 + 18 * 3600 * S, 0)] }),
    ];
    vec![Box::new(HostileProviders), Box::new(ExtremeZones { zones })]
}

//! C03 (c): every byte string up to a length over a 40-symbol byte alphabet (incl. invalid UTF-8)
//! for every parsing entry point.

use crate::checks::c12::{implementation, GOALS};
use crate::engine::*;
use serde_json::json;
use temporal_rs::{Calendar, MonthCode};

const SYMBOLS: [&[u8]; 40] = [
    b"0", b"1", b"2", b"5", b"9", b"+", b"-", "\u{2212}".as_bytes(), b":", b".", b",", b"T", b"t", b"Z", b"z", b"P", b"p", b"Y", b"M", b"W", b"D", b"H", b"S", b"[", b"]", b"!", b"=", b"/", b"_", b"u", b"c", b"a", b"L", b"-ca", b" ", b"\0", b"\x80", b"\xff", "\u{e9}".as_bytes(), b"8",
];

pub struct ByteStrings {
    pub max_len: u32,
}

impl ByteStrings {
    fn bytes(&self, mut i: u64) -> Vec<u8> {
        let n = SYMBOLS.len() as u64;
        let mut len = 0u32;
        loop {
            let c = n.pow(len);
            if i < c {
                break;
            }
            i -= c;
            len += 1;
        }
        let mut parts = vec![0usize; len as usize];
        for k in (0..len as usize).rev() {
            parts[k] = (i % n) as usize;
            i /= n;
        }
        parts.into_iter().flat_map(|k| SYMBOLS[k].iter().copied()).collect()
    }
}

impl Space for ByteStrings {
    fn name(&self) -> String {
        format!("c03.byte_strings_le{}", self.max_len)
    }
    fn len(&self) -> u64 {
        (0..=self.max_len).map(|l| (SYMBOLS.len() as u64).pow(l)).sum()
    }
    fn block(&self) -> u64 {
        2048
    }
    fn eval(&self, i: u64, out: &mut Out) {
        let b = self.bytes(i);
        let attrs = |entry: &str| vec![("entry", entry.to_string()), ("bytes", format!("{:?}", String::from_utf8_lossy(&b))), ("hex", b.iter().map(|x| format!("{x:02x}")).collect::<String>())];
        if b.iter().any(|x| *x >= 0x80 || *x == 0) {
            out.nontrivial += 1;
        }
        // byte-slice entry points
        let got = call(|| Calendar::from_utf8(&b).map(|c| c.identifier().to_string()));
        out.lockstep("Calendar::from_utf8", &Ok(String::new()), &got, |_, _| true, || attrs("Calendar::from_utf8"));
        let got = call(|| MonthCode::try_from_utf8(&b).map(|c| (c.to_month_integer(), c.is_leap_month(), c.as_str().to_string())));
        out.lockstep("MonthCode::try_from_utf8", &Ok((0u8, false, String::new())), &got, |_, _| true, || attrs("MonthCode::try_from_utf8"));
        let got = call(|| temporal_capi::calendar::ffi::Calendar::from_utf8(&b).map(|_| ()).map_err(|_| temporal_rs::TemporalError::range()));
        out.lockstep("capi Calendar::from_utf8", &Ok(()), &got, |_, _| true, || attrs("capi Calendar::from_utf8"));
        // string entry points
        if let Ok(s) = std::str::from_utf8(&b) {
            for g in GOALS {
                let got = implementation(g, s);
                out.lockstep("parse", &Ok(String::new()), &got, |_, _| true, || {
                    let mut v = attrs("from_str");
                    v.push(("goal", format!("{g:?}")));
                    v
                });
            }
        }
        if out.want_sample() && i % 4099 == 0 {
            out.sample(json!({"hex": b.iter().map(|x| format!("{x:02x}")).collect::<String>()}));
        }
    }
    fn describe(&self) -> serde_json::Value {
        json!({"symbols": SYMBOLS.iter().map(|s| String::from_utf8_lossy(s).into_owned()).collect::<Vec<_>>(), "max_symbols": self.max_len, "entry_points": 14 + 3})
    }
}

pub fn spaces(env: &Env) -> Vec<Box<dyn Space>> {
    vec![Box::new(ByteStrings { max_len: if env.tier == Tier::Quick { 3 } else { 4 } })]
}

//! C14 — ZonedDateTime arithmetic is wall-clock for dates, exact for times.

use crate::checks::c04::DurCase;
use crate::checks::c13::{split_local, synth_zones, tz, ZoneCase, ZONE_NAME};
use crate::conv::*;
use crate::engine::*;
use crate::imp::*;
use crate::providers::SynthProvider;
use serde_json::json;
use temporal_rs::error::ErrorKind;
use temporal_rs::options::{ArithmeticOverflow, RelativeTo, Unit};
use temporal_rs::{Calendar, ZonedDateTime};
use tmc_ref::r1::*;
use tmc_ref::r2::{DUnit, DateDur, Overflow};
use tmc_ref::r3::{self, NS_PER_DAY};
use tmc_ref::r6::*;

fn zones(tier: Tier) -> Vec<ZoneCase> {
    // gaps/overlaps up to 2 h (the +-3 h probe of gap resolution is C13's known finding) plus the
    // date-line shapes (+-24 h)
    let mut v: Vec<ZoneCase> = synth_zones(tier).into_iter().filter(|z| z.delta.abs() <= 7200 || z.delta.abs() == 86_400).filter(|z| !(z.zone.trans.len() > 1 && z.zone.trans[1].0 - z.zone.trans[0].0 < NS_PER_DAY)).collect();
    // fixed-offset zones (resolved by the library itself, no provider involved): the same products
    for off in [19_800i64, -12_600, 0, -86_340, 50_400] {
        v.push(ZoneCase { zone: Zone { initial: off, trans: vec![] }, t: 0, base: off, delta: 0, desc: format!("fixed offset {}", tmc_ref::r8f::offset_text(off)) });
    }
    v
}

fn fixed_text(zc: &ZoneCase) -> Option<&str> {
    zc.desc.strip_prefix("fixed offset ")
}

fn instants(zc: &ZoneCase) -> Vec<i128> {
    let h = 3600 * NS;
    let mut v = vec![];
    if zc.zone.trans.is_empty() {
        // receivers with pairwise distinct millisecond / microsecond / nanosecond digits, exact days apart and not
        for base in [1_614_834_367_123_456_789i128, -86_399_999_998_997_996, 1_582_934_400_000_000_001] {
            for o in [0, NS_PER_DAY, 2 * NS_PER_DAY, -NS_PER_DAY, 31 * NS_PER_DAY + h, 366 * NS_PER_DAY - 1] {
                v.push(base + o);
            }
        }
    }
    for (t, _) in &zc.zone.trans {
        for o in [0, -1, 1, -h, h, -23 * h, 23 * h, -25 * h, 25 * h, -31 * NS_PER_DAY, 31 * NS_PER_DAY] {
            v.push(t + o);
        }
        // local midnights around the transition
        let l = zc.zone.local_of(*t);
        let mid = l.div_euclid(NS_PER_DAY) * NS_PER_DAY;
        for k in [-1i128, 0, 1, 2] {
            if let Ok(x) = zc.zone.resolve(mid + k * NS_PER_DAY, Disamb::Compatible) {
                v.push(x);
                v.push(x + 12 * h + 34 * 60 * NS + 56_789_000_123);
            }
        }
    }
    v.sort();
    v.dedup();
    v
}

fn zdt_in(zc: &ZoneCase, t: i128) -> ZonedDateTime {
    let zone = match fixed_text(zc) {
        Some(text) => temporal_rs::TimeZone::try_from_str(text).expect("offset zone"),
        None => tz(),
    };
    ZonedDateTime::try_new(t, Calendar::default(), zone).expect("zdt")
}

fn local_text(zc: &ZoneCase, t: i128) -> String {
    let (d, tod) = split_local(zc.zone.local_of(t));
    let (y, m, dd) = civil_from_days(d);
    let f = tod_fields(tod);
    format!("{y:04}-{m:02}-{dd:02}T{:02}:{:02}:{:02}.{:03}{:03}{:03}{:+}s", f.0, f.1, f.2, f.3, f.4, f.5, zc.zone.offset_at(t))
}

const LARGEST: [(&str, Option<Unit>, Option<DUnit>, r3::TUnit); 9] = [
    ("year", Some(Unit::Year), Some(DUnit::Year), r3::T_HOUR),
    ("month", Some(Unit::Month), Some(DUnit::Month), r3::T_HOUR),
    ("week", Some(Unit::Week), Some(DUnit::Week), r3::T_HOUR),
    ("day", Some(Unit::Day), Some(DUnit::Day), r3::T_HOUR),
    ("hour", Some(Unit::Hour), None, r3::T_HOUR),
    ("second", Some(Unit::Second), None, r3::T_SECOND),
    ("nanosecond", Some(Unit::Nanosecond), None, r3::T_NS),
    ("auto", Some(Unit::Auto), None, r3::T_HOUR),
    ("absent", None, None, r3::T_HOUR),
];

struct Pairs {
    zones: Vec<ZoneCase>,
    np: usize,
}

impl Space for Pairs {
    fn name(&self) -> String {
        "c14.difference_pairs".into()
    }
    fn len(&self) -> u64 {
        (self.zones.len() * self.np * self.np) as u64
    }
    fn block(&self) -> u64 {
        64
    }
    fn eval(&self, i: u64, out: &mut Out) {
        let np = self.np as u64;
        let zc = &self.zones[(i / (np * np)) as usize];
        let pts = instants(zc);
        let (ia, ib) = (((i / np) % np) as usize, (i % np) as usize);
        if ia >= pts.len() || ib >= pts.len() {
            return;
        }
        let (a, b) = (pts[ia], pts[ib]);
        let prov = SynthProvider { name: ZONE_NAME, zone: &zc.zone };
        let (za, zb) = (zdt_in(zc, a), zdt_in(zc, b));
        let crosses = zc.zone.offset_at(a) != zc.zone.offset_at(b);
        if crosses {
            out.nontrivial += 1;
        }
        for (uname, ui, dl, tl) in LARGEST {
            let attrs = || {
                vec![
                    ("zone", zc.desc.clone()),
                    ("a", local_text(zc, a)),
                    ("b", local_text(zc, b)),
                    ("largest", uname.to_string()),
                    ("crosses_transition", crosses.to_string()),
                    ("change_size", zc.gap_class().to_string()), ("day_probe", zc.day_probe().to_string()),
                ]
            };
            // the inverse law is only judged where the specification's own algorithm satisfies it (it
            // does not when the receiver sits in the later copy of a repeated wall-clock time)
            let mut model_round_trips = true;
            let model: Result<[f64; 10], ErrorKind> = match dl {
                None => Ok(balanced_fields(b - a, tl)),
                Some(du) => match zc.zone.diff_zoned(a, b, du) {
                    Ok((dd, time)) => {
                        // the specification's algorithm can pair a date part and a time part of opposite
                        // signs when the local date runs backwards between the two instants: not judged
                        if dd.sign() as i128 * time.signum() < 0 {
                            out.unjudged += 1;
                            continue;
                        }
                        model_round_trips = zc.zone.add_zoned(a, dd, time, Overflow::Constrain) == Ok(b);
                        let t = r3::balance(time, r3::T_HOUR);
                        Ok([dd.years as f64, dd.months as f64, dd.weeks as f64, dd.days as f64, t[1] as f64, t[2] as f64, t[3] as f64, t[4] as f64, t[5] as f64, t[6] as f64])
                    }
                    Err(()) => {
                        out.unjudged += 1;
                        continue;
                    }
                },
            };
            if let Ok(f) = &model {
                if f.iter().any(|x| x.abs() >= 9007199254740992.0) {
                    out.unjudged += 1;
                    continue;
                }
            }
            let u = call(|| za.until_with_provider(&zb, diff(ui, None, None, None), &prov));
            let ok = out.lockstep("ZonedDateTime::until", &model, &u, |m, v| dur_fields(v) == *m, attrs);
            let s = call(|| za.since_with_provider(&zb, diff(ui, None, None, None), &prov));
            out.lockstep("ZonedDateTime::since", &model.map(|f| f.map(|x| if x == 0.0 { 0.0 } else { -x })), &s, |m, v| dur_fields(v) == *m, attrs);
            if let (true, Oc::Ok(d)) = (ok, &u) {
                // laws: add maps the receiver exactly onto the other instant; sign-uniform; time part shorter than the local day
                if model_round_trips {
                    let back = call(|| za.add_with_provider(d, None, &prov));
                    out.lockstep("a.add(a.until(b))", &Ok(b), &back, |m, v| v.epoch_nanoseconds().as_i128() == *m, attrs);
                } else {
                    out.count("inverse_law_unjudged_spec_does_not_round_trip", 1);
                }
                let f = dur_fields(d);
                out.law("sign-uniform", !(f.iter().any(|x| *x > 0.0) && f.iter().any(|x| *x < 0.0)), attrs);
                if dl.is_some() {
                    let t = r3::time_total_ns(&f);
                    out.law("|time part| <= longest local day", t.abs() <= NS_PER_DAY + zc.delta.abs() as i128 * NS, attrs);
                }
            }
        }
        if out.want_sample() && crosses && a < b {
            out.sample(json!({"zone": zc.desc, "a": local_text(zc, a), "b": local_text(zc, b), "model_until_day": format!("{:?}", zc.zone.diff_zoned(a, b, DUnit::Day))}));
        }
    }
    fn describe(&self) -> serde_json::Value {
        json!({"rule_sets": self.zones.len(), "instants_per_rule_set_max": self.np, "pairs": "all ordered pairs", "largest_units": LARGEST.len(), "ops": ["until", "since", "add (inverse law)"]})
    }
}

struct Adds {
    zones: Vec<ZoneCase>,
    np: usize,
    durs: Vec<DurCase>,
}

fn add_durations() -> Vec<DurCase> {
    let h = 3_600_000_000_000i128;
    let mut v = vec![];
    for sign in [1i64, -1] {
        for (y, m, w, d, t) in [
            (0, 0, 0, 1, 0i128),
            (0, 1, 0, 0, 0),
            (1, 0, 0, 0, 0),
            (0, 0, 1, 0, 0),
            (0, 0, 0, 0, h),
            (0, 0, 0, 0, 24 * h),
            (0, 0, 0, 1, h),
            (0, 0, 0, 1, 24 * h),
            (0, 1, 0, 1, 25 * h),
            (0, 0, 0, 0, 1),
            (0, 0, 0, 2, 0),
            (0, 0, 0, 31, 0),
            (0, 0, 0, 0, 48 * h + 1),
        ] {
            if let Some(c) = DurCase::new(sign * y, sign * m, sign * w, sign * d, sign as i128 * t) {
                v.push(c);
            }
        }
    }
    v
}

impl Space for Adds {
    fn name(&self) -> String {
        "c14.add_and_day_functions".into()
    }
    fn len(&self) -> u64 {
        (self.zones.len() * self.np) as u64
    }
    fn block(&self) -> u64 {
        16
    }
    fn eval(&self, i: u64, out: &mut Out) {
        let zc = &self.zones[(i / self.np as u64) as usize];
        let pts = instants(zc);
        let p = (i % self.np as u64) as usize;
        if p >= pts.len() {
            return;
        }
        let t = pts[p];
        let prov = SynthProvider { name: ZONE_NAME, zone: &zc.zone };
        let z = zdt_in(zc, t);
        out.nontrivial += 1;
        let me = |r: Result<i128, ()>| r.map_err(|_| ErrorKind::Range);
        for d in &self.durs {
            for (ovn, ovm, ovi) in [("constrain", Overflow::Constrain, Some(ArithmeticOverflow::Constrain)), ("reject", Overflow::Reject, Some(ArithmeticOverflow::Reject)), ("absent", Overflow::Constrain, None)] {
                let attrs = || {
                    vec![
                        ("zone", zc.desc.clone()),
                        ("receiver", local_text(zc, t)),
                        ("duration", d.text()),
                        ("overflow", ovn.to_string()),
                        ("has_date_part", (d.date != DateDur::default()).to_string()),
                        ("time_at_least_24h", (d.time_ns.abs() >= NS_PER_DAY).to_string()),
                        ("change_size", zc.gap_class().to_string()), ("day_probe", zc.day_probe().to_string()),
                    ]
                };
                let model = me(zc.zone.add_zoned(t, d.date, d.time_ns, ovm));
                let got = call(|| z.add_with_provider(&d.imp, ovi, &prov));
                out.lockstep("ZonedDateTime::add", &model, &got, |m, v| v.epoch_nanoseconds().as_i128() == *m, attrs);
                let model = me(zc.zone.add_zoned(t, d.date.neg(), -d.time_ns, ovm));
                let got = call(|| z.subtract_with_provider(&d.imp, ovi, &prov));
                out.lockstep("ZonedDateTime::subtract", &model, &got, |m, v| v.epoch_nanoseconds().as_i128() == *m, attrs);
            }
        }
        // order matters across a transition: date unit then time unit vs. combined duration
        {
            let one_day = DurCase::new(0, 0, 0, 1, 0).unwrap();
            let one_hour = DurCase::new(0, 0, 0, 0, 3_600_000_000_000).unwrap();
            let both = DurCase::new(0, 0, 0, 1, 3_600_000_000_000).unwrap();
            let attrs = || vec![("zone", zc.desc.clone()), ("receiver", local_text(zc, t)), ("change_size", zc.gap_class().to_string()), ("day_probe", zc.day_probe().to_string())];
            let a = call(|| z.add_with_provider(&one_day.imp, None, &prov)?.add_with_provider(&one_hour.imp, None, &prov));
            let b = call(|| z.add_with_provider(&both.imp, None, &prov));
            if let (Oc::Ok(a), Oc::Ok(b)) = (&a, &b) {
                out.law("add(P1D).add(PT1H) = add(P1DT1H)", a.epoch_nanoseconds() == b.epoch_nanoseconds(), attrs);
            }
        }
        // start of day, hours in day, with_plain_time
        let attrs = || vec![("zone", zc.desc.clone()), ("receiver", local_text(zc, t)), ("change_size", zc.gap_class().to_string()), ("day_probe", zc.day_probe().to_string()), ("day_length_h", format!("{:?}", zc.zone.day_length(t).map(|x| x as f64 / 3.6e12)))];
        if let Some(sod) = zc.zone.start_of_day_of(t) {
            let midnight_skipped = zc.zone.candidates(zc.zone.local_of(t).div_euclid(NS_PER_DAY) * NS_PER_DAY).is_empty();
            let got = call(|| z.start_of_day_with_provider(&prov));
            out.lockstep("start_of_day", &Ok(sod), &got, |m, v| v.epoch_nanoseconds().as_i128() == *m, || {
                let mut a = attrs();
                a.push(("midnight_skipped", midnight_skipped.to_string()));
                a
            });
            // the other public route to the first instant of a day: the receiver's date converted without a time
            let midnight = zc.zone.local_of(t).div_euclid(NS_PER_DAY) * NS_PER_DAY;
            if zc.zone.date_is_contiguous(midnight) {
                let zone = z.timezone().clone();
                let got = call(|| z.to_plain_date_with_provider(&prov)?.to_zoned_date_time_with_provider(zone.clone(), None, &prov));
                out.lockstep("to_plain_date().to_zoned_date_time(no time) = start of day", &Ok(sod), &got, |m, v| v.epoch_nanoseconds().as_i128() == *m, || {
                    let mut a = attrs();
                    a.push(("midnight_skipped", midnight_skipped.to_string()));
                    a
                });
            }
        }
        if let Some(len) = zc.zone.day_length(t) {
            if len % (3600 * NS) == 0 && len > 0 && len / (3600 * NS) < 256 {
                let got = call(|| z.hours_in_day_with_provider(&prov));
                out.lockstep("hours_in_day", &Ok((len / (3600 * NS)) as u8), &got, |a, b| a == b, attrs);
            } else {
                out.unjudged += 1;
            }
        }
        for tod in [0i128, 2 * 3600 * NS + 30 * 60 * NS, 12 * 3600 * NS, NS_PER_DAY - 1] {
            let (day, _) = split_local(zc.zone.local_of(t));
            let local = day as i128 * NS_PER_DAY + tod;
            if zc.zone.candidates(local).is_empty() && zc.delta.abs() > 3 * 3600 {
                continue; // C13's known finding (gap probe)
            }
            let model = me(zc.zone.resolve(local, Disamb::Compatible));
            let got = call(|| z.with_plain_time_and_provider(plain_time(tod)?, &prov));
            out.lockstep("with_plain_time", &model, &got, |m, v| v.epoch_nanoseconds().as_i128() == *m, || {
                let mut a = attrs();
                a.push(("time_of_day_ns", tod.to_string()));
                a
            });
        }
        // with_plain_time with the receiver's own time of day: resolved again (the earlier of a repeated time)
        {
            let local = zc.zone.local_of(t);
            let (_, tod) = split_local(local);
            if !(zc.zone.candidates(local).is_empty() && zc.delta.abs() > 3 * 3600) {
                let model = me(zc.zone.resolve(local, Disamb::Compatible));
                let got = call(|| z.with_plain_time_and_provider(plain_time(tod)?, &prov));
                out.lockstep("with_plain_time(own time of day)", &model, &got, |m, v| v.epoch_nanoseconds().as_i128() == *m, || {
                    let mut a = attrs();
                    a.push(("receiver_is_the_later_of_a_repeated_time", (zc.zone.candidates(local).len() > 1 && zc.zone.candidates(local)[0] != t).to_string()));
                    a
                });
            }
        }
        // Duration::compare relative to a zoned date-time: order of the instants the durations lead to
        let h = 3_600_000_000_000i128;
        let extra: Vec<DurCase> = [(2i64, 0i128), (1, 23 * h + 1_800_000_000_000), (1, 23 * h), (1, 24 * h + 1_800_000_000_000), (1, 25 * h), (-2, 0), (-1, -23 * h - 1_800_000_000_000), (-1, -25 * h), (3, 0), (2, 23 * h)].iter().filter_map(|(d, tns)| DurCase::new(0, 0, 0, *d, *tns)).collect();
        for a_ix in 0..extra.len() {
            for b_ix in 0..extra.len() {
                let (x, y) = (&extra[a_ix], &extra[b_ix]);
                if (x.date.days < 0) != (y.date.days < 0) {
                    continue;
                }
                let (mx, my) = (zc.zone.add_zoned(t, x.date, x.time_ns, Overflow::Constrain), zc.zone.add_zoned(t, y.date, y.time_ns, Overflow::Constrain));
                if let (Ok(mx), Ok(my)) = (mx, my) {
                    let got = call(|| x.imp.compare_with_provider(&y.imp, Some(RelativeTo::ZonedDateTime(z.clone())), &prov));
                    out.lockstep("Duration::compare(relativeTo zoned, both led by days)", &Ok(mx.cmp(&my)), &got, |a, b| a == b, || vec![("zone", zc.desc.clone()), ("receiver", local_text(zc, t)), ("d1", x.text()), ("d2", y.text()), ("day_probe", zc.day_probe().to_string())]);
                }
            }
        }
        for (d1, d2) in [(0usize, 5usize), (6, 7), (0, 4), (1, 11)] {
            let (x, y) = (&self.durs[d1], &self.durs[d2]);
            let (mx, my) = (zc.zone.add_zoned(t, x.date, x.time_ns, Overflow::Constrain), zc.zone.add_zoned(t, y.date, y.time_ns, Overflow::Constrain));
            if let (Ok(mx), Ok(my)) = (mx, my) {
                let got = call(|| x.imp.compare_with_provider(&y.imp, Some(RelativeTo::ZonedDateTime(z.clone())), &prov));
                out.lockstep("Duration::compare(relativeTo zoned)", &Ok(mx.cmp(&my)), &got, |a, b| a == b, || vec![("zone", zc.desc.clone()), ("receiver", local_text(zc, t)), ("d1", x.text()), ("d2", y.text()), ("day_probe", zc.day_probe().to_string())]);
            }
        }
        if out.want_sample() && zc.zone.day_length(t).map(|l| l != NS_PER_DAY).unwrap_or(false) {
            out.sample(json!({"zone": zc.desc, "instant": local_text(zc, t), "model_day_length_h": zc.zone.day_length(t).map(|x| x as f64 / 3.6e12), "model_start_of_day": zc.zone.start_of_day_of(t).map(|x| local_text(zc, x))}));
        }
    }
    fn describe(&self) -> serde_json::Value {
        json!({"rule_sets": self.zones.len(), "instants_per_rule_set_max": self.np, "durations": self.durs.len(), "overflow": 3})
    }
}

/// Rounded differences of zoned date-times and Duration round / total relative to a zoned
/// date-time, against DifferenceZonedDateTimeWithRounding transcribed over the zone model (r5z).
struct ZonedRounding {
    zones: Vec<ZoneCase>,
    np: usize,
}

const ROUND_CELLS: [(usize, usize, i64); 14] = [(0, 0, 1), (0, 1, 1), (1, 1, 1), (1, 3, 1), (2, 2, 1), (2, 3, 1), (3, 3, 1), (3, 3, 2), (3, 4, 1), (3, 4, 12), (3, 5, 30), (0, 4, 1), (4, 4, 1), (4, 5, 15)];

fn rel_durations() -> Vec<[i64; 10]> {
    let mut v = vec![];
    for f in [
        [0, 0, 0, 1, 0, 0, 0, 0, 0, 0],
        [0, 0, 0, 0, 12, 0, 0, 0, 0, 0],
        [0, 0, 0, 0, 23, 0, 0, 0, 0, 0],
        [0, 0, 0, 0, 24, 0, 0, 0, 0, 0],
        [0, 0, 0, 0, 25, 0, 0, 0, 0, 0],
        [0, 0, 0, 1, 12, 0, 0, 0, 0, 0],
        [0, 0, 0, 0, 36, 30, 0, 0, 0, 1],
        [0, 1, 0, 0, 0, 0, 0, 0, 0, 0],
        [0, 1, 0, 15, 11, 0, 0, 0, 0, 0],
        [1, 0, 0, 0, 0, 0, 0, 0, 0, 0],
        [0, 0, 1, 3, 11, 59, 59, 999, 999, 999],
        [0, 0, 0, 0, 0, 90, 0, 0, 0, 0],
    ] {
        v.push(f);
        v.push(f.map(|x: i64| -x));
    }
    v
}

impl Space for ZonedRounding {
    fn name(&self) -> String {
        "c14.zoned_rounding".into()
    }
    fn len(&self) -> u64 {
        (self.zones.len() * self.np) as u64
    }
    fn block(&self) -> u64 {
        4
    }
    fn eval(&self, i: u64, out: &mut Out) {
        use tmc_ref::r4::Mode as RMode;
        use tmc_ref::r5::DErr;
        use tmc_ref::r5z;
        let zc = &self.zones[i as usize / self.np];
        let pts = instants(zc);
        let ia = i as usize % self.np;
        if ia >= pts.len() {
            return;
        }
        let a = pts[ia];
        let prov = SynthProvider { name: ZONE_NAME, zone: &zc.zone };
        let za = zdt_in(zc, a);
        let modes = [RMode::Trunc, RMode::Ceil, RMode::Floor, RMode::HalfExpand, RMode::HalfEven];
        let em = |e: DErr| match e {
            DErr::Range => ErrorKind::Range,
            DErr::SpecAssert => ErrorKind::Assert,
        };
        // rounded until / since against every other instant of the rule set
        for b in pts.iter().step_by(3) {
            let crosses = zc.zone.offset_at(a) != zc.zone.offset_at(*b);
            let zb = zdt_in(zc, *b);
            for (largest, smallest, inc) in ROUND_CELLS {
                for mode in modes {
                    let attrs = || vec![("zone", zc.desc.clone()), ("a", local_text(zc, a)), ("b", local_text(zc, *b)), ("largest", largest.to_string()), ("smallest", smallest.to_string()), ("increment", inc.to_string()), ("mode", mode.name().to_string()), ("crosses_transition", crosses.to_string()), ("change_size", zc.gap_class().to_string()), ("day_probe", zc.day_probe().to_string())];
                    let model = r5z::until_zoned(&zc.zone, a, *b, largest, inc, smallest, mode).map_err(em);
                    if model == Err(ErrorKind::Assert) {
                        out.unjudged += 1;
                        continue;
                    }
                    if crosses && smallest >= 3 {
                        out.nontrivial += 1;
                    }
                    let settings = diff(Some(ALL_UNITS[largest]), Some(ALL_UNITS[smallest]), Some(imode(mode)), Some(inc as u32));
                    let got = call(|| za.until_with_provider(&zb, settings, &prov));
                    out.lockstep("ZonedDateTime::until(rounded)", &model, &got, |m, x| dur_i128(x) == *m, attrs);
                    let model_since = r5z::until_zoned(&zc.zone, a, *b, largest, inc, smallest, mode.negate()).map(|f| f.map(|x| -x)).map_err(em);
                    if model_since != Err(ErrorKind::Assert) {
                        let got = call(|| za.since_with_provider(&zb, settings, &prov));
                        out.lockstep("ZonedDateTime::since(rounded)", &model_since, &got, |m, x| dur_i128(x) == *m, attrs);
                    }
                }
            }
        }
        // Duration round / total relative to this zoned date-time
        for f in rel_durations() {
            let ff = f.map(|x| x as f64);
            let Ok(d) = dur10(ff) else { continue };
            for (largest, smallest, inc) in ROUND_CELLS {
                for mode in modes {
                    let attrs = || vec![("zone", zc.desc.clone()), ("relative_to", local_text(zc, a)), ("duration", format!("{f:?}")), ("largest", largest.to_string()), ("smallest", smallest.to_string()), ("increment", inc.to_string()), ("mode", mode.name().to_string()), ("change_size", zc.gap_class().to_string()), ("day_probe", zc.day_probe().to_string())];
                    let model = r5z::round_relative_zoned(&zc.zone, &ff, a, largest, inc, smallest, mode).map_err(em);
                    if model == Err(ErrorKind::Assert) {
                        out.unjudged += 1;
                        continue;
                    }
                    let got = call(|| d.round_with_provider(round_opts(Some(ALL_UNITS[largest]), Some(ALL_UNITS[smallest]), Some(imode(mode)), Some(inc as u32)), Some(RelativeTo::ZonedDateTime(za.clone())), &prov));
                    out.lockstep("Duration::round(relativeTo zoned)", &model, &got, |m, x| dur_i128(x) == *m, attrs);
                }
            }
            for unit in 0..10usize {
                let attrs = || vec![("zone", zc.desc.clone()), ("relative_to", local_text(zc, a)), ("duration", format!("{f:?}")), ("unit", unit.to_string()), ("change_size", zc.gap_class().to_string()), ("day_probe", zc.day_probe().to_string())];
                match r5z::total_relative_zoned(&zc.zone, &ff, a, unit) {
                    Err(DErr::SpecAssert) => out.unjudged += 1,
                    Err(DErr::Range) => {
                        let got = call(|| d.total_with_provider(ALL_UNITS[unit], Some(RelativeTo::ZonedDateTime(za.clone())), &prov));
                        out.lockstep("Duration::total(relativeTo zoned)", &Err::<(i128, i128), _>(ErrorKind::Range), &got, |_, _| false, attrs);
                    }
                    Ok((num, den)) => {
                        let got = call(|| d.total_with_provider(ALL_UNITS[unit], Some(RelativeTo::ZonedDateTime(za.clone())), &prov));
                        out.lockstep("Duration::total(relativeTo zoned)", &Ok((num, den)), &got, |m, x| tmc_ref::r5::close_to_rational(x.as_inner(), m.0, m.1), attrs);
                    }
                }
            }
        }
        if out.want_sample() && ia == 0 {
            out.sample(json!({"zone": zc.desc, "relative_to": local_text(zc, a), "cells": ROUND_CELLS.len(), "durations": rel_durations().len()}));
        }
    }
    fn describe(&self) -> serde_json::Value {
        json!({"rule_sets": self.zones.len(), "instants_per_rule_set_max": self.np, "option_cells (largest, smallest, increment)": ROUND_CELLS.iter().map(|c| format!("{c:?}")).collect::<Vec<_>>(), "modes": 5, "durations": rel_durations().len()})
    }
}

pub fn spaces(env: &Env) -> Vec<Box<dyn Space>> {
    let zs = zones(env.tier);
    let np = zs.iter().map(|z| instants(z).len()).max().unwrap_or(0);
    vec![Box::new(Adds { zones: zs.clone(), np, durs: add_durations() }), Box::new(Pairs { zones: zs.clone(), np }), Box::new(ZonedRounding { zones: zs, np }), Box::new(crate::checks::realzones::RealZones::new("c14", env.tier))]
}

pub fn run(env: &Env) -> i32 {
    let mut rep = Report::new(
        env,
        "model_checking",
        "generated rule sets (changes up to 2 h and +-24 h date-line jumps) x instants at and around each transition (+-1 ns, 1 h, 23 h, 25 h, 31 d, local midnights) : all ordered pairs x until/since x 9 largest units with the inverse law through add; instants x 26 durations x 3 overflow settings for add/subtract; start of day, hours in day, with_plain_time, Duration::compare relative to a zoned date-time; a pair is non-trivial when the two instants have different offsets",
    );
    rep.assumptions.push("R6: AddZonedDateTime / DifferenceZonedDateTime transcribed from the specification over the brute-force zone model; hours in day compared where the day length is a whole number of hours".into());
    for s in spaces(env) {
        rep.run(s.as_ref());
    }
    rep.finish()
}

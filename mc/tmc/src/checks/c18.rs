//! C18 — year-months and month-days are canonical and count whole months.

use crate::engine::*;
use crate::imp::*;
use serde_json::json;
use std::str::FromStr;
use temporal_rs::error::ErrorKind;
use temporal_rs::options::{ArithmeticOverflow, DisplayCalendar, Unit};
use temporal_rs::partial::PartialDate;
use temporal_rs::{Calendar, MonthCode, PlainMonthDay, PlainYearMonth, TemporalResult};
use tmc_ref::r1::*;
use tmc_ref::r10::year_month_in_limits;
use tmc_ref::r2::*;

fn years(tier: Tier) -> Vec<i64> {
    let mut v: Vec<i64> = vec![-271_822, -271_821, -271_820, -10_000, -1, 0, 1, 1972, 2019, 2020, 2021, 2024, 9_999, 10_000, 275_759, 275_760, 275_761];
    match tier {
        Tier::Quick => v.extend(1995..=2030),
        Tier::Thorough => {
            v.extend(1582..=2400);
            v.extend((-271_821..=275_760).step_by(997));
        }
    }
    v.sort();
    v.dedup();
    v
}

fn year_text(y: i64) -> String {
    if (0..=9999).contains(&y) {
        format!("{y:04}")
    } else {
        format!("{}{:06}", if y < 0 { '-' } else { '+' }, y.abs())
    }
}

fn ym_ctor(y: i64, m: u8, ref_day: Option<u8>, ov: ArithmeticOverflow) -> TemporalResult<PlainYearMonth> {
    PlainYearMonth::new_with_overflow(y as i32, m, ref_day, Calendar::default(), ov)
}

const DISPLAYS: [DisplayCalendar; 4] = [DisplayCalendar::Auto, DisplayCalendar::Always, DisplayCalendar::Never, DisplayCalendar::Critical];

fn snapshot(v: &PlainYearMonth) -> (i64, u8, Vec<String>) {
    (v.year() as i64, v.month(), DISPLAYS.iter().map(|d| v.to_ixdtf_string(*d)).collect())
}

/// Every construction route for one (year, month): all must agree with the canonical value.
struct YmRoutes {
    years: Vec<i64>,
}
impl Space for YmRoutes {
    fn name(&self) -> String {
        "c18.year_month_routes".into()
    }
    fn len(&self) -> u64 {
        (self.years.len() * 14) as u64
    }
    fn eval(&self, i: u64, out: &mut Out) {
        let y = self.years[(i / 14) as usize];
        let m = (i % 14) as u8; // 0 and 13 are impossible months
        let inl = year_month_in_limits(y, m);
        out.nontrivial += 1;
        let canonical = call(|| ym_ctor(y, m, None, ArithmeticOverflow::Reject));
        let base_attrs = |route: &str| vec![("year", y.to_string()), ("month", m.to_string()), ("route", route.to_string())];
        let model: Result<(), ErrorKind> = if inl { Ok(()) } else { Err(ErrorKind::Range) };
        if !out.lockstep("PlainYearMonth::new_with_overflow(reject)", &model, &canonical, |_, v| v.year() as i64 == y && v.month() == m, || base_attrs("ctor")) {
            return;
        }
        let canon = canonical.ok().cloned();
        // every getter of the year-month against the Gregorian rule
        if let Some(v) = &canon {
            let got = call_inf(|| (v.iso_year() as i64, v.iso_month(), v.month_code().as_str().to_string(), v.days_in_month(), v.days_in_year(), v.months_in_year(), v.in_leap_year(), v.era().map(|e| e.to_string()), v.era_year(), v.calendar_id().to_string(), format!("{v}")));
            let want = (y, m, format!("M{m:02}"), days_in_month(y, m) as u16, days_in_year(y), 12u16, is_leap(y), None::<String>, None::<i32>, "iso8601".to_string(), format!("{}-{m:02}", year_text(y)));
            out.lockstep("PlainYearMonth getters and Display", &Ok(format!("{want:?}")), &got.map(|x| format!("{x:?}")), |a, b| a == b, || base_attrs("getters"));
        }
        let mut routes: Vec<(String, Oc<PlainYearMonth>)> = vec![];
        if (1..=12).contains(&m) {
            let ys = year_text(y);
            // strings
            let mut texts = vec![format!("{ys}-{m:02}"), format!("{ys}{m:02}"), format!("{ys}-{m:02}[u-ca=iso8601]")];
            if y >= -271_821 && y <= 275_760 {
                for d in [1u8, 15, 28, days_in_month(y, m)] {
                    texts.push(format!("{ys}-{m:02}-{d:02}"));
                    texts.push(format!("{ys}{m:02}{d:02}"));
                    texts.push(format!("{ys}-{m:02}-{d:02}T12:34:56.789"));
                }
            }
            for t in texts {
                let r = call(|| PlainYearMonth::from_str(&t));
                routes.push((format!("from_str({t})"), r));
            }
            // from a date (every day of the month)
            for d in 1..=days_in_month(y.clamp(-271_821, 275_760), m) {
                if date_in_limits(y, m, d) {
                    let r = call(|| pd(y, m, d)?.to_plain_year_month());
                    routes.push((format!("date(day {d}).to_plain_year_month"), r));
                }
            }
            // field records
            let code = MonthCode::from_str(&format!("M{m:02}")).unwrap();
            for (name, p) in [
                ("from_partial{year,month}", PartialDate::new().with_year(Some(y as i32)).with_month(Some(m))),
                ("from_partial{year,monthCode}", PartialDate::new().with_year(Some(y as i32)).with_month_code(Some(code))),
                ("from_partial{year,month,monthCode}", PartialDate::new().with_year(Some(y as i32)).with_month(Some(m)).with_month_code(Some(code))),
                ("from_partial{year,month,day:15}", PartialDate::new().with_year(Some(y as i32)).with_month(Some(m)).with_day(Some(15))),
                ("from_partial{year,month,day:28}", PartialDate::new().with_year(Some(y as i32)).with_month(Some(m)).with_day(Some(28))),
            ] {
                for ov in [ArithmeticOverflow::Constrain, ArithmeticOverflow::Reject] {
                    let pp = p.clone();
                    routes.push((format!("{name}/{ov:?}"), call(|| PlainYearMonth::from_partial(pp, ov))));
                }
            }
            // with() from a neighbouring value
            if let Oc::Ok(other) = call(|| ym_ctor(2020, 6, None, ArithmeticOverflow::Reject)) {
                let p = PartialDate::new().with_year(Some(y as i32)).with_month(Some(m));
                routes.push(("2020-06.with{year,month}".into(), call(|| other.with(p, None))));
            }
            if let Some(c) = &canon {
                let p = PartialDate::new().with_month(Some(m));
                routes.push(("self.with{month}".into(), call(|| c.with(p, None))));
                let p = PartialDate::new().with_year(Some(y as i32));
                routes.push(("self.with{year}".into(), call(|| c.with(p, Some(ArithmeticOverflow::Reject)))));
            }
        }
        let want = canon.as_ref().map(snapshot);
        for (route, got) in routes {
            let attrs = || base_attrs(&route);
            match (&want, inl) {
                (Some(w), true) => {
                    let ok = out.lockstep("route = canonical value", &Ok(w.clone()), &got, |m, v| snapshot(v) == *m, attrs);
                    if let (true, Oc::Ok(v), Some(c)) = (ok, &got, &canon) {
                        out.law("== and compare_iso", v == c && v.compare_iso(c).is_eq(), attrs);
                    }
                }
                _ => {
                    out.lockstep("route (out of limits)", &Err::<(), _>(ErrorKind::Range), &got, |_, _| true, attrs);
                }
            }
        }
        if out.want_sample() && m == 2 && y == 2020 {
            out.sample(json!({"year": y, "month": m, "canonical_strings": want.map(|w| w.2)}));
        }
    }
    fn describe(&self) -> serde_json::Value {
        json!({"years": self.years.len(), "months": "0..=13", "routes": ["constructor", "strings (7 shapes x days)", "every day of the month via PlainDate", "field records", "with"]})
    }
}

/// Canonical text of a year-month (C11 judges the general formatter; here the canonical hidden day shows).
struct YmText {
    years: Vec<i64>,
}
impl Space for YmText {
    fn name(&self) -> String {
        "c18.year_month_text".into()
    }
    fn len(&self) -> u64 {
        (self.years.len() * 12) as u64
    }
    fn eval(&self, i: u64, out: &mut Out) {
        let y = self.years[(i / 12) as usize];
        let m = (i % 12) as u8 + 1;
        if !year_month_in_limits(y, m) {
            return;
        }
        out.nontrivial += 1;
        let Oc::Ok(v) = call(|| ym_ctor(y, m, None, ArithmeticOverflow::Reject)) else { return };
        let ys = year_text(y);
        let want = vec![format!("{ys}-{m:02}"), format!("{ys}-{m:02}-01[u-ca=iso8601]"), format!("{ys}-{m:02}"), format!("{ys}-{m:02}-01[!u-ca=iso8601]")];
        let got = call_inf(|| snapshot(&v).2);
        out.lockstep("PlainYearMonth::to_ixdtf_string", &Ok(want), &got, |a, b| a == b, || vec![("year", y.to_string()), ("month", m.to_string()), ("year_class", if y == 9999 { "9999" } else { "other" }.to_string())]);
        if out.want_sample() {
            out.sample(json!({"year": y, "month": m}));
        }
    }
}

// ---------------------------------------------------------------------------------------------

#[derive(Clone)]
struct YmDur {
    y: i64,
    mo: i64,
    w: i64,
    d: i64,
    time_ns: i128,
    imp: temporal_rs::Duration,
}

fn ym_durations() -> Vec<YmDur> {
    let mut v = vec![];
    for sign in [1i64, -1] {
        for y in [0i64, 1, 4, 547_000] {
            for mo in [0i64, 1, 11, 12, 13, 25] {
                for (w, d, t) in [(0i64, 0i64, 0i128), (1, 0, 0), (0, 1, 0), (0, 31, 0), (0, 0, 3_600_000_000_000), (0, 0, 86_400_000_000_000)] {
                    if sign == -1 && y == 0 && mo == 0 && w == 0 && d == 0 && t == 0 {
                        continue;
                    }
                    let h = (t / 3_600_000_000_000) as f64;
                    if let Ok(imp) = dur10([(sign * y) as f64, (sign * mo) as f64, (sign * w) as f64, (sign * d) as f64, sign as f64 * h, 0., 0., 0., 0., 0.].map(|x| if x == 0.0 { 0.0 } else { x })) {
                        v.push(YmDur { y: sign * y, mo: sign * mo, w: sign * w, d: sign * d, time_ns: sign as i128 * t, imp });
                    }
                }
            }
        }
    }
    v
}

struct YmArith {
    durs: Vec<YmDur>,
    years: Vec<i64>,
}
impl Space for YmArith {
    fn name(&self) -> String {
        "c18.year_month_add".into()
    }
    fn len(&self) -> u64 {
        (self.years.len() * 12 * self.durs.len()) as u64
    }
    fn block(&self) -> u64 {
        128
    }
    fn eval(&self, i: u64, out: &mut Out) {
        let nd = self.durs.len() as u64;
        let k = i / nd;
        let (y, m) = (self.years[(k / 12) as usize], (k % 12) as u8 + 1);
        let d = &self.durs[(i % nd) as usize];
        if !year_month_in_limits(y, m) {
            return;
        }
        let Oc::Ok(recv) = call(|| ym_ctor(y, m, None, ArithmeticOverflow::Reject)) else { return };
        out.nontrivial += 1;
        for (opname, sgn) in [("add", 1i64), ("subtract", -1)] {
            for ov in [ArithmeticOverflow::Constrain, ArithmeticOverflow::Reject] {
                let attrs = || {
                    vec![
                        ("year_month", format!("{y}-{m:02}")),
                        ("duration", format!("P{}Y{}M{}W{}D+{}ns", d.y, d.mo, d.w, d.d, d.time_ns)),
                        ("overflow", format!("{ov:?}")),
                        ("has_week_or_day", (d.w != 0 || d.d != 0).to_string()),
                        ("has_time", (d.time_ns != 0).to_string()),
                    ]
                };
                let got = call(|| if sgn == 1 { recv.add(&d.imp, ov) } else { recv.subtract(&d.imp, ov) });
                if d.w != 0 || d.d != 0 {
                    // week and day units must be refused
                    out.lockstep(&format!("PlainYearMonth::{opname}(weeks/days)"), &Err::<(), _>(ErrorKind::Range), &got, |_, _| true, attrs);
                    continue;
                }
                if d.time_ns.abs() >= 86_400_000_000_000 {
                    out.unjudged += 1; // whole days hidden in time units: the property does not say
                    continue;
                }
                let (ry, rm) = balance_year_month(y + sgn * d.y, m as i64 + sgn * d.mo);
                // the first of -271821-04 is not a representable date, so the specification's own
                // algorithm (date arithmetic from the first of the month) cannot reach or leave that
                // year-month although it is inside the year-month limits: not judged
                if (y, m) == (-271_821, 4) || (ry, rm) == (-271_821, 4) {
                    out.unjudged += 1;
                    continue;
                }
                let model = if year_month_in_limits(ry, rm) { Ok((ry, rm)) } else { Err(ErrorKind::Range) };
                let ok = out.lockstep(&format!("PlainYearMonth::{opname}"), &model, &got, |m, v| (v.year() as i64, v.month()) == *m, attrs);
                if let (true, Oc::Ok(v), Ok((ry, rm))) = (ok, &got, model) {
                    // the result is canonical: equal to the constructor's value, same strings
                    if let Oc::Ok(c) = call(|| ym_ctor(ry, rm, None, ArithmeticOverflow::Reject)) {
                        out.law("result is canonical", *v == c && snapshot(v) == snapshot(&c), attrs);
                    }
                }
            }
        }
        if out.want_sample() && d.mo == 13 && m == 12 {
            out.sample(json!({"year_month": format!("{y}-{m:02}"), "duration": format!("P{}Y{}M", d.y, d.mo)}));
        }
    }
    fn describe(&self) -> serde_json::Value {
        json!({"year_months": self.years.len() * 12, "durations": self.durs.len(), "overflow": 2, "ops": ["add", "subtract"]})
    }
}

/// until/since between all ordered pairs, including values built with an explicit reference day.
struct YmDiff {
    vals: Vec<(i64, u8, Option<u8>)>,
}
impl Space for YmDiff {
    fn name(&self) -> String {
        "c18.year_month_diff".into()
    }
    fn len(&self) -> u64 {
        (self.vals.len() * self.vals.len()) as u64
    }
    fn block(&self) -> u64 {
        64
    }
    fn eval(&self, i: u64, out: &mut Out) {
        let n = self.vals.len() as u64;
        let (a, b) = (self.vals[(i / n) as usize], self.vals[(i % n) as usize]);
        let (Oc::Ok(pa), Oc::Ok(pb)) = (call(|| ym_ctor(a.0, a.1, a.2, ArithmeticOverflow::Constrain)), call(|| ym_ctor(b.0, b.1, b.2, ArithmeticOverflow::Constrain))) else {
            return;
        };
        if (a.0, a.1) != (b.0, b.1) {
            out.nontrivial += 1;
        }
        // the first of -271821-04 is not a representable date, so the specification's own algorithm (a date
        // difference from the first of both months) cannot start from or reach that year-month although it is
        // inside the year-month limits: differences with it are not judged (as for add/subtract above)
        let edge = (a.0, a.1) == (-271_821, 4) || (b.0, b.1) == (-271_821, 4);
        if edge {
            out.unjudged += 1;
        }
        for (uname, ui, um) in [("year", Some(Unit::Year), DUnit::Year), ("month", Some(Unit::Month), DUnit::Month), ("auto", Some(Unit::Auto), DUnit::Year), ("absent", None, DUnit::Year)] {
            if edge {
                break;
            }
            let attrs = || {
                vec![
                    ("a", format!("{}-{:02} ref {:?}", a.0, a.1, a.2)),
                    ("b", format!("{}-{:02} ref {:?}", b.0, b.1, b.2)),
                    ("largest", uname.to_string()),
                    ("explicit_reference_day", (a.2.is_some() || b.2.is_some()).to_string()),
                ]
            };
            // whole months counted from the first of the month
            let model = diff_iso_date(Ymd::new(a.0, a.1, 1), Ymd::new(b.0, b.1, 1), um);
            let want = [model.years as f64, model.months as f64, 0., 0., 0., 0., 0., 0., 0., 0.];
            let u = call(|| pa.until(&pb, diff(ui, None, None, None)));
            let ok = out.lockstep("PlainYearMonth::until", &Ok(want), &u, |m, v| dur_fields(v) == *m, attrs);
            let s = call(|| pa.since(&pb, diff(ui, None, None, None)));
            out.lockstep("PlainYearMonth::since", &Ok(want.map(|x| if x == 0.0 { 0.0 } else { -x })), &s, |m, v| dur_fields(v) == *m, attrs);
            if let (true, Oc::Ok(d)) = (ok, &u) {
                let back = call(|| pa.add(d, ArithmeticOverflow::Constrain));
                out.lockstep("a.add(a.until(b))", &Ok((b.0, b.1)), &back, |m, v| (v.year() as i64, v.month()) == *m, attrs);
            }
        }
        // rounded differences: the months are counted from the first of both months whatever the hidden reference
        // day, then rounded relative to the first of the receiver's month (model: relative rounding R5r)
        for (largest, smallest) in [(0usize, 0usize), (0, 1), (1, 1)] {
            if edge {
                break;
            }
            for inc in [1i64, 2, 5] {
                for mode in tmc_ref::r4::ALL_MODES {
                    let attrs = || {
                        vec![
                            ("a", format!("{}-{:02} ref {:?}", a.0, a.1, a.2)),
                            ("b", format!("{}-{:02} ref {:?}", b.0, b.1, b.2)),
                            ("largest", ["year", "month"][largest].to_string()),
                            ("smallest", ["year", "month"][smallest].to_string()),
                            ("increment", inc.to_string()),
                            ("mode", mode.name().to_string()),
                            ("explicit_reference_day", (a.2.is_some() || b.2.is_some()).to_string()),
                        ]
                    };
                    let (da, db) = (tmc_ref::r2::Dt::new(Ymd::new(a.0, a.1, 1), 0), tmc_ref::r2::Dt::new(Ymd::new(b.0, b.1, 1), 0));
                    // smallestUnit month with increment 1 skips the rounding step
                    let (sm_eff, inc_eff) = if smallest == 1 && inc == 1 { (9, 1) } else { (smallest, inc) };
                    let settings = diff(Some([Unit::Year, Unit::Month][largest]), Some([Unit::Year, Unit::Month][smallest]), Some(crate::conv::imode(mode)), Some(inc as u32));
                    for (op, m) in [("PlainYearMonth::until(rounded)", mode), ("PlainYearMonth::since(rounded)", mode.negate())] {
                        let model = tmc_ref::r5r::diff_with_rounding(da, db, largest, inc_eff, sm_eff, m).and_then(|d| tmc_ref::r5r::from_internal(&d, 3));
                        let model = match model {
                            Ok(f) => Ok(if op.contains("since") { f.map(|x| -x) } else { f }),
                            Err(tmc_ref::r5::DErr::Range) => Err(ErrorKind::Range),
                            Err(_) => {
                                out.unjudged += 1;
                                continue;
                            }
                        };
                        let got = if op.contains("since") { call(|| pa.since(&pb, settings)) } else { call(|| pa.until(&pb, settings)) };
                        out.lockstep(op, &model, &got, |mm, v| crate::conv::dur_i128(v) == *mm, attrs);
                    }
                }
            }
        }
        // week, day and time units are refused for every pair of operands - equal ones included
        for (uname, l, sm) in [("largest week", Some(Unit::Week), None), ("largest day", Some(Unit::Day), None), ("smallest week", None, Some(Unit::Week)), ("smallest day", None, Some(Unit::Day)), ("largest hour", Some(Unit::Hour), None), ("smallest nanosecond", None, Some(Unit::Nanosecond)), ("largest month, smallest year", Some(Unit::Month), Some(Unit::Year))] {
            let attrs = || vec![("a", format!("{}-{:02} ref {:?}", a.0, a.1, a.2)), ("b", format!("{}-{:02} ref {:?}", b.0, b.1, b.2)), ("units", uname.to_string()), ("equal_operands", ((a.0, a.1) == (b.0, b.1)).to_string())];
            let u = call(|| pa.until(&pb, diff(l, sm, None, None)));
            out.lockstep("PlainYearMonth::until refuses the units", &Err::<(), _>(ErrorKind::Range), &u.map(|_| ()), |_, _| true, attrs);
            let s = call(|| pa.since(&pb, diff(l, sm, None, None)));
            out.lockstep("PlainYearMonth::since refuses the units", &Err::<(), _>(ErrorKind::Range), &s.map(|_| ()), |_, _| true, attrs);
        }
        if out.want_sample() && a.0 != b.0 && a.1 > b.1 {
            out.sample(json!({"a": format!("{}-{:02}", a.0, a.1), "b": format!("{}-{:02}", b.0, b.1), "model_until_year": format!("{:?}", diff_iso_date(Ymd::new(a.0, a.1, 1), Ymd::new(b.0, b.1, 1), DUnit::Year))}));
        }
    }
}

// ---------------------------------------------------------------------------------------------

fn md_snapshot(v: &PlainMonthDay) -> (u8, u8, i64, String, Vec<String>) {
    (v.iso_month(), v.iso_day(), v.iso_year() as i64, v.month_code().as_str().to_string(), DISPLAYS.iter().map(|d| v.to_ixdtf_string(*d)).collect())
}

struct MonthDays;
impl Space for MonthDays {
    fn name(&self) -> String {
        "c18.month_days".into()
    }
    fn len(&self) -> u64 {
        14 * 34
    }
    fn eval(&self, i: u64, out: &mut Out) {
        let m = (i / 34) as u8; // 0..=13
        let d = (i % 34) as u8; // 0..=33
        out.nontrivial += 1;
        let valid_month = (1..=12).contains(&m);
        let dim72 = if valid_month { days_in_month(1972, m) } else { 0 };
        for (ovn, ov) in [("constrain", ArithmeticOverflow::Constrain), ("reject", ArithmeticOverflow::Reject)] {
            for ry in [None, Some(1972i32), Some(2021), Some(2020)] {
                let attrs = || vec![("month", m.to_string()), ("day", d.to_string()), ("overflow", ovn.to_string()), ("reference_year", format!("{ry:?}"))];
                let year = ry.unwrap_or(1972) as i64;
                let model: Result<(u8, u8, i64), ErrorKind> = if m == 0 || d == 0 {
                    out.unjudged += 1;
                    continue;
                } else {
                    match ov {
                        ArithmeticOverflow::Constrain => {
                            let mm = m.min(12);
                            Ok((mm, d.min(days_in_month(year, mm)), year))
                        }
                        ArithmeticOverflow::Reject => {
                            if valid_month && d <= days_in_month(year, m) {
                                Ok((m, d, year))
                            } else {
                                Err(ErrorKind::Range)
                            }
                        }
                    }
                };
                let got = call(|| PlainMonthDay::new_with_overflow(m, d, Calendar::default(), ov, ry));
                out.lockstep("PlainMonthDay::new_with_overflow", &model, &got, |mm, v| (v.iso_month(), v.iso_day(), v.iso_year() as i64) == *mm && v.month_code().as_str() == format!("M{:02}", mm.0), attrs);
            }
        }
        // the field-record route: the day is regulated against the year the record names (1972 when it names
        // none), the result always lives in the reference year 1972
        for (ovn, ov) in [("constrain", ArithmeticOverflow::Constrain), ("reject", ArithmeticOverflow::Reject)] {
            for ry in [None, Some(1972i32), Some(2021), Some(2020), Some(2023), Some(1900), Some(2000)] {
                for by_code in [false, true] {
                    if m == 0 || d == 0 || (by_code && !valid_month) {
                        continue;
                    }
                    let year = ry.unwrap_or(1972) as i64;
                    let model: Result<(u8, u8, i64), ErrorKind> = match ov {
                        ArithmeticOverflow::Constrain => {
                            let mm = m.min(12);
                            Ok((mm, d.min(days_in_month(year, mm)), 1972))
                        }
                        ArithmeticOverflow::Reject => {
                            if valid_month && d <= days_in_month(year, m) {
                                Ok((m, d, 1972))
                            } else {
                                Err(ErrorKind::Range)
                            }
                        }
                    };
                    let mut p = temporal_rs::partial::PartialDate::default();
                    p.year = ry;
                    p.day = Some(d);
                    if by_code {
                        p.month_code = MonthCode::from_str(&format!("M{m:02}")).ok();
                    } else {
                        p.month = Some(m);
                    }
                    let got = call(|| Calendar::default().month_day_from_partial(&p, ov));
                    out.lockstep("Calendar::month_day_from_partial", &model, &got, |mm, v| (v.iso_month(), v.iso_day(), v.iso_year() as i64) == *mm, || vec![("month", m.to_string()), ("day", d.to_string()), ("overflow", ovn.to_string()), ("record_year", format!("{ry:?}")), ("month_given_as", if by_code { "monthCode" } else { "month" }.to_string())]);
                }
            }
        }
        // routes for a real month-day: strings and dates must give the canonical value (reference year 1972)
        if valid_month && d >= 1 && d <= dim72 {
            let Oc::Ok(canon) = call(|| PlainMonthDay::new_with_overflow(m, d, Calendar::default(), ArithmeticOverflow::Reject, None)) else { return };
            let want = md_snapshot(&canon);
            out.law("month-day calendar_id and Display", canon.calendar_id() == "iso8601" && format!("{canon}") == format!("{m:02}-{d:02}"), || vec![("month", m.to_string()), ("day", d.to_string())]);
            let mut routes: Vec<(String, Oc<PlainMonthDay>)> = vec![];
            for t in [format!("{m:02}-{d:02}"), format!("--{m:02}-{d:02}"), format!("{m:02}{d:02}"), format!("--{m:02}{d:02}"), format!("{m:02}-{d:02}[u-ca=iso8601]")] {
                routes.push((format!("from_str({t})"), call(|| PlainMonthDay::from_str(&t))));
            }
            for y in [2019i64, 2020, 2021, 2024, -271_820, 275_759] {
                if d <= days_in_month(y, m) {
                    let t = format!("{}-{m:02}-{d:02}", year_text(y));
                    routes.push((format!("from_str({t})"), call(|| PlainMonthDay::from_str(&t))));
                    routes.push((format!("date({y}).to_plain_month_day"), call(|| pd(y, m, d)?.to_plain_month_day())));
                }
            }
            for (route, got) in routes {
                let attrs = || vec![("month", m.to_string()), ("day", d.to_string()), ("route", route.clone())];
                let ok = out.lockstep("month-day route = canonical value", &Ok(want.clone()), &got, |mm, v| md_snapshot(v) == *mm, attrs);
                if let (true, Oc::Ok(v)) = (ok, &got) {
                    out.law("month-day ==", *v == canon, attrs);
                }
            }
            // canonical text
            let texts = vec![format!("{m:02}-{d:02}"), format!("1972-{m:02}-{d:02}[u-ca=iso8601]"), format!("{m:02}-{d:02}"), format!("1972-{m:02}-{d:02}[!u-ca=iso8601]")];
            out.lockstep("PlainMonthDay::to_ixdtf_string", &Ok(texts), &Oc::Ok(want.4.clone()), |a, b| a == b, || vec![("month", m.to_string()), ("day", d.to_string())]);
        }
        if out.want_sample() && m == 2 && d == 29 {
            out.sample(json!({"month": 2, "day": 29, "model": "exists (reference year 1972)"}));
        }
    }
    fn describe(&self) -> serde_json::Value {
        json!({"months": "0..=13", "days": "0..=33", "overflow": 2, "reference_years": ["absent", 1972, 2021, 2020], "routes": ["5 string shapes", "full-date strings", "PlainDate::to_plain_month_day"]})
    }
}

pub fn spaces(env: &Env) -> Vec<Box<dyn Space>> {
    let mut vals: Vec<(i64, u8, Option<u8>)> = vec![];
    let (diff_years, diff_months): (Vec<i64>, Vec<u8>) = match env.tier {
        Tier::Quick => (vec![-271_821, -1, 0, 2019, 2020, 2021, 275_760], vec![1, 2, 3, 6, 9, 12]),
        Tier::Thorough => (vec![-271_821, -271_820, -1, 0, 1, 1999, 2000, 2019, 2020, 2021, 2024, 275_759, 275_760], (1..=12).collect()),
    };
    for y in diff_years {
        for m in diff_months.iter().copied() {
            if year_month_in_limits(y, m) {
                vals.push((y, m, None));
            }
        }
    }
    for (y, m, r) in [(2020, 1, 31u8), (2020, 2, 29), (2020, 3, 15), (2021, 1, 31), (2019, 12, 31), (2021, 7, 31), (2020, 6, 30), (2019, 6, 2)] {
        vals.push((y, m, Some(r)));
    }
    let ys = years(env.tier);
    let arith_years: Vec<i64> = years(Tier::Quick);
    vec![Box::new(YmRoutes { years: ys.clone() }), Box::new(YmText { years: ys }), Box::new(YmArith { durs: ym_durations(), years: arith_years }), Box::new(YmDiff { vals }), Box::new(MonthDays)]
}

pub fn run(env: &Env) -> i32 {
    let mut rep = Report::new(
        env,
        "model_checking",
        "route matrix: for every (year, month) of the alphabet (incl. both range ends and impossible months) and for all month-days 0..13 x 0..33, every construction route (constructor, 7 string shapes, every day of the month via PlainDate, field records, with) must give the canonical value (==, compare_iso, identical text under all 4 calendar display options); arithmetic: year-months x durations x overflow, all ordered pairs x largest units",
    );
    rep.assumptions.push("R10/R2: whole months counted from the first of the month; canonical hidden day 1 / reference year 1972; week and day units must be refused by year-month arithmetic; whole days hidden in time units are unjudged; zero month/day unjudged".into());
    for s in spaces(env) {
        rep.run(s.as_ref());
    }
    rep.finish()
}

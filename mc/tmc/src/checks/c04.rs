//! C04 — PlainDate add / subtract / until / since follow Temporal date arithmetic exactly (ISO calendar).

use crate::engine::*;
use crate::imp::*;
use serde_json::json;
use temporal_rs::error::ErrorKind;
use temporal_rs::options::{ArithmeticOverflow, Unit};
use temporal_rs::{Calendar, Duration, PlainDate};
use tmc_ref::r1::*;
use tmc_ref::r2::*;
use tmc_ref::r3;

pub fn date_alphabet(tier: Tier) -> Vec<Ymd> {
    let years: Vec<i64> = match tier {
        Tier::Quick => vec![-271_821, -271_820, -1, 0, 1, 1899, 1900, 1970, 1999, 2000, 2001, 2019, 2020, 2021, 2024, 2100, 275_759, 275_760],
        Tier::Thorough => vec![-271_821, -271_820, -100_000, -9_999, -401, -400, -101, -100, -5, -4, -1, 0, 1, 4, 100, 400, 1582, 1899, 1900, 1901, 1970, 1972, 1999, 2000, 2001, 2019, 2020, 2021, 2023, 2024, 2025, 2100, 2400, 9_999, 10_000, 100_000, 275_759, 275_760],
    };
    let mut v = vec![];
    for y in years {
        for m in 1..=12u8 {
            for d in [1u8, 15, 28, 29, 30, 31] {
                if date_in_limits(y, m, d) {
                    v.push(Ymd::new(y, m, d));
                }
            }
        }
    }
    // the exact range ends
    v.push(Ymd::new(-271_821, 4, 19));
    v.push(Ymd::new(-271_821, 4, 20));
    v.push(Ymd::new(275_760, 9, 13));
    v.push(Ymd::new(275_760, 9, 12));
    v.sort();
    v.dedup();
    v
}

#[derive(Clone)]
pub struct DurCase {
    pub date: DateDur,
    pub time_ns: i128,
    pub fields: [f64; 10],
    pub imp: Duration,
}

impl DurCase {
    pub fn new(y: i64, mo: i64, w: i64, d: i64, time_ns: i128) -> Option<DurCase> {
        let t = r3::balance(time_ns, r3::T_HOUR);
        let fields = [y as f64, mo as f64, w as f64, d as f64, t[1] as f64, t[2] as f64, t[3] as f64, t[4] as f64, t[5] as f64, t[6] as f64];
        let imp = dur10(fields).ok()?;
        Some(DurCase { date: DateDur { years: y, months: mo, weeks: w, days: d }, time_ns, fields, imp })
    }
    /// The date duration that PlainDate::add must apply: time units contribute whole days only.
    pub fn effective(&self, negate: bool) -> DateDur {
        let extra = (self.time_ns / r3::NS_PER_DAY) as i64; // truncation toward zero
        let d = DateDur { days: self.date.days + extra, ..self.date };
        if negate {
            d.neg()
        } else {
            d
        }
    }
    pub fn text(&self) -> String {
        format!("P{}Y{}M{}W{}D+{}ns", self.date.years, self.date.months, self.date.weeks, self.date.days, self.time_ns)
    }
}

pub fn duration_alphabet(tier: Tier) -> Vec<DurCase> {
    let (ys, ms, ws, ds, ts): (Vec<i64>, Vec<i64>, Vec<i64>, Vec<i64>, Vec<i128>) = match tier {
        Tier::Quick => (
            vec![0, 1, 4, 100, 400, 547_000],
            vec![0, 1, 2, 11, 12, 13, 25],
            vec![0, 1, 5],
            vec![0, 1, 27, 28, 29, 30, 31, 365, 366, 146_097],
            vec![0, 86_399_999_999_999, 86_400_000_000_000, 47 * 3_600_000_000_000 + 59 * 60_000_000_000, 172_800_000_000_000],
        ),
        Tier::Thorough => (
            vec![0, 1, 2, 3, 4, 99, 100, 101, 400, 547_000, 547_581],
            vec![0, 1, 2, 3, 6, 11, 12, 13, 23, 24, 25, 1_200, 6_570_000],
            vec![0, 1, 4, 5, 52, 53],
            vec![0, 1, 6, 7, 8, 27, 28, 29, 30, 31, 32, 59, 60, 61, 365, 366, 367, 1_461, 146_097, 199_999_999],
            vec![0, 1, 86_399_999_999_999, 86_400_000_000_000, 86_400_000_000_001, 47 * 3_600_000_000_000 + 59 * 60_000_000_000, 172_800_000_000_000],
        ),
    };
    let mut v = vec![];
    for sign in [1i64, -1] {
        for &y in &ys {
            for &m in &ms {
                for &w in &ws {
                    for &d in &ds {
                        for &t in &ts {
                            if sign == -1 && y == 0 && m == 0 && w == 0 && d == 0 && t == 0 {
                                continue;
                            }
                            if let Some(c) = DurCase::new(sign * y, sign * m, sign * w, sign * d, sign as i128 * t) {
                                v.push(c);
                            }
                        }
                    }
                }
            }
        }
    }
    v
}

fn ymd_text(d: &Ymd) -> String {
    format!("{:+07}-{:02}-{:02}", d.y, d.m, d.d)
}

fn same_date(m: &Ymd, v: &PlainDate) -> bool {
    v.year() as i64 == m.y && v.month() == m.m && v.day() == m.d && v.iso_year() as i64 == m.y
}

fn mk(d: &Ymd) -> PlainDate {
    pd(d.y, d.m, d.d).expect("alphabet date must be constructible (C01 covers the constructor)")
}

fn map_err(r: Result<Ymd, RErr>) -> Result<Ymd, ErrorKind> {
    r.map_err(|e| match e {
        RErr::Range => ErrorKind::Range,
        RErr::Type => ErrorKind::Type,
    })
}

fn year_class(y: i64) -> &'static str {
    match y.abs() {
        0 => "0",
        1..=9_999 => "small",
        _ => "large",
    }
}

// ---------------------------------------------------------------------------------------------

struct AddSpace {
    dates: Vec<Ymd>,
    durs: Vec<DurCase>,
}

impl Space for AddSpace {
    fn name(&self) -> String {
        "c04.add".into()
    }
    fn len(&self) -> u64 {
        (self.dates.len() * self.durs.len()) as u64
    }
    fn block(&self) -> u64 {
        4096
    }
    fn eval(&self, i: u64, out: &mut Out) {
        let nd = self.durs.len() as u64;
        let date = &self.dates[(i / nd) as usize];
        let dur = &self.durs[(i % nd) as usize];
        let recv = mk(date);
        let mut nontrivial = false;
        for (opname, negate) in [("add", false), ("subtract", true)] {
            let eff = dur.effective(negate);
            for (ovname, ovm, ovi) in [
                ("constrain", Overflow::Constrain, Some(ArithmeticOverflow::Constrain)),
                ("reject", Overflow::Reject, Some(ArithmeticOverflow::Reject)),
                ("absent", Overflow::Constrain, None),
            ] {
                let model = map_err(add_iso_date(*date, eff, ovm));
                if !add_intermediate_in_limits(*date, eff) && model.is_ok() {
                    out.unjudged += 1;
                    continue;
                }
                let got = call(|| if negate { recv.subtract(&dur.imp, ovi) } else { recv.add(&dur.imp, ovi) });
                let attrs = || {
                    vec![
                        ("date", ymd_text(date)),
                        ("duration", dur.text()),
                        ("overflow", ovname.to_string()),
                        ("dur_years", year_class(dur.date.years).to_string()),
                        ("has_time", (dur.time_ns != 0).to_string()),
                        ("has_ymw", (dur.date.years != 0 || dur.date.months != 0 || dur.date.weeks != 0).to_string()),
                    ]
                };
                out.lockstep(&format!("PlainDate::{opname}"), &model, &got, same_date, attrs);
                if !negate {
                    // the calendar's own entry point (public, and what the FFI exposes) on the same record
                    let got = call(|| Calendar::default().date_add(&iso_date(date.y as i32, date.m, date.d), &dur.imp, ovi.unwrap_or(ArithmeticOverflow::Constrain)));
                    out.lockstep("Calendar::date_add", &model, &got, same_date, attrs);
                }
                // non-trivial: clamp taken or rejected, or a year boundary crossed
                let (iy, im) = balance_year_month(date.y + eff.years, date.m as i64 + eff.months);
                if date.d > days_in_month(iy, im) || model.map(|r| r.y != date.y).unwrap_or(true) {
                    nontrivial = true;
                }
                if let Oc::Ok(v) = &got {
                    out.state(&(v.year(), v.month(), v.day()));
                }
            }
        }
        if nontrivial {
            out.nontrivial += 1;
        }
        if out.want_sample() && nontrivial {
            out.sample(json!({"receiver": ymd_text(date), "duration": dur.text(), "model_add_constrain": format!("{:?}", add_iso_date(*date, dur.effective(false), Overflow::Constrain))}));
        }
    }
    fn describe(&self) -> serde_json::Value {
        json!({"dates": self.dates.len(), "durations": self.durs.len(), "ops": ["add", "subtract"], "overflow": ["constrain", "reject", "absent"]})
    }
}

// ---------------------------------------------------------------------------------------------

const LARGEST: [(&str, Option<Unit>, DUnit); 6] = [
    ("day", Some(Unit::Day), DUnit::Day),
    ("week", Some(Unit::Week), DUnit::Week),
    ("month", Some(Unit::Month), DUnit::Month),
    ("year", Some(Unit::Year), DUnit::Year),
    ("auto", Some(Unit::Auto), DUnit::Day),
    ("absent", None, DUnit::Day),
];

fn dd_fields(d: &DateDur) -> [f64; 10] {
    [d.years as f64, d.months as f64, d.weeks as f64, d.days as f64, 0., 0., 0., 0., 0., 0.]
}

/// Judge until/since of one ordered pair for all largest units. Returns whether the pair is non-trivial.
fn diff_pair(a: &Ymd, b: &Ymd, units: &[(&str, Option<Unit>, DUnit)], selfcheck_linear: bool, out: &mut Out) -> bool {
    let (da, db) = (mk(a), mk(b));
    let mut nontrivial = false;
    for (uname, ui, um) in units {
        let model = diff_iso_date(*a, *b, *um);
        if selfcheck_linear {
            out.selfchecks += 1;
            assert_eq!(model, diff_iso_date_linear(*a, *b, *um), "R2 self-check: fast and linear DifferenceISODate disagree for {a:?} {b:?}");
        }
        // model-level law (oracle self-check): add(until) = end, constrain
        out.selfchecks += 1;
        assert_eq!(add_iso_date(*a, model, Overflow::Constrain), Ok(*b), "R2 self-check: add(until) != end for {a:?} {b:?} {um:?}");
        let attrs = || {
            vec![
                ("a", ymd_text(a)),
                ("b", ymd_text(b)),
                ("largest", uname.to_string()),
                ("direction", if a < b { "forward" } else if a > b { "backward" } else { "equal" }.to_string()),
                ("span", year_class(b.y - a.y).to_string()),
            ]
        };
        let u = call(|| da.until(&db, diff(*ui, None, None, None)));
        let ok = out.lockstep("PlainDate::until", &Ok(dd_fields(&model)), &u, |m, v| dur_fields(v) == *m, attrs);
        let s = call(|| da.since(&db, diff(*ui, None, None, None)));
        out.lockstep("PlainDate::since", &Ok(dd_fields(&model.neg())), &s, |m, v| dur_fields(v) == *m, attrs);
        // laws that need no expected value
        if let (true, Oc::Ok(dur)) = (ok, &u) {
            let back = call(|| da.add(dur, None));
            out.lockstep("a.add(a.until(b))", &Ok(*b), &back, same_date, attrs);
            let f = dur_fields(dur);
            let pos = f.iter().any(|x| *x > 0.0);
            let neg = f.iter().any(|x| *x < 0.0);
            out.law("sign-uniform", !(pos && neg), attrs);
            let balanced = match um {
                DUnit::Year => f[1].abs() < 12.0 && f[2] == 0.0 && f[3].abs() < 31.0,
                DUnit::Month => f[0] == 0.0 && f[2] == 0.0 && f[3].abs() < 31.0,
                DUnit::Week => f[0] == 0.0 && f[1] == 0.0 && f[3].abs() < 7.0,
                DUnit::Day => f[0] == 0.0 && f[1] == 0.0 && f[2] == 0.0,
            };
            out.law("balanced", balanced, attrs);
        }
        if a != b && (a.m == 2 && a.d == 29 || b.m == 2 && b.d == 29 || a.y != b.y || ((a < b) != (a.d <= b.d))) {
            nontrivial = true;
        }
    }
    nontrivial
}

/// a.since(b) with a rounding mode = -(a.until(b)) with the mirrored mode (ceil <-> floor, halfCeil <->
/// halfFloor, the others unchanged), for every mode and a few (smallest unit, increment) cells: a differential
/// law between the two operations, no expected value needed.
fn mirrored_since_law(a: &Ymd, b: &Ymd, out: &mut Out) {
    use temporal_rs::options::RoundingMode as M;
    let (Oc::Ok(da), Oc::Ok(db)) = (call(|| pd(a.y, a.m, a.d)), call(|| pd(b.y, b.m, b.d))) else { return };
    const MODES: [(M, M, &str); 9] = [
        (M::Ceil, M::Floor, "ceil"),
        (M::Floor, M::Ceil, "floor"),
        (M::Expand, M::Expand, "expand"),
        (M::Trunc, M::Trunc, "trunc"),
        (M::HalfCeil, M::HalfFloor, "halfCeil"),
        (M::HalfFloor, M::HalfCeil, "halfFloor"),
        (M::HalfExpand, M::HalfExpand, "halfExpand"),
        (M::HalfTrunc, M::HalfTrunc, "halfTrunc"),
        (M::HalfEven, M::HalfEven, "halfEven"),
    ];
    for (largest, smallest, inc, cell) in [(Unit::Day, Unit::Day, 2u32, "day/2"), (Unit::Week, Unit::Week, 1, "week/1"), (Unit::Month, Unit::Month, 1, "month/1"), (Unit::Year, Unit::Month, 2, "year..month/2"), (Unit::Year, Unit::Year, 1, "year/1"), (Unit::Year, Unit::Month, 1, "year..month/1"), (Unit::Week, Unit::Day, 7, "week..day/7"), (Unit::Month, Unit::Day, 10, "month..day/10")] {
        for (mode, mirrored, mname) in MODES {
            let s = call(|| da.since(&db, diff(Some(largest), Some(smallest), Some(mode), Some(inc))));
            let u = call(|| da.until(&db, diff(Some(largest), Some(smallest), Some(mirrored), Some(inc))));
            let attrs = || vec![("a", ymd_text(a)), ("b", ymd_text(b)), ("cell", cell.to_string()), ("mode", mname.to_string()), ("direction", if a < b { "forward" } else if a > b { "backward" } else { "equal" }.to_string())];
            let agree = match (&s, &u) {
                (Oc::Ok(s), Oc::Ok(u)) => {
                    let neg: Vec<f64> = dur_fields(u).iter().map(|x| if *x == 0.0 { 0.0 } else { -*x }).collect();
                    dur_fields(s).to_vec() == neg
                }
                (Oc::Err(k1, _), Oc::Err(k2, _)) => k1 == k2,
                _ => false,
            };
            out.law("since(mode) = -until(mirrored mode)", agree, attrs);
            // a rounded difference is balanced up to the largest unit too: rounding up to a full larger unit carries
            if let Oc::Ok(u) = &u {
                let f = dur_fields(u);
                let balanced = match largest {
                    Unit::Year => f[1].abs() < 12.0,
                    Unit::Week => f[3].abs() < 7.0 && f[0] == 0.0 && f[1] == 0.0,
                    Unit::Month => f[0] == 0.0 && f[2] == 0.0 && f[3].abs() <= 31.0,
                    _ => true,
                };
                out.law("rounded difference is balanced up to the largest unit", balanced, attrs);
            }
        }
    }
}

struct DiffSpace {
    dates: Vec<Ymd>,
}

impl Space for DiffSpace {
    fn name(&self) -> String {
        "c04.diff".into()
    }
    fn len(&self) -> u64 {
        (self.dates.len() * self.dates.len()) as u64
    }
    fn block(&self) -> u64 {
        2048
    }
    fn eval(&self, i: u64, out: &mut Out) {
        let n = self.dates.len() as u64;
        let (a, b) = (&self.dates[(i / n) as usize], &self.dates[(i % n) as usize]);
        if i % 3 == 0 {
            mirrored_since_law(a, b, out);
        }
        if diff_pair(a, b, &LARGEST, false, out) {
            out.nontrivial += 1;
            if out.want_sample() {
                out.sample(json!({"a": ymd_text(a), "b": ymd_text(b), "model_until_year": format!("{:?}", diff_iso_date(*a, *b, DUnit::Year))}));
            }
        }
    }
    fn describe(&self) -> serde_json::Value {
        json!({"dates": self.dates.len(), "largest_units": ["day", "week", "month", "year", "auto", "absent"], "ops": ["until", "since"]})
    }
}

/// All ordered pairs of days inside a window (complete: every month-end / leap-day interaction of the window).
struct DenseWindow {
    name: &'static str,
    first: i64,
    n: u64,
}

impl Space for DenseWindow {
    fn name(&self) -> String {
        format!("c04.dense.{}", self.name)
    }
    fn len(&self) -> u64 {
        self.n * self.n
    }
    fn block(&self) -> u64 {
        2048
    }
    fn eval(&self, i: u64, out: &mut Out) {
        let a = Ymd::from_epoch_day(self.first + (i / self.n) as i64);
        let b = Ymd::from_epoch_day(self.first + (i % self.n) as i64);
        // the linear-search self-check of the oracle runs on a 1/7 slice of the window
        if diff_pair(&a, &b, &LARGEST[..4], i % 7 == 0, out) {
            out.nontrivial += 1;
            if out.want_sample() {
                out.sample(json!({"a": ymd_text(&a), "b": ymd_text(&b), "model_until_month": format!("{:?}", diff_iso_date(a, b, DUnit::Month))}));
            }
        }
    }
    fn describe(&self) -> serde_json::Value {
        json!({"window_first_epoch_day": self.first, "days": self.n, "pairs": "all ordered pairs"})
    }
}

/// Depth-2 operation sequences from seed dates: add∘add, add then until back, until then add.
struct Chains {
    seeds: Vec<Ymd>,
    durs: Vec<DurCase>,
}

impl Space for Chains {
    fn name(&self) -> String {
        "c04.chains".into()
    }
    fn len(&self) -> u64 {
        (self.seeds.len() * self.durs.len() * self.durs.len()) as u64
    }
    fn eval(&self, i: u64, out: &mut Out) {
        let ix = unrank(i, &[self.durs.len() as u64, self.durs.len() as u64, self.seeds.len() as u64]);
        let (d1, d2, s) = (&self.durs[ix[0]], &self.durs[ix[1]], &self.seeds[ix[2]]);
        let attrs = || vec![("seed", ymd_text(s)), ("d1", d1.text()), ("d2", d2.text())];
        let m1 = add_iso_date(*s, d1.effective(false), Overflow::Constrain);
        let r1 = call(|| mk(s).add(&d1.imp, None));
        if !out.lockstep("step1 add", &map_err(m1), &r1, same_date, attrs) {
            return;
        }
        let (Ok(m1), Oc::Ok(r1)) = (m1, r1) else { return };
        out.state(&m1);
        out.nontrivial += 1;
        let m2 = add_iso_date(m1, d2.effective(false), Overflow::Constrain);
        let r2 = call(|| r1.add(&d2.imp, None));
        out.lockstep("step2 add (non-initial receiver)", &map_err(m2), &r2, same_date, attrs);
        if let Ok(m2) = m2 {
            out.state(&m2);
        }
        // measure back from the reached state to the seed, with every unit
        let seed = mk(s);
        for (uname, ui, um) in &LARGEST[..4] {
            let model = diff_iso_date(m1, *s, *um);
            let u = call(|| r1.until(&seed, diff(*ui, None, None, None)));
            out.lockstep("reached.until(seed)", &Ok(dd_fields(&model)), &u, |m, v| dur_fields(v) == *m, || {
                let mut a = attrs();
                a.push(("largest", uname.to_string()));
                a
            });
        }
        if out.want_sample() {
            out.sample(json!({"seed": ymd_text(s), "ops": ["add ".to_string() + &d1.text(), "add ".to_string() + &d2.text()], "model_states": [format!("{m1:?}"), format!("{m2:?}")]}));
        }
    }
    fn describe(&self) -> serde_json::Value {
        json!({"seeds": self.seeds.len(), "durations": self.durs.len(), "depth": 2})
    }
}

/// RegulateISODate through the constructors that take an overflow option: every (month, day) record around the
/// valid ones, zero and far values included. A value that comes back is a real date (month 1..12, day 1..days of
/// the month) - the clamp of the record under constrain, the record itself under reject.
struct Regulate;
const REG_YEARS: [i32; 6] = [-1, 0, 2019, 2020, 2023, 2024];
const REG_DAYS: [u8; 12] = [0, 1, 2, 27, 28, 29, 30, 31, 32, 33, 100, 255];
impl Space for Regulate {
    fn name(&self) -> String {
        "c04.regulate".into()
    }
    fn len(&self) -> u64 {
        (REG_YEARS.len() * 15 * REG_DAYS.len()) as u64
    }
    fn block(&self) -> u64 {
        16
    }
    fn eval(&self, i: u64, out: &mut Out) {
        let ix = unrank(i, &[REG_DAYS.len() as u64, 15, REG_YEARS.len() as u64]);
        let (y, m, d) = (REG_YEARS[ix[2]], [0u8, 1, 2, 3, 4, 5, 6, 7, 8, 9, 10, 11, 12, 13, 255][ix[1]], REG_DAYS[ix[0]]);
        out.nontrivial += 1;
        let attrs = |route: &str| vec![("record", format!("{y}-{m}-{d}")), ("route", route.to_string()), ("zero_field", (m == 0 || d == 0).to_string())];
        let cm = m.clamp(1, 12);
        let cd = d.clamp(1, days_in_month(y as i64, cm));
        let well_formed = |v: &PlainDate| (1..=12).contains(&v.month()) && v.day() >= 1 && v.day() <= days_in_month(v.year() as i64, v.month());
        for (route, got) in [
            ("new", call(|| PlainDate::new(y, m, d, Calendar::default()))),
            ("new_with_overflow(constrain)", call(|| PlainDate::new_with_overflow(y, m, d, Calendar::default(), ArithmeticOverflow::Constrain))),
            ("PlainDateTime::new", call(|| temporal_rs::PlainDateTime::new(y, m, d, 1, 2, 3, 4, 5, 6, Calendar::default()).and_then(|x| x.to_plain_date()))),
        ] {
            // a zero month or day: clamped or refused (the property does not say which), never passed through
            match &got {
                Oc::Ok(v) => {
                    out.law("constrain returns a real date", well_formed(v), || attrs(route));
                    out.law("constrain returns the clamp of the record", (v.year(), v.month(), v.day()) == (y, cm, cd), || attrs(route));
                }
                Oc::Err(ErrorKind::Range, _) if m == 0 || d == 0 => out.transitions += 1,
                _ => {
                    out.lockstep("constrain accepts a record with positive fields", &Ok(()), &got.clone().map(|_| ()), |_, _| true, || attrs(route));
                }
            }
        }
        let valid = (1..=12).contains(&m) && d >= 1 && d <= days_in_month(y as i64, m.clamp(1, 12));
        for (route, got) in [("try_new", call(|| PlainDate::try_new(y, m, d, Calendar::default()))), ("new_with_overflow(reject)", call(|| PlainDate::new_with_overflow(y, m, d, Calendar::default(), ArithmeticOverflow::Reject)))] {
            let model = if valid { Ok((y, m, d)) } else { Err(ErrorKind::Range) };
            out.lockstep("reject keeps a valid record and refuses the others", &model, &got, |a, v| (v.year(), v.month(), v.day()) == *a, || attrs(route));
        }
    }
    fn describe(&self) -> serde_json::Value {
        json!({"years": REG_YEARS, "months": "0..=13 and 255", "days": REG_DAYS})
    }
}

pub fn spaces(env: &Env) -> Vec<Box<dyn Space>> {
    let dates = date_alphabet(env.tier);
    let durs = duration_alphabet(env.tier);
    let mut v: Vec<Box<dyn Space>> = vec![];
    v.push(Box::new(AddSpace { dates: dates.clone(), durs: durs.clone() }));
    v.push(Box::new(DiffSpace { dates: dates.clone() }));
    v.push(Box::new(Regulate));
    let w2019 = days_from_civil(2019, 1, 1);
    v.push(Box::new(DenseWindow { name: "2019-2022", first: w2019, n: 1461 }));
    if env.tier == Tier::Thorough {
        v.push(Box::new(DenseWindow { name: "1899-1901", first: days_from_civil(1899, 1, 1), n: 1095 }));
        v.push(Box::new(DenseWindow { name: "1999-2001", first: days_from_civil(1999, 1, 1), n: 1096 }));
    }
    let seeds: Vec<Ymd> = [
        (2019, 1, 31), (2019, 12, 31), (2020, 1, 31), (2020, 2, 29), (2020, 3, 31), (2020, 8, 31), (2021, 2, 28), (2000, 2, 29), (1900, 2, 28),
        (1970, 1, 1), (0, 1, 1), (-1, 12, 31), (-271_821, 4, 19), (-271_821, 5, 31), (275_760, 9, 13), (275_760, 8, 31), (2100, 2, 28), (2024, 12, 31),
    ]
    .iter()
    .map(|(y, m, d)| Ymd::new(*y, *m, *d))
    .collect();
    let mut cd = vec![];
    for sign in [1i64, -1] {
        for (y, m, w, d, t) in [(0, 1, 0, 0, 0i128), (1, 0, 0, 0, 0), (0, 0, 0, 1, 0), (0, 0, 0, 31, 0), (0, 13, 0, 0, 0), (4, 0, 0, 0, 0), (0, 0, 5, 0, 0), (0, 1, 0, 30, 86_400_000_000_000), (547_000, 0, 0, 0, 0), (0, 11, 0, 0, 0), (1, 1, 1, 1, 1)] {
            if let Some(c) = DurCase::new(sign * y, sign * m, sign * w, sign * d, sign as i128 * t) {
                cd.push(c);
            }
        }
    }
    v.push(Box::new(Chains { seeds, durs: cd }));
    v
}

pub fn run(env: &Env) -> i32 {
    let mut rep = Report::new(
        env,
        "model_checking",
        "product sweeps: one case per (receiver date, duration) / ordered date pair / operation sequence; non-trivial when the reference clamps or rejects the day, crosses a year boundary, involves Feb 29, or the operands' day-of-month order is opposite to their date order",
    );
    rep.assumptions.push("R2: AddISODate / DifferenceISODate ('surpasses' formulation) transcribed from the specification; fast search validated against the literal linear search on the dense window; add(until)=end asserted on the model for every pair".into());
    for s in spaces(env) {
        rep.run(s.as_ref());
    }
    rep.finish()
}

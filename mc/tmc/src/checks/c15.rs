//! C15 — the bundled tz provider reports what the TZif data say, whatever the history.
//! Every zone of the database; every listed transition; the footer rule beyond the table; histories.

use crate::checks::c13::split_local;
use crate::conv::*;
use crate::engine::*;
use serde_json::json;
use std::collections::BTreeSet;
use temporal_rs::iso::IsoDateTime;
use temporal_rs::provider::TimeZoneProvider;
use temporal_rs::tzdb::FsTzdbProvider;
use tmc_ref::r1::*;
use tmc_ref::r3::NS_PER_DAY;
use tmc_ref::r6::{Zone, NS};
use tmc_ref::r7;

pub const ZONEINFO: &str = "/usr/share/zoneinfo";

/// Zone and Link names of tzdata.zi.
pub fn zone_names() -> Vec<String> {
    let text = std::fs::read_to_string(format!("{ZONEINFO}/tzdata.zi")).expect("tzdata.zi");
    let mut v = BTreeSet::new();
    for line in text.lines() {
        let f: Vec<&str> = line.split_whitespace().collect();
        match f.first() {
            Some(&"Z") if f.len() > 1 => {
                v.insert(f[1].to_string());
            }
            Some(&"L") if f.len() > 2 => {
                v.insert(f[2].to_string());
            }
            _ => {}
        }
    }
    v.into_iter().filter(|n| n != "Factory" && std::path::Path::new(&format!("{ZONEINFO}/{n}")).is_file()).collect()
}

pub struct RefZone {
    pub name: String,
    pub file: r7::TzFile,
    pub zone: Zone,
    /// seconds of the last table transition (i64::MIN if none)
    pub last_table: i64,
    pub rule_years: Vec<i64>,
    pub has_rule: bool,
}

pub fn load_ref_zone(name: &str) -> Result<RefZone, String> {
    load_ref_zone_with(name, false)
}

/// `full_cycle`: evaluate the footer rule for every year of a whole 400-year Gregorian cycle after the
/// table (every combination of leap year and weekday of 1 January), not only for the sampled years.
pub fn load_ref_zone_with(name: &str, full_cycle: bool) -> Result<RefZone, String> {
    let bytes = std::fs::read(format!("{ZONEINFO}/{name}")).map_err(|e| e.to_string())?;
    let file = r7::parse_tzif(&bytes)?;
    let last_table = file.trans.last().map(|x| x.0).unwrap_or(i64::MIN);
    let last_year = if last_table == i64::MIN { 1970 } else { civil_from_days(last_table.div_euclid(86_400)).0 };
    let mut years: Vec<i64> = (last_year.min(2037)..=if full_cycle { 2437 } else { 2045 }).collect();
    years.extend([2099, 2100, 2101, 2399, 2400, 2401, 9997, 9998, 9999, 275_758, 275_759, 275_760]);
    years.sort();
    years.dedup();
    let has_rule = !file.footer.is_empty() && r7::parse_posix(&file.footer).map(|r| r.dst.is_some()).unwrap_or(false);
    let zone = r7::build_zone(&file, &years)?;
    Ok(RefZone { name: name.to_string(), file, zone, last_table, rule_years: years, has_rule })
}

pub fn iso_dt(local: i128) -> Option<IsoDateTime> {
    let (d, tod) = split_local(local);
    let (y, m, dd) = civil_from_days(d);
    let f = tod_fields(tod);
    IsoDateTime::new(crate::imp::iso_date(y as i32, m, dd), crate::imp::iso_time(f.0, f.1, f.2, f.3, f.4, f.5)).ok()
}

fn region(rz: &RefZone, t_s: i64) -> &'static str {
    if rz.file.trans.is_empty() {
        "no_table"
    } else if t_s < rz.file.trans[0].0 {
        "before_first_transition"
    } else if t_s > rz.last_table {
        "after_table"
    } else {
        "table"
    }
}

struct ZoneSweep {
    names: Vec<String>,
    tier: Tier,
}

impl Space for ZoneSweep {
    fn name(&self) -> String {
        "c15.zone_sweep".into()
    }
    fn len(&self) -> u64 {
        self.names.len() as u64
    }
    fn block(&self) -> u64 {
        1
    }
    fn eval(&self, i: u64, out: &mut Out) {
        let name = &self.names[i as usize];
        let rz = match load_ref_zone_with(name, self.tier == Tier::Thorough) {
            Ok(z) => z,
            Err(e) => {
                out.unjudged += 1;
                out.note(|| format!("reference reader cannot read {name}: {e}"));
                return;
            }
        };
        out.nontrivial += 1;
        let provider = FsTzdbProvider::default();
        let since = self.tier.pick(days_from_civil(1900, 1, 1) as i128 * NS_PER_DAY, i128::MIN);
        // instants to probe (seconds)
        let mut probes: Vec<(i64, &'static str)> = vec![];
        // (the quick tier keeps the first three transitions of every zone whatever their date: the changes away
        // from local mean time have the largest and oddest offsets, +15:02:19 in Alaska before 1867)
        let tr: Vec<i128> = rz.zone.trans.iter().enumerate().filter(|(k, x)| x.0 >= since || *k < 3).map(|(_, x)| x.0).collect();
        for (k, t) in tr.iter().enumerate() {
            let ts = (*t / NS) as i64;
            let y = civil_from_days(ts.div_euclid(86_400)).0;
            if !(1..=9999).contains(&y) {
                continue;
            }
            probes.push((ts - 1, "transition-1s"));
            probes.push((ts, "transition_second"));
            probes.push((ts + 1, "transition+1s"));
            if let Some(n) = tr.get(k + 1) {
                let gap_years_ok = rz.rule_years.contains(&civil_from_days(((n / NS) as i64).div_euclid(86_400)).0) || (n / NS) as i64 <= rz.last_table;
                if gap_years_ok && (n - t) < 400 * NS_PER_DAY {
                    probes.push((((t + (n - t) / 2) / NS) as i64, "interval_midpoint"));
                }
            }
        }
        if let Some(first) = rz.file.trans.first() {
            probes.push((first.0 - 1, "one_second_before_first_transition"));
            probes.push((first.0 - 86_400 * 400, "long_before_first_transition"));
        }
        probes.push((days_from_civil(1, 1, 2) * 86_400, "year_1"));
        probes.push((0, "epoch"));
        probes.push((-1, "epoch-1s"));
        // both ends of the instant range (judged for zones without a DST rule, see `covered`)
        probes.push((8_640_000_000_000, "range_end"));
        probes.push((8_640_000_000_000 - 1, "range_end-1s"));
        probes.push((-8_640_000_000_000, "range_start"));
        probes.push((-8_640_000_000_000 + 1, "range_start+1s"));
        let mut n_off = 0u64;
        for (ts, kind) in &probes {
            let covered = *ts <= rz.last_table || !rz.has_rule || rz.rule_years.contains(&civil_from_days(ts.div_euclid(86_400)).0);
            if !covered {
                continue;
            }
            let mut variants: Vec<(i128, &'static str)> = vec![(*ts as i128 * NS, "whole_second")];
            if *kind == "transition_second" || *kind == "epoch" || *kind == "epoch-1s" {
                variants.push((*ts as i128 * NS + 1, "+1ns"));
                variants.push((*ts as i128 * NS - 1, "-1ns"));
                variants.push((*ts as i128 * NS + 999_999_999, "+999999999ns"));
            }
            for (ns, sub) in variants {
                let want = rz.zone.offset_at(ns);
                let full = call(|| provider.get_named_tz_offset_nanoseconds(name, ns));
                // the reported start of the offset period lies inside the period: not after the instant, not
                // before the last change of offset, and nothing is reported before the first listed transition
                if let Oc::Ok(o) = &full {
                    let last_change: Option<i128> = rz.zone.trans.iter().enumerate().filter(|(k, x)| x.0 <= ns && x.1 != if *k == 0 { rz.zone.initial } else { rz.zone.trans[*k - 1].1 }).map(|(_, x)| x.0).last();
                    let ok = match o.transition_epoch {
                        None => rz.file.trans.first().map(|f| ns.div_euclid(NS) < f.0 as i128).unwrap_or(true) || last_change.is_none(),
                        Some(te) => te as i128 * NS <= ns && last_change.map(|lc| te as i128 * NS >= lc).unwrap_or(true),
                    };
                    out.law("transition_epoch lies in the offset period of the instant", ok, || vec![("zone", name.clone()), ("epoch_seconds", ts.to_string()), ("probe", kind.to_string()), ("region", region(&rz, ns.div_euclid(NS) as i64).to_string()), ("transition_epoch", format!("{:?}", o.transition_epoch)), ("last_change", format!("{last_change:?}"))]);
                }
                let got = full.map(|o| o.offset);
                n_off += 1;
                out.lockstep("get_named_tz_offset_nanoseconds", &Ok(want), &got, |a, b| a == b, || {
                    vec![
                        ("zone", name.clone()),
                        ("epoch_seconds", ts.to_string()),
                        ("probe", kind.to_string()),
                        ("subsecond", sub.to_string()),
                        ("region", region(&rz, ns.div_euclid(NS) as i64).to_string()),
                        ("negative_epoch", (ns < 0).to_string()),
                        ("footer_has_dst_rule", rz.has_rule.to_string()),
                    ]
                });
            }
        }
        out.count("offset_queries", n_off);
        // wall-clock -> set of instants around every probed transition
        let mut n_loc = 0u64;
        for (k, (t, off_after)) in rz.zone.trans.iter().enumerate() {
            if *t < since && k >= 3 {
                continue;
            }
            let ts = (*t / NS) as i64;
            let y = civil_from_days(ts.div_euclid(86_400)).0;
            if !(2..=9998).contains(&y) {
                continue;
            }
            let off_before = if k == 0 { rz.zone.initial } else { rz.zone.trans[k - 1].1 };
            let (lo, hi) = {
                let a = t + off_before as i128 * NS;
                let b = t + *off_after as i128 * NS;
                (a.min(b), a.max(b))
            };
            let kind = if *off_after > off_before { "gap" } else { "overlap" };
            let is_dst_after = rz.file.trans.iter().find(|x| x.0 == ts).map(|x| rz.file.types[x.1].1);
            for (l, pos) in [(lo - NS, "just_before"), (lo, "first_second"), ((lo + hi) / 2 / NS * NS, "middle"), (hi - NS, "last_second"), (hi, "just_after"), (lo - 1, "last_nanosecond_before"), (hi - 1, "last_nanosecond_inside"), (lo + 1, "first_nanosecond+1")] {
                // stay clear of neighbouring transitions so that the expected set is decided by this one alone
                let Some(dt) = iso_dt(l) else { continue };
                let want: BTreeSet<i128> = rz.zone.candidates(l).into_iter().collect();
                if want.iter().any(|c| {
                    let cy = civil_from_days(((*c / NS) as i64).div_euclid(86_400)).0;
                    (*c / NS) as i64 > rz.last_table && rz.has_rule && !rz.rule_years.contains(&cy)
                }) {
                    continue;
                }
                let got = call(|| provider.get_named_tz_epoch_nanoseconds(name, dt).map(|v| v.into_iter().map(|e| e.as_i128()).collect::<BTreeSet<i128>>()));
                n_loc += 1;
                out.lockstep("get_named_tz_epoch_nanoseconds", &Ok(want.clone()), &got, |a, b| a == b, || {
                    vec![
                        ("zone", name.clone()),
                        ("local", format!("{:?}", split_local(l))),
                        ("transition_epoch_seconds", ts.to_string()),
                        ("transition_kind", kind.to_string()),
                        ("position", pos.to_string()),
                        ("region", region(&rz, ts).to_string()),
                        ("dst_flag_after", format!("{is_dst_after:?}")),
                        ("offsets", format!("{off_before}->{off_after}")),
                        ("expected_count", want.len().to_string()),
                        ("first_table_transition", (rz.file.trans.first().map(|x| x.0) == Some(ts)).to_string()),
                        ("neighbour_transition_within_2_days", {
                            let prev = if k > 0 { t - rz.zone.trans[k - 1].0 } else { i128::MAX };
                            let next = rz.zone.trans.get(k + 1).map(|n| n.0 - t).unwrap_or(i128::MAX);
                            (prev.min(next) <= 2 * NS_PER_DAY).to_string()
                        }),
                        ("offsets_sum_sign", if off_before + *off_after >= 0 { "nonnegative" } else { "negative" }.to_string()),
                    ]
                });
            }
        }
        // wall-clock readings within a day of the ends of the representable range (the reference evaluates the
        // footer rule for the years 275758-275760 too): the reading may lie beyond the instant range while its
        // instant does not
        {
            for end in [tmc_ref::r1::MAX_INSTANT_NS, -tmc_ref::r1::MAX_INSTANT_NS] {
                for back in [0i128, NS, 3_600 * NS, 43_200 * NS] {
                    let t = end - end.signum() * back;
                    let l = rz.zone.local_of(t);
                    let Some(dt) = iso_dt(l) else { continue };
                    let want: BTreeSet<i128> = rz.zone.candidates(l).into_iter().filter(|c| c.abs() <= tmc_ref::r1::MAX_INSTANT_NS).collect();
                    let got = call(|| provider.get_named_tz_epoch_nanoseconds(name, dt).map(|v| v.into_iter().map(|e| e.as_i128()).collect::<BTreeSet<i128>>()));
                    n_loc += 1;
                    out.lockstep("get_named_tz_epoch_nanoseconds", &Ok(want.clone()), &got, |a, b| a == b, || {
                        vec![("zone", name.clone()), ("local", format!("{:?}", split_local(l))), ("position", "range_end".to_string()), ("region", region(&rz, (t / NS) as i64).to_string()), ("first_table_transition", "false".to_string()), ("offsets_sum_sign", "-".to_string()), ("reading_beyond_instant_range", (l.abs() > tmc_ref::r1::MAX_INSTANT_NS).to_string())]
                    });
                }
            }
        }
        out.count("local_queries", n_loc);
        if out.want_sample() {
            out.sample(json!({"zone": name, "table_transitions": rz.file.trans.len(), "footer": rz.file.footer, "model_transitions_with_rule_years": rz.zone.trans.len()}));
        }
    }
    fn describe(&self) -> serde_json::Value {
        json!({"zones": self.names.len(), "per_zone": "every listed transition (quick: since 1900 and the first three of every zone) +-1 s, interval midpoints, before the first transition, footer-rule transitions of 2037-2045, 2099-2101, 2399-2401, 9997-9999; 5 wall-clock probes around every transition"})
    }
}

/// Identifier check: accepts exactly the IANA names, case-insensitively.
struct Identifiers {
    names: Vec<String>,
}
impl Space for Identifiers {
    fn name(&self) -> String {
        "c15.identifiers".into()
    }
    fn len(&self) -> u64 {
        self.names.len() as u64
    }
    fn block(&self) -> u64 {
        8
    }
    fn eval(&self, i: u64, out: &mut Out) {
        let name = &self.names[i as usize];
        let provider = FsTzdbProvider::default();
        let known: BTreeSet<String> = self.names.iter().map(|n| n.to_ascii_lowercase()).collect();
        out.nontrivial += 1;
        let alt: String = name.chars().enumerate().map(|(k, c)| if k % 2 == 0 { c.to_ascii_uppercase() } else { c.to_ascii_lowercase() }).collect();
        for (v, case) in [(name.clone(), "as_is"), (name.to_ascii_lowercase(), "lower"), (name.to_ascii_uppercase(), "upper"), (alt, "alternating")] {
            let got = call_inf(|| provider.check_identifier(&v));
            out.lockstep("check_identifier(accept)", &Ok(true), &got, |a, b| a == b, || vec![("identifier", v.clone()), ("case", case.to_string())]);
        }
        if i % 8 == 0 {
            // single-character deletions / substitutions / insertions
            let b: Vec<char> = name.chars().collect();
            let mut muts = vec![];
            for p in 0..b.len() {
                let mut d = b.clone();
                d.remove(p);
                muts.push(d.iter().collect::<String>());
                for c in ['x', '_', '/', '0'] {
                    let mut s = b.clone();
                    s[p] = c;
                    muts.push(s.iter().collect());
                    let mut ins = b.clone();
                    ins.insert(p, c);
                    muts.push(ins.iter().collect());
                }
            }
            for m in muts {
                if m.is_empty() || known.contains(&m.to_ascii_lowercase()) {
                    continue;
                }
                let got = call_inf(|| provider.check_identifier(&m));
                out.lockstep("check_identifier(reject)", &Ok(false), &got, |a, b| a == b, || vec![("identifier", m.clone()), ("mutant_of", name.clone())]);
            }
        }
        if i == 0 {
            for m in ["posixrules", "zone.tab", "right/UTC", "posix/UTC", "tzdata.zi", "", "America", "America/", "/UTC", "UTC/"] {
                let got = call_inf(|| provider.check_identifier(m));
                out.lockstep("check_identifier(reject)", &Ok(false), &got, |a, b| a == b, || vec![("identifier", m.to_string()), ("mutant_of", "directory entry".into())]);
            }
        }
        if out.want_sample() {
            out.sample(json!({"identifier": name}));
        }
    }
}

/// Histories: every sequence of queries up to depth 4 over three zones; each answer must equal a fresh provider's.
struct Histories {
    depth: u32,
    fresh: Vec<Ans>,
}
const HZ: [&str; 3] = ["America/New_York", "Europe/London", "Asia/Tokyo"];
const HT: [i128; 2] = [1_600_000_000_000_000_000, 946_684_800_000_000_000];

#[derive(Debug, Clone, PartialEq)]
enum Ans {
    Off(Result<i64, String>),
    Loc(Result<Vec<i128>, String>),
}

fn query(p: &FsTzdbProvider, q: usize) -> Ans {
    if q == 12 {
        return Ans::Off(p.get_named_tz_offset_nanoseconds("Nowhere/Special", 0).map(|o| o.offset).map_err(|e| format!("{:?}", e.kind())));
    }
    let zone = HZ[q / 4];
    let t = HT[(q / 2) % 2];
    if q % 2 == 0 {
        Ans::Off(p.get_named_tz_offset_nanoseconds(zone, t).map(|o| o.offset).map_err(|e| format!("{:?}", e.kind())))
    } else {
        let dt = iso_dt(t).expect("dt");
        Ans::Loc(p.get_named_tz_epoch_nanoseconds(zone, dt).map(|v| v.into_iter().map(|e| e.as_i128()).collect()).map_err(|e| format!("{:?}", e.kind())))
    }
}

impl Space for Histories {
    fn name(&self) -> String {
        "c15.cache_histories".into()
    }
    fn len(&self) -> u64 {
        13u64.pow(self.depth)
    }
    fn block(&self) -> u64 {
        64
    }
    fn eval(&self, i: u64, out: &mut Out) {
        let h = unrank(i, &vec![13u64; self.depth as usize]);
        let fresh = &self.fresh;
        let p = FsTzdbProvider::default();
        let mut cached: BTreeSet<usize> = BTreeSet::new();
        for (step, q) in h.iter().enumerate() {
            let got = call_inf(|| query(&p, *q));
            out.lockstep("query after history = fresh provider", &Ok(fresh[*q].clone()), &got, |a, b| a == b, || vec![("history", format!("{:?}", &h[..=step])), ("cached_zones", format!("{cached:?}"))]);
            if *q < 12 {
                cached.insert(q / 4);
            }
            out.state(&(cached.clone(), *q));
        }
        if h.iter().map(|q| q / 4).collect::<BTreeSet<_>>().len() > 1 {
            out.nontrivial += 1;
        }
        if out.want_sample() && i == 13 * 13 + 5 {
            out.sample(json!({"history": h, "legend": "q/4 = zone (3 = unknown zone), (q/2)%2 = instant, q%2 = offset query / local query"}));
        }
    }
    fn describe(&self) -> serde_json::Value {
        json!({"queries": 13, "depth": self.depth, "zones": HZ, "provider_states": "set of cached zones (8)"})
    }
}

/// Two names on one provider: for ordered pairs (a, b) of zone names, a fresh provider answers a, b, b, a
/// (offsets in 1900, where nearly every zone has its own local mean time, and in July 2020); every answer must
/// equal that of a provider that has seen nothing else. Quick: the related pairs (one name a prefix of the
/// other, equal ignoring case, neighbours in sorted order, a name with itself); thorough: every ordered pair.
struct NamePairs {
    names: Vec<String>,
    fresh: Vec<[Ans; 2]>,
    pairs: Vec<(u32, u32)>,
    all: bool,
}
const PAIR_T: [i128; 2] = [-2_208_988_800_000_000_000, 1_593_561_600_000_000_000];

/// Ordered pairs of names: all of them, or the related ones (one a prefix of the other ignoring case, the same
/// last component, neighbours in sorted order, a name with itself).
pub fn name_pairs(names: &[String], all: bool) -> Vec<(u32, u32)> {
    let lower: Vec<String> = names.iter().map(|n| n.to_ascii_lowercase()).collect();
    let mut pairs = vec![];
    for a in 0..names.len() {
        for b in 0..names.len() {
            let related = a == b || a + 1 == b || b + 1 == a || lower[a].starts_with(&lower[b]) || lower[b].starts_with(&lower[a]) || {
                let (la, lb) = (lower[a].rsplit('/').next().unwrap(), lower[b].rsplit('/').next().unwrap());
                la == lb
            };
            if all || related {
                pairs.push((a as u32, b as u32));
            }
        }
    }
    pairs
}

impl NamePairs {
    fn new(names: &[String], tier: Tier) -> Self {
        let off = |p: &FsTzdbProvider, z: &str, t: i128| Ans::Off(p.get_named_tz_offset_nanoseconds(z, t).map(|o| o.offset).map_err(|e| format!("{:?}", e.kind())));
        let fresh: Vec<[Ans; 2]> = names.iter().map(|z| [off(&FsTzdbProvider::default(), z, PAIR_T[0]), off(&FsTzdbProvider::default(), z, PAIR_T[1])]).collect();
        let all = tier == Tier::Thorough;
        let pairs = name_pairs(names, all);
        NamePairs { names: names.to_vec(), fresh, pairs, all }
    }
}

impl Space for NamePairs {
    fn name(&self) -> String {
        "c15.name_pair_histories".into()
    }
    fn len(&self) -> u64 {
        self.pairs.len() as u64
    }
    fn block(&self) -> u64 {
        256
    }
    fn eval(&self, i: u64, out: &mut Out) {
        let (a, b) = self.pairs[i as usize];
        let (a, b) = (a as usize, b as usize);
        let p = FsTzdbProvider::default();
        if a != b {
            out.nontrivial += 1;
        }
        for (step, (z, k)) in [(a, 0usize), (b, 0), (b, 1), (a, 1)].into_iter().enumerate() {
            let name = &self.names[z];
            let got = call_inf(|| Ans::Off(p.get_named_tz_offset_nanoseconds(name, PAIR_T[k]).map(|o| o.offset).map_err(|e| format!("{:?}", e.kind()))));
            out.lockstep("query after another name = fresh provider", &Ok(self.fresh[z][k].clone()), &got, |x, y| x == y, || vec![("first", self.names[a].clone()), ("second", self.names[b].clone()), ("step", step.to_string())]);
        }
    }
    fn describe(&self) -> serde_json::Value {
        json!({"names": self.names.len(), "ordered_pairs": self.pairs.len(), "every_pair": self.all, "queries_per_pair": 4})
    }
}

/// check_identifier after data queries on the same provider: the verdict about a name is that of a fresh
/// provider (the IANA names, whatever their letter case - and nothing else, although other files of the zoneinfo
/// directory can be loaded by name).
struct IdentifierAfterQueries;
const IAQ_NAMES: [&str; 12] = ["posixrules", "localtime", "Factory", "posix/Europe/Berlin", "right/UTC", "right/Europe/Berlin", "Europe/Berlin", "europe/berlin", "EST5EDT", "tzdata.zi", "Nowhere/Special", "Etc/GMT+1"];
impl Space for IdentifierAfterQueries {
    fn name(&self) -> String {
        "c15.identifier_after_queries".into()
    }
    fn len(&self) -> u64 {
        (IAQ_NAMES.len() * IAQ_NAMES.len()) as u64
    }
    fn block(&self) -> u64 {
        4
    }
    fn eval(&self, i: u64, out: &mut Out) {
        let (queried, asked) = (IAQ_NAMES[i as usize / IAQ_NAMES.len()], IAQ_NAMES[i as usize % IAQ_NAMES.len()]);
        let known = zone_names();
        let model = |n: &str| known.iter().any(|k| k.eq_ignore_ascii_case(n));
        let p = FsTzdbProvider::default();
        out.nontrivial += 1;
        let attrs = |when: &str| vec![("queried", queried.to_string()), ("asked", asked.to_string()), ("when", when.to_string()), ("asked_is_a_loadable_file", std::path::Path::new(&format!("{ZONEINFO}/{asked}")).is_file().to_string())];
        let before = call_inf(|| p.check_identifier(asked));
        out.lockstep("check_identifier", &Ok(model(asked)), &before, |a, b| a == b, || attrs("fresh provider"));
        let _ = call(|| p.get_named_tz_offset_nanoseconds(queried, 1_600_000_000_000_000_000));
        if let Some(dt) = iso_dt(1_600_000_000_000_000_000) {
            let _ = call(|| p.get_named_tz_epoch_nanoseconds(queried, dt));
        }
        let after = call_inf(|| p.check_identifier(asked));
        out.lockstep("check_identifier", &Ok(model(asked)), &after, |a, b| a == b, || attrs("after an offset query and a local query"));
    }
    fn describe(&self) -> serde_json::Value {
        json!({"names": IAQ_NAMES, "ordered_pairs": IAQ_NAMES.len() * IAQ_NAMES.len()})
    }
}

/// A TZif version-2 file written by the harness: `types` (utoff, isdst), `trans` (time, type), footer.
pub fn write_tzif(types: &[(i32, bool)], trans: &[(i64, u8)], footer: &str) -> Vec<u8> {
    fn header(out: &mut Vec<u8>, timecnt: u32, typecnt: u32, charcnt: u32) {
        out.extend_from_slice(b"TZif2");
        out.extend_from_slice(&[0u8; 15]);
        for v in [0u32, 0, 0, timecnt, typecnt, charcnt] {
            out.extend_from_slice(&v.to_be_bytes());
        }
    }
    let mut out = vec![];
    // version-1 block: no transitions, one type, designation "UTC\0"
    header(&mut out, 0, 1, 4);
    out.extend_from_slice(&0i32.to_be_bytes());
    out.extend_from_slice(&[0, 0]);
    out.extend_from_slice(b"UTC\0");
    // version-2 block
    let chars: Vec<u8> = (0..types.len()).flat_map(|k| vec![b'A' + k as u8, b'A' + k as u8, b'A' + k as u8, 0]).collect();
    header(&mut out, trans.len() as u32, types.len() as u32, chars.len() as u32);
    for (t, _) in trans {
        out.extend_from_slice(&t.to_be_bytes());
    }
    for (_, ty) in trans {
        out.push(*ty);
    }
    for (k, (off, dst)) in types.iter().enumerate() {
        out.extend_from_slice(&off.to_be_bytes());
        out.push(*dst as u8);
        out.push((4 * k) as u8);
    }
    out.extend_from_slice(&chars);
    out.push(b'\n');
    out.extend_from_slice(footer.as_bytes());
    out.push(b'\n');
    out
}

/// Files the installed zoneinfo does not contain: every Mm.w.d rule date, the Jn and n forms, negative and
/// beyond-24h transition times, negative daylight saving, fractional-hour offsets, with and without a table.
struct SyntheticFiles {
    footers: Vec<String>,
}
impl SyntheticFiles {
    fn new() -> Self {
        let mut footers: Vec<String> = ["AAA5BBB,M3.2.0,M11.1.0", "AAA-1BBB,M3.5.0,M10.5.0/3", "<+1030>-10:30<+11>-11,M10.1.0,M4.1.0", "AAA-1BBB0,M10.5.0,M3.5.0/1", "<-03>3<-02>,M3.5.0/-2,M10.5.0/-1", "AAA-2BBB,M3.4.4/26,M10.5.0", "AAA-3BBB,J60/2,J300/3", "AAA-3BBB,J59/2,J365/23", "AAA3BBB,59/2,300", "AAA3BBB,58/2,364/1", "AAA-3BBB-5,M1.1.0/0,M12.5.6/24", "AAA0", "<+0545>-5:45", "AAA-12BBB,M2.5.3/2:30,M8.1.1/0:15", "AAA11BBB,M9.5.0/2,M4.1.0/3", "AAA-3:30BBB-4:30,J1/0,J365/24"].iter().map(|s| s.to_string()).collect();
        for m in 1..=12u8 {
            for w in 1..=5u8 {
                for d in 0..=6u8 {
                    footers.push(format!("AAA5BBB,M{m}.{w}.{d}/2,M{}.2.0/2", (m + 5) % 12 + 1));
                }
            }
        }
        SyntheticFiles { footers }
    }
}
impl Space for SyntheticFiles {
    fn name(&self) -> String {
        "c15.synthetic_files".into()
    }
    fn len(&self) -> u64 {
        self.footers.len() as u64 * 2
    }
    fn block(&self) -> u64 {
        4
    }
    fn eval(&self, i: u64, out: &mut Out) {
        let footer = &self.footers[(i / 2) as usize];
        let with_table = i % 2 == 1;
        let Ok(rule) = r7::parse_posix(footer) else {
            out.note(|| format!("reference cannot parse footer {footer}"));
            out.unjudged += 1;
            return;
        };
        let mut types: Vec<(i32, bool)> = vec![(rule.std_off as i32, false)];
        if let Some(d) = &rule.dst {
            types.push((d.0 as i32, true));
        }
        let mut trans: Vec<(i64, u8)> = vec![];
        if with_table {
            // a local-mean-time-like first type and one listed transition to standard time in 1990
            types.insert(0, (rule.std_off as i32 + 1_234, false));
            trans.push((631_152_000, 1));
        }
        let bytes = write_tzif(&types, &trans, footer);
        let attrs0 = || vec![("footer", footer.clone()), ("table", with_table.to_string())];
        let file = match r7::parse_tzif(&bytes) {
            Ok(f) => f,
            Err(e) => {
                out.note(|| format!("reference cannot read its own file: {e}"));
                out.unjudged += 1;
                return;
            }
        };
        let years: Vec<i64> = vec![1991, 1992, 2000, 2037, 2038, 2039, 2040, 2041, 2042, 2043, 2044, 2096, 2100, 2104, 2399, 2400];
        let Ok(zone) = r7::build_zone(&file, &years) else {
            out.unjudged += 1;
            return;
        };
        let tz = match call(|| temporal_rs::tzdb::Tzif::from_bytes(&bytes)) {
            Oc::Ok(t) => t,
            _ => {
                // the external tzif crate refuses the file (not the repository's reading of it)
                out.unjudged += 1;
                out.count("files_refused_by_the_tzif_parser", 1);
                return;
            }
        };
        out.nontrivial += 1;
        let covered = |t_ns: i128| {
            let y = civil_from_days(((t_ns / NS) as i64).div_euclid(86_400)).0;
            rule.dst.is_none() || years.contains(&y) && years.contains(&(y + 1)) || !with_table && false || (with_table && (t_ns / NS) as i64 <= 631_152_000)
        };
        for (k, (t, off_after)) in zone.trans.iter().enumerate() {
            let off_before = if k == 0 { zone.initial } else { zone.trans[k - 1].1 };
            for probe in [*t - NS, *t, *t + NS, *t + 40 * NS_PER_DAY] {
                if !covered(probe) {
                    continue;
                }
                let ts = (probe / NS) as i64;
                let got = call(|| tz.get(&tzif::data::time::Seconds(ts)).map(|o| o.offset));
                out.lockstep("Tzif::get (synthetic file)", &Ok(zone.offset_at(probe)), &got, |a, b| a == b, || { let mut a = attrs0(); a.push(("epoch_seconds", ts.to_string())); a });
            }
            let (lo, hi) = { let a = t + off_before as i128 * NS; let b = t + *off_after as i128 * NS; (a.min(b), a.max(b)) };
            for l in [lo - NS, lo, (lo + hi) / 2 / NS * NS, hi - NS, hi] {
                let want: BTreeSet<i128> = zone.candidates(l).into_iter().collect();
                if !covered(l) || want.iter().any(|c| !covered(*c)) {
                    continue;
                }
                let ls = (l / NS) as i64;
                let got = call(|| {
                    tz.v2_estimate_tz_pair(&tzif::data::time::Seconds(ls)).map(|r| match r {
                        temporal_rs::tzdb::LocalTimeRecordResult::Empty => BTreeSet::new(),
                        temporal_rs::tzdb::LocalTimeRecordResult::Single(r) => BTreeSet::from([(ls - r.offset) as i128 * NS]),
                        temporal_rs::tzdb::LocalTimeRecordResult::Ambiguous { std, dst } => BTreeSet::from([(ls - std.offset) as i128 * NS, (ls - dst.offset) as i128 * NS]),
                    })
                });
                out.lockstep("Tzif::v2_estimate_tz_pair (synthetic file)", &Ok(want), &got, |a, b| a == b, || { let mut a = attrs0(); a.push(("local_seconds", ls.to_string())); a.push(("kind", if *off_after > off_before { "gap" } else { "overlap" }.to_string())); a });
            }
        }
    }
    fn describe(&self) -> serde_json::Value {
        json!({"footers": self.footers.len(), "variants": ["footer only", "one listed transition in 1990"], "rule_years": [1991, 1992, 2000, "2037-2044", 2096, 2100, 2104, 2399, 2400]})
    }
}

pub fn spaces(env: &Env) -> Vec<Box<dyn Space>> {
    let names = zone_names();
    vec![Box::new(ZoneSweep { names: names.clone(), tier: env.tier }), Box::new(SyntheticFiles::new()), Box::new(NamePairs::new(&names, env.tier)), Box::new(IdentifierAfterQueries), Box::new(Identifiers { names }), Box::new(Histories { depth: env.tier.pick(3, 4), fresh: (0..13).map(|q| query(&FsTzdbProvider::default(), q)).collect() })]
}

pub fn run(env: &Env) -> i32 {
    let mut rep = Report::new(
        env,
        "model_checking",
        "the zone set is the whole space: every Zone/Link name of tzdata.zi with a TZif file; per zone every listed transition (+-1 s, +-1 ns, midpoints), the period before the first transition, footer-rule transitions after the table, and 5 wall-clock probes around every transition; identifiers in 4 casings and single-character mutants; all query histories up to depth 3 (quick) / 4 (thorough) over three zones against a fresh provider; two names on one provider for the related name pairs (quick) / every ordered pair of names (thorough)",
    );
    rep.assumptions.push("R7: independent TZif v2+ reader and POSIX TZ evaluator (day scanning), cross-validated against CPython zoneinfo by py/tzif_crosscheck.py; candidate lists are compared as sets".into());
    if let Ok(x) = std::env::var("TMC_R7_CROSSCHECK") {
        rep.extra.insert("r7_vs_cpython_zoneinfo".into(), json!(x));
    }
    for s in spaces(env) {
        rep.run(s.as_ref());
    }
    rep.finish()
}

/// Dump the reference model's answers for the C15 offset probes (one JSON line per zone) so that
/// py/tzif_crosscheck.py can compare them with CPython's zoneinfo.
pub fn r7dump(path: &str) {
    use std::io::Write;
    let mut f = std::io::BufWriter::new(std::fs::File::create(path).expect("create dump"));
    for name in zone_names() {
        let Ok(rz) = load_ref_zone(&name) else {
            writeln!(f, "{}", json!({"zone": name, "error": "unreadable"})).unwrap();
            continue;
        };
        let mut q: Vec<(i64, i64)> = vec![];
        let mut push = |ts: i64| {
            let y = civil_from_days(ts.div_euclid(86_400)).0;
            let covered = ts <= rz.last_table || !rz.has_rule || rz.rule_years.contains(&y);
            if covered && (2..=9998).contains(&y) {
                q.push((ts, rz.zone.offset_at(ts as i128 * NS)));
            }
        };
        for (t, _) in &rz.zone.trans {
            let ts = (*t / NS) as i64;
            push(ts - 1);
            push(ts);
            push(ts + 1);
        }
        if let Some(first) = rz.file.trans.first() {
            push(first.0 - 1);
            push(first.0 - 86_400 * 400);
        }
        push(0);
        push(-1);
        // local candidates around each transition
        let mut loc: Vec<(i64, Vec<i64>)> = vec![];
        for (k, (t, off_after)) in rz.zone.trans.iter().enumerate() {
            let off_before = if k == 0 { rz.zone.initial } else { rz.zone.trans[k - 1].1 };
            let a = t + off_before as i128 * NS;
            let b = t + *off_after as i128 * NS;
            for l in [a.min(b) - NS, a.min(b), (a + b) / 2 / NS * NS, a.max(b) - NS, a.max(b)] {
                let y = civil_from_days(((l / NS) as i64).div_euclid(86_400)).0;
                if !(2..=9998).contains(&y) {
                    continue;
                }
                let c = rz.zone.candidates(l);
                if c.iter().any(|c| (*c / NS) as i64 > rz.last_table && rz.has_rule && !rz.rule_years.contains(&civil_from_days(((*c / NS) as i64).div_euclid(86_400)).0)) {
                    continue;
                }
                loc.push(((l / NS) as i64, c.iter().map(|x| (*x / NS) as i64).collect()));
            }
        }
        writeln!(f, "{}", json!({"zone": name, "offsets": q, "locals": loc})).unwrap();
    }
}

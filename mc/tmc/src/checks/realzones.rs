//! C13 / C14 on the zones of the installed zoneinfo: the same public operation is executed with the bundled
//! provider (FsTzdbProvider, reading the TZif files itself) and with a harness-owned provider serving the
//! reference reader's (R7) parse of the same file; both outcomes must be identical. The probes sit around the
//! transitions of 2020-2024 (listed in the files) and of 2037-2045 (computed from the footer rule), so the
//! composition "bundled provider + zone algorithms" is exercised where C13 / C14's generated rule sets never go.

use crate::checks::c15::{iso_dt, load_ref_zone, zone_names};
use crate::engine::*;
use crate::providers::SynthProvider;
use serde_json::json;
use temporal_rs::options::{DifferenceSettings, Disambiguation, Unit};
use temporal_rs::tzdb::FsTzdbProvider;
use temporal_rs::{Calendar, Duration, PlainDateTime, TimeZone, ZonedDateTime};
use tmc_ref::r1::civil_from_days;

pub struct RealZones {
    pub prop: &'static str,
    pub names: Vec<String>,
    /// last year of the footer-rule window (2045 quick; 2437 thorough: a whole 400-year cycle)
    pub last_year: i64,
}

impl RealZones {
    pub fn new(prop: &'static str, tier: Tier) -> Self {
        let names = zone_names();
        RealZones { prop, names, last_year: tier.pick(2045, 2437) }
    }
}

fn show<T: std::fmt::Debug>(r: temporal_rs::TemporalResult<T>) -> Result<String, temporal_rs::error::ErrorKind> {
    r.map(|v| format!("{v:?}")).map_err(|e| e.kind())
}

const H: i128 = 3_600_000_000_000;

/// Evaluate the expression once with the reference provider and once with the bundled one; compare the outcomes.
macro_rules! both {
    ($out:expr, $rp:expr, $fs:expr, $op:expr, $attrs:expr, $p:ident, $e:expr) => {{
        let want = {
            let $p = $rp;
            show($e)
        };
        let got = call(|| {
            let $p = $fs;
            $e
        });
        $out.lockstep($op, &want, &got, |a, b| *a == format!("{b:?}"), $attrs);
    }};
}

impl Space for RealZones {
    fn name(&self) -> String {
        format!("{}.real_zones_vs_reference", self.prop)
    }
    fn len(&self) -> u64 {
        self.names.len() as u64
    }
    fn block(&self) -> u64 {
        2
    }
    fn eval(&self, i: u64, out: &mut Out) {
        let name = &self.names[i as usize];
        let Ok(rz) = crate::checks::c15::load_ref_zone_with(name, self.last_year > 2045) else {
            out.unjudged += 1;
            return;
        };
        let fs = FsTzdbProvider::default();
        let rp = SynthProvider { name, zone: &rz.zone };
        let tz = TimeZone::IanaIdentifier(name.clone());
        let year_of = |t: i128| civil_from_days((t.div_euclid(86_400_000_000_000)) as i64).0;
        let trans: Vec<(i128, i64)> = rz.zone.trans.iter().copied().filter(|(t, _)| (2020..=2024).contains(&year_of(*t)) || (2037..=self.last_year).contains(&year_of(*t))).collect();
        if !trans.is_empty() {
            out.nontrivial += 1;
        }
        // without a transition in the windows: two plain instants
        let probes: Vec<(i128, i64, i64)> = if trans.is_empty() { vec![(1_600_000_000_000_000_000, rz.zone.offset_at(1_600_000_000_000_000_000), rz.zone.offset_at(1_600_000_000_000_000_000)), (2_240_000_000_000_000_000, rz.zone.offset_at(2_240_000_000_000_000_000), rz.zone.offset_at(2_240_000_000_000_000_000))] } else { trans.iter().map(|(t, after)| (*t, rz.zone.offset_at(*t - 1), *after)).collect() };
        for (t, before, after) in probes {
            let attrs = |what: String| vec![("zone", name.clone()), ("transition", t.to_string()), ("year", year_of(t).to_string()), ("footer_rule_year", (year_of(t) >= 2037).to_string()), ("probe", what)];
            if self.prop == "c13" {
                // wall-clock readings before, inside and after the skipped / repeated stretch, every disambiguation
                let lo = t + before.min(after) as i128 * 1_000_000_000;
                let hi = t + before.max(after) as i128 * 1_000_000_000;
                for (label, local) in [("an hour before", lo - H), ("first instant", lo), ("middle", (lo + hi) / 2), ("last ns", hi - 1), ("just after", hi), ("a day after", hi + 24 * H)] {
                    let Some(dt) = iso_dt(local) else { continue };
                    let Ok(pdt) = PlainDateTime::try_new(dt.date.year, dt.date.month, dt.date.day, dt.time.hour, dt.time.minute, dt.time.second, dt.time.millisecond, dt.time.microsecond, dt.time.nanosecond, Calendar::default()) else { continue };
                    for dis in [Disambiguation::Compatible, Disambiguation::Earlier, Disambiguation::Later, Disambiguation::Reject] {
                        both!(out, &rp, &fs, "PlainDateTime::to_zoned_date_time (bundled provider = reference provider)", || attrs(format!("{label} {dis:?}")), pp, pdt.to_zoned_date_time_with_provider(&tz, dis, pp).map(|z| z.epoch_nanoseconds().as_i128()));
                    }
                    both!(out, &rp, &fs, "PlainDate::to_zoned_date_time(start of day) (bundled provider = reference provider)", || attrs(label.to_string()), pp, pdt.to_plain_date().and_then(|d| d.to_zoned_date_time_with_provider(tz.clone(), None, pp)).map(|z| z.epoch_nanoseconds().as_i128()));
                }
                for (label, at) in [("1 ns before", t - 1), ("at", t), ("an hour after", t + H)] {
                    let Ok(z) = ZonedDateTime::try_new(at, Calendar::default(), tz.clone()) else { continue };
                    both!(out, &rp, &fs, "ZonedDateTime::to_plain_datetime (bundled provider = reference provider)", || attrs(label.to_string()), pp, z.to_plain_datetime_with_provider(pp));
                    both!(out, &rp, &fs, "ZonedDateTime::offset (bundled provider = reference provider)", || attrs(label.to_string()), pp, z.offset_with_provider(pp));
                }
            } else {
                let day = Duration::new(0.into(), 0.into(), 0.into(), 1.into(), 0.into(), 0.into(), 0.into(), 0.into(), 0.into(), 0.into()).unwrap();
                let mday = day.negated();
                let h24 = Duration::new(0.into(), 0.into(), 0.into(), 0.into(), 24.into(), 0.into(), 0.into(), 0.into(), 0.into(), 0.into()).unwrap();
                let month = Duration::new(0.into(), 1.into(), 0.into(), 0.into(), 0.into(), 30.into(), 0.into(), 0.into(), 0.into(), 0.into()).unwrap();
                for (label, at) in [("12 h before", t - 12 * H), ("1 ns before", t - 1), ("at", t), ("12 h after", t + 12 * H), ("30 h after", t + 30 * H)] {
                    let Ok(z) = ZonedDateTime::try_new(at, Calendar::default(), tz.clone()) else { continue };
                    for (dl, d) in [("P1D", &day), ("-P1D", &mday), ("PT24H", &h24), ("P1MT30M", &month)] {
                        both!(out, &rp, &fs, "ZonedDateTime::add (bundled provider = reference provider)", || attrs(format!("{label} + {dl}")), pp, z.add_with_provider(d, None, pp).map(|x| x.epoch_nanoseconds().as_i128()));
                    }
                    both!(out, &rp, &fs, "ZonedDateTime::hours_in_day (bundled provider = reference provider)", || attrs(label.to_string()), pp, z.hours_in_day_with_provider(pp));
                    both!(out, &rp, &fs, "ZonedDateTime::start_of_day (bundled provider = reference provider)", || attrs(label.to_string()), pp, z.start_of_day_with_provider(pp).map(|x| x.epoch_nanoseconds().as_i128()));
                    if let Ok(other) = ZonedDateTime::try_new(t + 36 * H + 1, Calendar::default(), tz.clone()) {
                        for lu in [Unit::Day, Unit::Hour, Unit::Month] {
                            let mut s = DifferenceSettings::default();
                            s.largest_unit = Some(lu);
                            both!(out, &rp, &fs, "ZonedDateTime::until (bundled provider = reference provider)", || attrs(format!("{label} until 36 h after, largest {lu:?}")), pp, z.until_with_provider(&other, s, pp));
                            both!(out, &rp, &fs, "ZonedDateTime::since (bundled provider = reference provider)", || attrs(format!("36 h after since {label}, largest {lu:?}")), pp, other.since_with_provider(&z, s, pp));
                        }
                    }
                }
            }
        }
        if out.want_sample() && name == "Pacific/Auckland" {
            out.sample(json!({"zone": name, "transitions_probed": trans.len()}));
        }
    }
    fn describe(&self) -> serde_json::Value {
        json!({"zones": self.names.len(), "windows": format!("transitions of 2020-2024 (table) and 2037-{} (footer rule)", self.last_year), "reference": "R7 reader's parse of the same TZif file served through a harness-owned provider"})
    }
}

//! C19 part B — every temporal_capi function (called from Rust) vs the temporal_rs method it names.
//! The FFI side is observed through FFI getters only (its inner values are not accessible).

use crate::checks::c19::{render, same};
use crate::engine::*;
use crate::imp::*;
use diplomat_runtime::{DiplomatOption, DiplomatWrite};
use serde_json::json;
use std::collections::BTreeSet;
use std::str::FromStr;
use icu_calendar::any_calendar as icu_kind;
use temporal_capi::calendar::ffi as fcal;
use temporal_capi::duration::ffi as fdur;
use temporal_capi::error::ffi as ferr;
use temporal_capi::instant::ffi as finst;
use temporal_capi::iso::ffi as fiso;
use temporal_capi::options::ffi as fopt;
use temporal_capi::plain_date::ffi as fdate;
use temporal_capi::plain_date_time::ffi as fdt;
use temporal_capi::plain_month_day::ffi as fmd;
use temporal_capi::plain_time::ffi as ftime;
use temporal_capi::plain_year_month::ffi as fym;
use temporal_rs::error::ErrorKind;
use temporal_rs::options::{ArithmeticOverflow, DisplayCalendar, RoundingMode, ToStringRoundingOptions, Unit};
use temporal_rs::parsers::Precision;
use temporal_rs::partial::{PartialDate, PartialDateTime, PartialDuration, PartialTime};
use temporal_rs::{Calendar, DateDuration, Duration, Instant, MonthCode, PlainDate, PlainDateTime, PlainMonthDay, PlainTime, PlainYearMonth, TemporalError, TemporalResult, TimeDuration};

extern "C" {
    // #[no_mangle] symbols of diplomat-runtime that the crate does not re-export
    fn diplomat_buffer_write_get_bytes(this: &DiplomatWrite) -> *mut u8;
    fn diplomat_buffer_write_len(this: &DiplomatWrite) -> usize;
}

/// Run an FFI function that writes text; returns the text.
pub fn written(f: impl FnOnce(&mut DiplomatWrite)) -> String {
    unsafe {
        let w = diplomat_runtime::diplomat_buffer_write_create(16);
        f(&mut *w);
        let len = diplomat_buffer_write_len(&*w);
        let ptr = diplomat_buffer_write_get_bytes(&*w);
        let s = if ptr.is_null() { String::from("<alloc failed>") } else { String::from_utf8_lossy(std::slice::from_raw_parts(ptr, len)).to_string() };
        diplomat_runtime::diplomat_buffer_write_destroy(w);
        s
    }
}

/// FFI result -> TemporalResult with the error kind mapped back to the core enum.
pub fn fr<T>(r: Result<T, ferr::TemporalError>) -> TemporalResult<T> {
    r.map_err(|e| {
        let k: ErrorKind = e.kind.into();
        match k {
            ErrorKind::Range => TemporalError::range(),
            ErrorKind::Type => TemporalError::r#type(),
            ErrorKind::Syntax => TemporalError::syntax(),
            ErrorKind::Generic => TemporalError::general("generic"),
            // an Assert kind cannot be constructed from outside: render it as a distinct generic message
            ErrorKind::Assert => TemporalError::general("ASSERT"),
        }
    })
}

type Snap = Vec<(&'static str, String)>;
fn d<T: std::fmt::Debug>(v: T) -> String {
    format!("{v:?}")
}

// ---- snapshots: the same list of observations through FFI getters and through core getters ----

fn snap_date_ffi(x: &fdate::PlainDate) -> Snap {
    vec![
        ("iso_year", d(x.iso_year())),
        ("iso_month", d(x.iso_month())),
        ("iso_day", d(x.iso_day())),
        ("calendar", d(x.calendar().identifier())),
        ("is_valid", d(x.is_valid())),
        ("year", d(x.year())),
        ("month", d(x.month())),
        ("month_code", written(|w| x.month_code(w))),
        ("day", d(x.day())),
        ("day_of_week", d(x.day_of_week())),
        ("day_of_year", d(x.day_of_year())),
        ("week_of_year", d(fr(x.week_of_year()).map_err(|e| e.kind()))),
        ("year_of_week", d(fr(x.year_of_week()).map_err(|e| e.kind()))),
        ("days_in_week", d(fr(x.days_in_week()).map_err(|e| e.kind()))),
        ("days_in_month", d(x.days_in_month())),
        ("days_in_year", d(x.days_in_year())),
        ("months_in_year", d(x.months_in_year())),
        ("in_leap_year", d(x.in_leap_year())),
        ("era", written(|w| x.era(w))),
        ("era_year", d(x.era_year())),
        ("to_ixdtf_string", written(|w| x.to_ixdtf_string(fopt::DisplayCalendar::Always, w))),
    ]
}
fn snap_date_core(x: &PlainDate) -> Snap {
    vec![
        ("iso_year", d(x.iso_year())),
        ("iso_month", d(x.iso_month())),
        ("iso_day", d(x.iso_day())),
        ("calendar", d(x.calendar().identifier())),
        ("is_valid", d(x.is_valid())),
        ("year", d(x.year())),
        ("month", d(x.month())),
        ("month_code", x.month_code().as_str().to_string()),
        ("day", d(x.day())),
        ("day_of_week", d(x.day_of_week())),
        ("day_of_year", d(x.day_of_year())),
        ("week_of_year", d(x.week_of_year().map_err(|e| e.kind()))),
        ("year_of_week", d(x.year_of_week().map_err(|e| e.kind()))),
        ("days_in_week", d(x.days_in_week().map_err(|e| e.kind()))),
        ("days_in_month", d(x.days_in_month())),
        ("days_in_year", d(x.days_in_year())),
        ("months_in_year", d(x.months_in_year())),
        ("in_leap_year", d(x.in_leap_year())),
        ("era", x.era().map(|e| e.to_string()).unwrap_or_default()),
        ("era_year", d(x.era_year())),
        ("to_ixdtf_string", x.to_ixdtf_string(DisplayCalendar::Always)),
    ]
}

fn snap_time_ffi(x: &ftime::PlainTime) -> Snap {
    vec![("hour", d(x.hour())), ("minute", d(x.minute())), ("second", d(x.second())), ("millisecond", d(x.millisecond())), ("microsecond", d(x.microsecond())), ("nanosecond", d(x.nanosecond()))]
}
fn snap_time_core(x: &PlainTime) -> Snap {
    vec![("hour", d(x.hour())), ("minute", d(x.minute())), ("second", d(x.second())), ("millisecond", d(x.millisecond())), ("microsecond", d(x.microsecond())), ("nanosecond", d(x.nanosecond()))]
}

fn snap_dur_ffi(x: &fdur::Duration) -> Snap {
    let sg = |s: fdur::Sign| d(temporal_rs::Sign::from(s));
    vec![
        ("years", d(x.years())),
        ("months", d(x.months())),
        ("weeks", d(x.weeks())),
        ("days", d(x.days())),
        ("hours", d(x.hours())),
        ("minutes", d(x.minutes())),
        ("seconds", d(x.seconds())),
        ("milliseconds", d(x.milliseconds())),
        ("microseconds", d(x.microseconds())),
        ("nanoseconds", d(x.nanoseconds())),
        ("sign", sg(x.sign())),
        ("is_zero", d(x.is_zero())),
        ("is_time_within_range", d(x.is_time_within_range())),
        ("time.sign", sg(x.time().sign())),
        ("time.is_within_range", d(x.time().is_within_range())),
        ("date.sign", sg(x.date().sign())),
    ]
}
fn snap_dur_core(x: &Duration) -> Snap {
    vec![
        ("years", d(x.years().as_inner())),
        ("months", d(x.months().as_inner())),
        ("weeks", d(x.weeks().as_inner())),
        ("days", d(x.days().as_inner())),
        ("hours", d(x.hours().as_inner())),
        ("minutes", d(x.minutes().as_inner())),
        ("seconds", d(x.seconds().as_inner())),
        ("milliseconds", d(x.milliseconds().as_inner())),
        ("microseconds", d(x.microseconds().as_inner())),
        ("nanoseconds", d(x.nanoseconds().as_inner())),
        ("sign", d(x.sign())),
        ("is_zero", d(x.is_zero())),
        ("is_time_within_range", d(x.is_time_within_range())),
        ("time.sign", d(x.time().sign())),
        ("time.is_within_range", d(x.time().is_within_range())),
        ("date.sign", d(x.date().sign())),
    ]
}

fn i128_of(n: finst::I128Nanoseconds) -> i128 {
    ((n.high as i128) << 64) | n.low as i128
}
/// two's complement split: high = upper 64 bits (with the sign), low = lower 64 bits
pub fn i128_parts(v: i128) -> finst::I128Nanoseconds {
    finst::I128Nanoseconds { high: (v >> 64) as i64, low: v as u64 }
}
fn snap_inst_ffi(x: &finst::Instant) -> Snap {
    vec![("epoch_milliseconds", d(x.epoch_milliseconds())), ("epoch_nanoseconds", d(i128_of(x.epoch_nanoseconds())))]
}
fn snap_inst_core(x: &Instant) -> Snap {
    vec![("epoch_milliseconds", d(x.epoch_milliseconds())), ("epoch_nanoseconds", d(x.epoch_nanoseconds().as_i128()))]
}

fn snap_dt_ffi(x: &fdt::PlainDateTime) -> Snap {
    let mut v = vec![
        ("iso_year", d(x.iso_year())),
        ("iso_month", d(x.iso_month())),
        ("iso_day", d(x.iso_day())),
        ("hour", d(x.hour())),
        ("minute", d(x.minute())),
        ("second", d(x.second())),
        ("millisecond", d(x.millisecond())),
        ("microsecond", d(x.microsecond())),
        ("nanosecond", d(x.nanosecond())),
        ("calendar", d(x.calendar().identifier())),
        ("year", d(x.year())),
        ("month", d(x.month())),
        ("month_code", written(|w| x.month_code(w))),
        ("day", d(x.day())),
        ("day_of_week", d(x.day_of_week())),
        ("day_of_year", d(x.day_of_year())),
        ("week_of_year", d(fr(x.week_of_year()).map_err(|e| e.kind()))),
        ("year_of_week", d(fr(x.year_of_week()).map_err(|e| e.kind()))),
        ("days_in_week", d(fr(x.days_in_week()).map_err(|e| e.kind()))),
        ("days_in_month", d(x.days_in_month())),
        ("days_in_year", d(x.days_in_year())),
        ("months_in_year", d(x.months_in_year())),
        ("in_leap_year", d(x.in_leap_year())),
        ("era", written(|w| x.era(w))),
        ("era_year", d(x.era_year())),
    ];
    let mut err = None;
    let s = written(|w| err = x.to_ixdtf_string(fopt::ToStringRoundingOptions { precision: fopt::Precision { is_minute: false, precision: DiplomatOption::from(None) }, smallest_unit: DiplomatOption::from(None), rounding_mode: DiplomatOption::from(None) }, fopt::DisplayCalendar::Always, w).err());
    v.push(("to_ixdtf_string", if err.is_some() { "Err".into() } else { s }));
    v
}
fn snap_dt_core(x: &PlainDateTime) -> Snap {
    vec![
        ("iso_year", d(x.iso_year())),
        ("iso_month", d(x.iso_month())),
        ("iso_day", d(x.iso_day())),
        ("hour", d(x.hour())),
        ("minute", d(x.minute())),
        ("second", d(x.second())),
        ("millisecond", d(x.millisecond())),
        ("microsecond", d(x.microsecond())),
        ("nanosecond", d(x.nanosecond())),
        ("calendar", d(x.calendar().identifier())),
        ("year", d(x.year())),
        ("month", d(x.month())),
        ("month_code", x.month_code().as_str().to_string()),
        ("day", d(x.day())),
        ("day_of_week", d(x.day_of_week())),
        ("day_of_year", d(x.day_of_year())),
        ("week_of_year", d(x.week_of_year().map_err(|e| e.kind()))),
        ("year_of_week", d(x.year_of_week().map_err(|e| e.kind()))),
        ("days_in_week", d(x.days_in_week().map_err(|e| e.kind()))),
        ("days_in_month", d(x.days_in_month())),
        ("days_in_year", d(x.days_in_year())),
        ("months_in_year", d(x.months_in_year())),
        ("in_leap_year", d(x.in_leap_year())),
        ("era", x.era().map(|e| e.to_string()).unwrap_or_default()),
        ("era_year", d(x.era_year())),
        ("to_ixdtf_string", x.to_ixdtf_string(ToStringRoundingOptions::default(), DisplayCalendar::Always).unwrap_or_else(|_| "Err".into())),
    ]
}

fn snap_ym_ffi(x: &fym::PlainYearMonth) -> Snap {
    vec![
        ("iso_year", d(x.iso_year())),
        ("padded_iso_year_string", written(|w| x.padded_iso_year_string(w))),
        ("iso_month", d(x.iso_month())),
        ("year", d(x.year())),
        ("month", d(x.month())),
        ("month_code", written(|w| x.month_code(w))),
        ("in_leap_year", d(x.in_leap_year())),
        ("days_in_month", d(x.days_in_month())),
        ("days_in_year", d(x.days_in_year())),
        ("months_in_year", d(x.months_in_year())),
        ("era", written(|w| x.era(w))),
        ("era_year", d(x.era_year())),
        ("calendar", d(x.calendar().identifier())),
    ]
}
fn snap_ym_core(x: &PlainYearMonth) -> Snap {
    vec![
        ("iso_year", d(x.iso_year())),
        ("padded_iso_year_string", x.padded_iso_year_string()),
        ("iso_month", d(x.iso_month())),
        ("year", d(x.year())),
        ("month", d(x.month())),
        ("month_code", x.month_code().as_str().to_string()),
        ("in_leap_year", d(x.in_leap_year())),
        ("days_in_month", d(x.days_in_month())),
        ("days_in_year", d(x.days_in_year())),
        ("months_in_year", d(x.months_in_year())),
        ("era", x.era().map(|e| e.to_string()).unwrap_or_default()),
        ("era_year", d(x.era_year())),
        ("calendar", d(x.calendar().identifier())),
    ]
}
fn snap_md_ffi(x: &fmd::PlainMonthDay) -> Snap {
    vec![("iso_year", d(x.iso_year())), ("iso_month", d(x.iso_month())), ("iso_day", d(x.iso_day())), ("calendar", d(x.calendar().identifier())), ("month_code", written(|w| x.month_code(w)))]
}
fn snap_md_core(x: &PlainMonthDay) -> Snap {
    vec![("iso_year", d(x.iso_year())), ("iso_month", d(x.iso_month())), ("iso_day", d(x.iso_day())), ("calendar", d(x.calendar().identifier())), ("month_code", x.month_code().as_str().to_string())]
}

// ---- option / record conversions used as arguments ----

fn f_unit(u: Unit) -> fopt::Unit {
    u.into()
}
fn f_ov(o: ArithmeticOverflow) -> fopt::ArithmeticOverflow {
    o.into()
}
fn f_settings(l: Option<Unit>, s: Option<Unit>, m: Option<RoundingMode>, i: Option<u32>) -> fopt::DifferenceSettings {
    fopt::DifferenceSettings { largest_unit: l.map(f_unit).into(), smallest_unit: s.map(f_unit).into(), rounding_mode: m.map(fopt::RoundingMode::from).into(), increment: i.into() }
}
fn f_round(l: Option<Unit>, s: Option<Unit>, m: Option<RoundingMode>, i: Option<u32>) -> fopt::RoundingOptions {
    fopt::RoundingOptions { largest_unit: l.map(f_unit).into(), smallest_unit: s.map(f_unit).into(), rounding_mode: m.map(fopt::RoundingMode::from).into(), increment: i.into() }
}
const SETTINGS: [(Option<Unit>, Option<Unit>, Option<RoundingMode>, Option<u32>); 9] = [
    (None, None, None, None),
    (Some(Unit::Year), Some(Unit::Month), Some(RoundingMode::HalfEven), Some(2)),
    (Some(Unit::Hour), Some(Unit::Minute), Some(RoundingMode::Ceil), Some(15)),
    (Some(Unit::Auto), Some(Unit::Day), Some(RoundingMode::Floor), None),
    (Some(Unit::Minute), Some(Unit::Hour), None, None), // invalid: largest < smallest
    (None, Some(Unit::Second), None, Some(0)),          // invalid increment
    (None, Some(Unit::Auto), None, None),               // invalid: auto as smallest unit (not the same as absent)
    (Some(Unit::Auto), None, None, None),               // auto as largest unit = absent
    (Some(Unit::Auto), Some(Unit::Auto), Some(RoundingMode::HalfExpand), Some(1)),
];

fn f_partial_date<'a>(p: &'a (Option<i32>, Option<u8>, &'a str, Option<u8>, &'a str, Option<i32>), cal: &'a fcal::Calendar) -> fdate::PartialDate<'a> {
    fdate::PartialDate { year: p.0.into(), month: p.1.into(), month_code: p.2.as_bytes().into(), day: p.3.into(), era: p.4.as_bytes().into(), era_year: p.5.into(), calendar: cal }
}
fn c_partial_date(p: &(Option<i32>, Option<u8>, &str, Option<u8>, &str, Option<i32>), cal: &Calendar) -> Result<PartialDate, TemporalError> {
    let mut r = PartialDate::default();
    r.year = p.0;
    r.month = p.1;
    r.month_code = if p.2.is_empty() { None } else { Some(MonthCode::from_str(p.2).map_err(|_| TemporalError::syntax())?) };
    r.day = p.3;
    r.era = if p.4.is_empty() { None } else { Some(temporal_rs::TinyAsciiStr::try_from_utf8(p.4.as_bytes()).map_err(|_| TemporalError::syntax())?) };
    r.era_year = p.5;
    r.calendar = cal.clone();
    Ok(r)
}
const PARTIAL_DATES: [(Option<i32>, Option<u8>, &str, Option<u8>, &str, Option<i32>); 12] = [
    (Some(2022), Some(5), "", Some(6), "", None),
    (None, None, "M07", None, "", None),
    (Some(2023), None, "", None, "", None),
    (None, Some(2), "", Some(31), "", None),
    (None, Some(3), "M04", None, "", None), // contradiction
    (None, None, "", None, "", None),       // empty
    (None, None, "XYZ", Some(1), "", None), // malformed month code
    // era records: short codes, 16-byte codes, the one 19-byte alias, an unknown era, an over-long one
    (None, Some(3), "", Some(7), "ce", Some(2020)),
    (None, Some(3), "", Some(7), "ethiopic-inverse", Some(12)),
    (None, Some(3), "", Some(7), "ethiopic-amete-alem", Some(5000)),
    (None, None, "M03", Some(7), "no-such-era", Some(5)),
    (None, Some(3), "", Some(7), "an-era-name-of-more-than-19-bytes", Some(5)),
];

fn f_partial_time(p: &[Option<u16>; 6]) -> ftime::PartialTime {
    ftime::PartialTime { hour: p[0].map(|x| x as u8).into(), minute: p[1].map(|x| x as u8).into(), second: p[2].map(|x| x as u8).into(), millisecond: p[3].into(), microsecond: p[4].into(), nanosecond: p[5].into() }
}
fn c_partial_time(p: &[Option<u16>; 6]) -> PartialTime {
    PartialTime { hour: p[0].map(|x| x as u8), minute: p[1].map(|x| x as u8), second: p[2].map(|x| x as u8), millisecond: p[3], microsecond: p[4], nanosecond: p[5] }
}
const PARTIAL_TIMES: [[Option<u16>; 6]; 4] = [[Some(11), None, None, None, None, None], [None, Some(12), Some(13), Some(14), Some(15), Some(16)], [None; 6], [Some(25), None, None, None, None, Some(1000)]];

/// Compare a pair of (FFI outcome, core outcome) where both produce a snapshot.
fn cmp(out: &mut Out, names: &mut BTreeSet<String>, name: &str, ffi: Oc<Snap>, core: Oc<Snap>, attrs: &dyn Fn() -> Vec<(&'static str, String)>) {
    names.insert(name.to_string());
    same(out, name, render(ffi.map(Ok::<Snap, ()>)), render(core.map(Ok::<Snap, ()>)), attrs);
}

macro_rules! pairs {
    ($out:expr, $names:expr, $name:expr, $attrs:expr, $fsnap:expr, $csnap:expr, $f:expr, $c:expr) => {{
        let ffi: Oc<Snap> = match call(|| fr($f)) {
            Oc::Ok(v) => Oc::Ok($fsnap(&*v)),
            Oc::Err(k, _) => Oc::Ok(vec![("error", format!("{k:?}"))]),
            Oc::Panic(m) => Oc::Panic(m),
        };
        let core: Oc<Snap> = match call(|| $c) {
            Oc::Ok(v) => Oc::Ok($csnap(&v)),
            Oc::Err(k, _) => Oc::Ok(vec![("error", format!("{k:?}"))]),
            Oc::Panic(m) => Oc::Panic(m),
        };
        cmp($out, $names, $name, ffi, core, &$attrs);
    }};
}

include!("c19_ffi_spaces.rs");

//! C17 — with / from_partial use only supplied fields; constrain clamps, reject errors.

use crate::conv::*;
use crate::engine::*;
use crate::imp::*;
use crate::providers::ErrProvider;
use serde_json::json;
use std::str::FromStr;
use temporal_rs::error::ErrorKind;
use temporal_rs::options::ArithmeticOverflow;
use temporal_rs::partial::{PartialDate, PartialDateTime, PartialTime, PartialZonedDateTime};
use temporal_rs::{Calendar, MonthCode, PlainDate, PlainDateTime, PlainTime, TimeZone, ZonedDateTime};
use tmc_ref::r1::*;
use tmc_ref::r10::*;
use tmc_ref::r2::{Overflow, Ymd};

const YEARS: [Option<i64>; 9] = [None, Some(-271_821), Some(-1), Some(0), Some(2020), Some(2021), Some(275_760), Some(i32::MIN as i64), Some(i32::MAX as i64)];
const MONTHS: [Option<u8>; 7] = [None, Some(0), Some(1), Some(2), Some(12), Some(13), Some(255)];
const CODES: [Option<(u8, bool)>; 8] = [None, Some((1, false)), Some((2, false)), Some((12, false)), Some((13, false)), Some((2, true)), Some((0, false)), Some((99, false))];
const DAYS: [Option<u8>; 9] = [None, Some(0), Some(1), Some(28), Some(29), Some(30), Some(31), Some(32), Some(255)];
const OVERFLOWS: [(&str, Overflow, Option<ArithmeticOverflow>); 3] = [("constrain", Overflow::Constrain, Some(ArithmeticOverflow::Constrain)), ("reject", Overflow::Reject, Some(ArithmeticOverflow::Reject)), ("absent", Overflow::Constrain, None)];

fn code_text(c: (u8, bool)) -> String {
    format!("M{:02}{}", c.0, if c.1 { "L" } else { "" })
}

fn ipartial(p: &PDate) -> PartialDate {
    let mut d = PartialDate::default();
    d.year = p.year.map(|y| y as i32);
    d.month = p.month;
    d.month_code = p.month_code.map(|c| MonthCode::from_str(&code_text(c)).expect("well-formed month code"));
    d.day = p.day;
    d
}

fn ptext(p: &PDate) -> String {
    format!("{{year:{:?} month:{:?} monthCode:{:?} day:{:?}}}", p.year, p.month, p.month_code.map(code_text), p.day)
}

fn date_partial(ix: &[usize]) -> PDate {
    PDate { year: YEARS[ix[0]], month: MONTHS[ix[1]], month_code: CODES[ix[2]], day: DAYS[ix[3]] }
}

/// Compare an implementation outcome with a field-model result. Returns false on failure.
fn judge<T: std::fmt::Debug>(out: &mut Out, op: &str, model: &Result<Ymd, FErr>, got: &Oc<T>, read: impl Fn(&T) -> (i64, u8, u8), attrs: impl Fn() -> Vec<(&'static str, String)>) -> bool {
    match model {
        Ok(m) => out.lockstep(op, &Ok(*m), got, |m, v| read(v) == (m.y, m.m, m.d), attrs),
        Err(FErr::Type) => out.lockstep(op, &Err::<Ymd, _>(ErrorKind::Type), got, |_, _| true, attrs),
        Err(FErr::Range) => out.lockstep(op, &Err::<Ymd, _>(ErrorKind::Range), got, |_, _| true, attrs),
        Err(FErr::TypeOrRange) => {
            // either kind is fine; anything else (Ok, panic, Assert) is judged against Type
            if got.kind() == Some(ErrorKind::Range) {
                out.transitions += 1;
                true
            } else {
                out.lockstep(op, &Err::<Ymd, _>(ErrorKind::Type), got, |_, _| true, attrs)
            }
        }
        Err(FErr::Unjudged) => {
            out.unjudged += 1;
            // still must not panic / assert
            let ok: Oc<()> = match got {
                Oc::Panic(m) => Oc::Panic(m.clone()),
                Oc::Err(ErrorKind::Assert, m) => Oc::Err(ErrorKind::Assert, m.clone()),
                _ => Oc::Ok(()),
            };
            out.lockstep(op, &Ok(()), &ok, |_, _| true, attrs)
        }
    }
}

fn receivers() -> Vec<Ymd> {
    let mut v = vec![];
    for (y, m, d) in [
        (2020, 1, 31), (2020, 2, 29), (2020, 2, 28), (2021, 2, 28), (2020, 3, 31), (2020, 4, 30), (2020, 12, 31), (2021, 1, 1), (2019, 6, 15), (2000, 2, 29), (1900, 2, 28), (0, 1, 1),
        (-1, 12, 31), (-271_821, 4, 19), (-271_821, 4, 30), (-271_821, 12, 31), (275_760, 9, 13), (275_760, 1, 31), (275_760, 8, 31), (1970, 1, 1), (2024, 2, 29), (2023, 5, 31), (2021, 11, 30), (1999, 12, 31),
    ] {
        v.push(Ymd::new(y, m, d));
    }
    v
}

// ---------------------------------------------------------------------------------------------

struct DateFromPartial;
impl Space for DateFromPartial {
    fn name(&self) -> String {
        "c17.date_from_partial".into()
    }
    fn len(&self) -> u64 {
        (YEARS.len() * MONTHS.len() * CODES.len() * DAYS.len()) as u64
    }
    fn block(&self) -> u64 {
        64
    }
    fn eval(&self, i: u64, out: &mut Out) {
        let ix = unrank(i, &[YEARS.len() as u64, MONTHS.len() as u64, CODES.len() as u64, DAYS.len() as u64]);
        let p = date_partial(&ix);
        out.nontrivial += 1;
        for (ovn, ovm, ovi) in OVERFLOWS {
            let attrs = || vec![("partial", ptext(&p)), ("overflow", ovn.to_string()), ("year_extreme", p.year.map(|y| y.abs() > 1_000_000).unwrap_or(false).to_string())];
            let model = iso_date_from_fields(&p, ovm, true);
            let got = call(|| PlainDate::from_partial(ipartial(&p), ovi));
            judge(out, "PlainDate::from_partial", &model, &got, |v| (v.year() as i64, v.month(), v.day()), attrs);
            // a date-time from the same date fields and no time fields: midnight of that date
            let got = call(|| PlainDateTime::from_partial(PartialDateTime { date: ipartial(&p), time: PartialTime::default() }, ovi));
            let m2 = match (model, p.is_empty()) {
                (_, true) => Err(FErr::Type),
                (Ok(d), _) if d.epoch_day() == MIN_DAY => Err(FErr::Range), // midnight of the first day is outside the date-time limits
                (m, _) => m,
            };
            judge(out, "PlainDateTime::from_partial(date only)", &m2, &got, |v| (v.year() as i64, v.month(), v.day()), attrs);
        }
        if out.want_sample() && p.month == Some(13) && p.day == Some(31) && p.year == Some(2020) && p.month_code.is_none() {
            out.sample(json!({"partial": ptext(&p), "model_constrain": format!("{:?}", iso_date_from_fields(&p, Overflow::Constrain, true)), "model_reject": format!("{:?}", iso_date_from_fields(&p, Overflow::Reject, true))}));
        }
    }
    fn describe(&self) -> serde_json::Value {
        json!({"year": YEARS.len(), "month": MONTHS.len(), "monthCode": CODES.len(), "day": DAYS.len(), "each incl. absent": true, "overflow": 3})
    }
}

struct DateWith {
    recv: Vec<Ymd>,
}
impl Space for DateWith {
    fn name(&self) -> String {
        "c17.date_with".into()
    }
    fn len(&self) -> u64 {
        (self.recv.len() * YEARS.len() * MONTHS.len() * CODES.len() * DAYS.len()) as u64
    }
    fn block(&self) -> u64 {
        256
    }
    fn eval(&self, i: u64, out: &mut Out) {
        let ix = unrank(i, &[YEARS.len() as u64, MONTHS.len() as u64, CODES.len() as u64, DAYS.len() as u64, self.recv.len() as u64]);
        let p = date_partial(&ix);
        let r = self.recv[ix[4]];
        let recv = pd(r.y, r.m, r.d).expect("receiver");
        let recv_dt = plain_date_time(r.epoch_day(), 45_296_789_000_123).ok(); // 12:34:56.789000123
        let supplied = [p.year.is_some(), p.month.is_some() || p.month_code.is_some(), p.day.is_some()].iter().filter(|x| **x).count();
        if supplied >= 1 && supplied < 3 {
            out.nontrivial += 1;
        }
        for (ovn, ovm, ovi) in OVERFLOWS {
            let attrs = || vec![("receiver", format!("{r:?}")), ("partial", ptext(&p)), ("overflow", ovn.to_string()), ("year_extreme", p.year.map(|y| y.abs() > 1_000_000).unwrap_or(false).to_string())];
            let model = if p.is_empty() { Err(FErr::Type) } else { iso_date_from_fields(&merge_date(r, &p), ovm, true) };
            let got = call(|| recv.with(ipartial(&p), ovi));
            judge(out, "PlainDate::with", &model, &got, |v| (v.year() as i64, v.month(), v.day()), attrs);
            if let Some(dt) = &recv_dt {
                let got = call(|| dt.with(PartialDateTime { date: ipartial(&p), time: PartialTime::default() }, ovi));
                let ok = judge(out, "PlainDateTime::with(date fields)", &model, &got, |v| (v.year() as i64, v.month(), v.day()), attrs);
                if let (true, Oc::Ok(v)) = (ok, &got) {
                    // frame law: the time fields were not supplied and must be unchanged
                    out.law("PlainDateTime::with keeps the time", dt_parts(v).1 == 45_296_789_000_123, attrs);
                }
            }
        }
        if out.want_sample() && p.month_code == Some((2, false)) && p.year.is_none() && p.day.is_none() && p.month.is_none() && r.d == 31 {
            out.sample(json!({"receiver": format!("{r:?}"), "partial": ptext(&p), "model_constrain": format!("{:?}", iso_date_from_fields(&merge_date(r, &p), Overflow::Constrain, true))}));
        }
    }
    fn describe(&self) -> serde_json::Value {
        json!({"receivers": self.recv.len(), "partials": YEARS.len() * MONTHS.len() * CODES.len() * DAYS.len(), "overflow": 3})
    }
}

/// Applying a value's own fields (every non-empty subset) to itself is the identity.
struct Identity {
    recv: Vec<Ymd>,
}
impl Space for Identity {
    fn name(&self) -> String {
        "c17.identity".into()
    }
    fn len(&self) -> u64 {
        self.recv.len() as u64 * 15
    }
    fn eval(&self, i: u64, out: &mut Out) {
        let r = self.recv[(i / 15) as usize];
        let mask = (i % 15) + 1;
        out.nontrivial += 1;
        let p = PDate {
            year: if mask & 1 != 0 { Some(r.y) } else { None },
            month: if mask & 2 != 0 { Some(r.m) } else { None },
            month_code: if mask & 4 != 0 { Some((r.m, false)) } else { None },
            day: if mask & 8 != 0 { Some(r.d) } else { None },
        };
        let recv = pd(r.y, r.m, r.d).expect("receiver");
        for (ovn, _, ovi) in OVERFLOWS {
            let attrs = || vec![("receiver", format!("{r:?}")), ("partial", ptext(&p)), ("overflow", ovn.to_string())];
            let got = call(|| recv.with(ipartial(&p), ovi));
            out.lockstep("with(own fields) = identity", &Ok(r), &got, |m, v| (v.year() as i64, v.month(), v.day()) == (m.y, m.m, m.d), attrs);
        }
        if out.want_sample() {
            out.sample(json!({"receiver": format!("{r:?}"), "partial": ptext(&p)}));
        }
    }
}

const TV: [[Option<u16>; 5]; 6] = [
    [None, Some(0), Some(23), Some(24), Some(255)],
    [None, Some(0), Some(59), Some(60), Some(255)],
    [None, Some(0), Some(59), Some(60), Some(255)],
    [None, Some(0), Some(999), Some(1000), Some(65535)],
    [None, Some(0), Some(999), Some(1000), Some(65535)],
    [None, Some(0), Some(999), Some(1000), Some(65535)],
];

fn itime(p: &[Option<u16>; 6]) -> PartialTime {
    PartialTime { hour: p[0].map(|x| x as u8), minute: p[1].map(|x| x as u8), second: p[2].map(|x| x as u8), millisecond: p[3], microsecond: p[4], nanosecond: p[5] }
}

fn tfields(t: &PlainTime) -> [u16; 6] {
    [t.hour() as u16, t.minute() as u16, t.second() as u16, t.millisecond(), t.microsecond(), t.nanosecond()]
}

struct TimePartial;
impl Space for TimePartial {
    fn name(&self) -> String {
        "c17.time".into()
    }
    fn len(&self) -> u64 {
        5u64.pow(6) * 4
    }
    fn block(&self) -> u64 {
        256
    }
    fn eval(&self, i: u64, out: &mut Out) {
        let ix = unrank(i, &[5, 5, 5, 5, 5, 5, 4]);
        let p: [Option<u16>; 6] = core::array::from_fn(|k| TV[k][ix[k]]);
        let base: [u16; 6] = [[0, 0, 0, 0, 0, 0], [23, 59, 59, 999, 999, 999], [12, 34, 56, 789, 12, 345], [1, 2, 3, 4, 5, 6]][ix[6]];
        let empty = p.iter().all(|x| x.is_none());
        let recv = PlainTime::try_new(base[0] as u8, base[1] as u8, base[2] as u8, base[3], base[4], base[5]).expect("receiver");
        out.nontrivial += 1;
        for (ovn, ovm, ovi) in OVERFLOWS {
            let attrs = || vec![("receiver", format!("{base:?}")), ("partial", format!("{p:?}")), ("overflow", ovn.to_string())];
            let conv = |r: Result<[u16; 6], FErr>| -> Result<[u16; 6], ErrorKind> {
                r.map_err(|e| match e {
                    FErr::Type => ErrorKind::Type,
                    _ => ErrorKind::Range,
                })
            };
            let model = if empty { Err(ErrorKind::Type) } else { conv(time_from_fields(base, p, ovm)) };
            let got = call(|| recv.with(itime(&p), ovi));
            out.lockstep("PlainTime::with", &model, &got, |m, v| tfields(v) == *m, attrs);
            if ix[6] == 0 {
                let got = call(|| PlainTime::from_partial(itime(&p), ovi));
                out.lockstep("PlainTime::from_partial", &model, &got, |m, v| tfields(v) == *m, attrs);
                // constructors with the same values (absent = 0)
                if ovi.is_some() {
                    let f: [u16; 6] = core::array::from_fn(|k| p[k].unwrap_or(0));
                    let m3 = conv(time_from_fields([0; 6], f.map(Some), ovm));
                    let got = call(|| PlainTime::new_with_overflow(f[0] as u8, f[1] as u8, f[2] as u8, f[3], f[4], f[5], ovi.unwrap()));
                    out.lockstep("PlainTime::new_with_overflow", &m3, &got, |m, v| tfields(v) == *m, attrs);
                }
            }
        }
        if out.want_sample() && p[0] == Some(24) && p[5] == Some(1000) && p[1].is_none() {
            out.sample(json!({"receiver": format!("{base:?}"), "partial": format!("{p:?}"), "model_constrain": format!("{:?}", time_from_fields(base, p, Overflow::Constrain)), "model_reject": format!("{:?}", time_from_fields(base, p, Overflow::Reject))}));
        }
    }
    fn describe(&self) -> serde_json::Value {
        json!({"per_field_values_incl_absent": 5, "fields": 6, "receivers": 4})
    }
}

/// Date-time records: date partial x a reduced time partial, from_partial and with.
struct DateTimePartial {
    recv: Vec<Ymd>,
}
const TSEL: [Option<u16>; 3] = [None, Some(7), Some(1000)];
impl Space for DateTimePartial {
    fn name(&self) -> String {
        "c17.datetime".into()
    }
    fn len(&self) -> u64 {
        (4 * 3 * 3 * 5 * 27 * 6) as u64
    }
    fn block(&self) -> u64 {
        64
    }
    fn eval(&self, i: u64, out: &mut Out) {
        let ix = unrank(i, &[4, 3, 3, 5, 3, 3, 3, 6]);
        let p = PDate {
            year: [None, Some(2021), Some(275_760), Some(-271_821)][ix[0]],
            month: [None, Some(2), Some(13)][ix[1]],
            month_code: [None, Some((2, false)), Some((4, false))][ix[2]],
            day: [None, Some(1), Some(19), Some(31), Some(255)][ix[3]],
        };
        let t: [Option<u16>; 6] = [TSEL[ix[4]].map(|x| x.min(255)), None, TSEL[ix[5]].map(|x| x.min(255)), None, None, TSEL[ix[6]]];
        let r = self.recv[ix[7] * 4];
        let base = [12u16, 34, 56, 789, 12, 345];
        let recv = plain_date_time(r.epoch_day(), 45_296_789_012_345).expect("receiver");
        out.nontrivial += 1;
        for (ovn, ovm, ovi) in OVERFLOWS {
            let attrs = || vec![("receiver", format!("{r:?}")), ("date", ptext(&p)), ("time", format!("{t:?}")), ("overflow", ovn.to_string())];
            let empty = p.is_empty() && t.iter().all(|x| x.is_none());
            // with
            let dm = if empty { Err(FErr::Type) } else { iso_date_from_fields(&merge_date(r, &p), ovm, true) };
            let tm = time_from_fields(base, t, ovm);
            let model: Result<(Ymd, [u16; 6]), FErr> = match (dm, tm) {
                (Err(e), _) => Err(e),
                (Ok(_), Err(e)) => Err(e),
                (Ok(d), Ok(tt)) => {
                    let tod: i128 = tt[0] as i128 * 3_600_000_000_000 + tt[1] as i128 * 60_000_000_000 + tt[2] as i128 * 1_000_000_000 + tt[3] as i128 * 1_000_000 + tt[4] as i128 * 1000 + tt[5] as i128;
                    if dt_in_limits(d.epoch_day(), tod) {
                        Ok((d, tt))
                    } else {
                        Err(FErr::Range)
                    }
                }
            };
            let got = call(|| recv.with(PartialDateTime { date: ipartial(&p), time: itime(&t) }, ovi));
            let read = |v: &PlainDateTime| ((v.year() as i64, v.month(), v.day()), [v.hour() as u16, v.minute() as u16, v.second() as u16, v.millisecond(), v.microsecond(), v.nanosecond()]);
            match &model {
                Ok((d, tt)) => {
                    out.lockstep("PlainDateTime::with", &Ok(((d.y, d.m, d.d), *tt)), &got, |m, v| read(v) == *m, attrs);
                }
                Err(e) => {
                    judge(out, "PlainDateTime::with", &Err(*e), &got, |v| (v.year() as i64, v.month(), v.day()), attrs);
                }
            }
            // from_partial: date fields required, time defaults to 0
            let dm = if empty { Err(FErr::Type) } else { iso_date_from_fields(&p, ovm, true) };
            let tm = time_from_fields([0; 6], t, ovm);
            let model: Result<(Ymd, [u16; 6]), FErr> = match (dm, tm) {
                (Err(e), _) => Err(e),
                (Ok(_), Err(e)) => Err(e),
                (Ok(d), Ok(tt)) => {
                    let tod: i128 = tt[0] as i128 * 3_600_000_000_000 + tt[2] as i128 * 1_000_000_000 + tt[5] as i128;
                    if dt_in_limits(d.epoch_day(), tod) {
                        Ok((d, tt))
                    } else {
                        Err(FErr::Range)
                    }
                }
            };
            let got = call(|| PlainDateTime::from_partial(PartialDateTime { date: ipartial(&p), time: itime(&t) }, ovi));
            match &model {
                Ok((d, tt)) => {
                    out.lockstep("PlainDateTime::from_partial", &Ok(((d.y, d.m, d.d), *tt)), &got, |m, v| read(v) == *m, attrs);
                }
                Err(e) => {
                    judge(out, "PlainDateTime::from_partial", &Err(*e), &got, |v| (v.year() as i64, v.month(), v.day()), attrs);
                }
            }
        }
        if out.want_sample() && p.day == Some(255) && t[5] == Some(1000) {
            out.sample(json!({"receiver": format!("{r:?}T12:34:56.789012345"), "date": ptext(&p), "time": format!("{t:?}")}));
        }
    }
}

/// ZonedDateTime records over fixed-offset zones (zone answers need no provider).
struct Zoned;
impl Space for Zoned {
    fn name(&self) -> String {
        "c17.zoned".into()
    }
    fn len(&self) -> u64 {
        3 * 3 * 5 * 3 * 3
    }
    fn eval(&self, i: u64, out: &mut Out) {
        let ix = unrank(i, &[3, 3, 5, 3, 3]);
        let p = PDate { year: [None, Some(2021), Some(1969)][ix[0]], month: [None, Some(2), Some(13)][ix[1]], month_code: None, day: [None, Some(1), Some(28), Some(31), Some(255)][ix[2]] };
        let hour = [None, Some(7u16), Some(24)][ix[3]];
        let off_min: i64 = [0, 330, -210][ix[4]];
        let tz = TimeZone::try_from_str(&format!("{}{:02}:{:02}", if off_min < 0 { '-' } else { '+' }, off_min.abs() / 60, off_min.abs() % 60)).expect("offset zone");
        out.nontrivial += 1;
        for (ovn, ovm, ovi) in OVERFLOWS {
            let attrs = || vec![("date", ptext(&p)), ("hour", format!("{hour:?}")), ("offset_minutes", off_min.to_string()), ("overflow", ovn.to_string())];
            let dm = iso_date_from_fields(&p, ovm, true);
            let tm = time_from_fields([0; 6], [hour, None, None, None, None, None], ovm);
            let model: Result<i128, FErr> = match (dm, tm) {
                (Err(e), _) => Err(e),
                (Ok(_), Err(e)) => Err(e),
                (Ok(d), Ok(t)) => Ok(d.epoch_day() as i128 * 86_400_000_000_000 + t[0] as i128 * 3_600_000_000_000 - off_min as i128 * 60_000_000_000),
            };
            let part = PartialZonedDateTime { date: ipartial(&p), time: itime(&[hour, None, None, None, None, None]), offset: None, timezone: Some(tz.clone()) };
            let got = call(|| ZonedDateTime::from_partial_with_provider(part, ovi, None, None, &ErrProvider));
            match &model {
                Ok(ns) => {
                    out.lockstep("ZonedDateTime::from_partial", &Ok(*ns), &got, |m, v| v.epoch_nanoseconds().as_i128() == *m, attrs);
                }
                Err(e) => {
                    judge(out, "ZonedDateTime::from_partial", &Err(*e), &got, |_| (0, 0, 0), attrs);
                }
            }
            // with(): update the fields of an existing zoned value
            if let (Ok(ns), true) = (&model, ix[0] == 1 && ix[1] == 1) {
                let z = ZonedDateTime::try_new(*ns, Default::default(), tz.clone()).expect("zdt");
                let mut pp = PartialZonedDateTime::default();
                pp.time = itime(&[Some(9), None, None, None, None, None]);
                let got = call(|| z.with(pp));
                let want = ns - (hour.unwrap_or(0).min(23) as i128 - 9) * 3_600_000_000_000;
                out.lockstep("ZonedDateTime::with", &Ok(want), &got, |m, v| v.epoch_nanoseconds().as_i128() == *m, attrs);
            }
        }
        if out.want_sample() {
            out.sample(json!({"date": ptext(&p), "hour": hour, "offset_minutes": off_min}));
        }
    }
}

/// The record builders set exactly the field they name: every subset of fields, built through the builder
/// methods, equals the record written out field by field (all values pairwise distinct), and is_empty is
/// true for the empty subset only.
struct Builders;
impl Space for Builders {
    fn name(&self) -> String {
        "c17.record_builders".into()
    }
    fn len(&self) -> u64 {
        (1u64 << 6) + (1u64 << 7) + (1u64 << 4)
    }
    fn eval(&self, i: u64, out: &mut Out) {
        out.nontrivial += 1;
        let bit = |k: u64| (i >> k) & 1 == 1;
        if i < 64 {
            // PartialTime: 6 fields
            let mut b = PartialTime::new();
            let mut w = PartialTime::default();
            if bit(0) { b = b.with_hour(Some(1)); w.hour = Some(1); }
            if bit(1) { b = b.with_minute(Some(2)); w.minute = Some(2); }
            if bit(2) { b = b.with_second(Some(3)); w.second = Some(3); }
            if bit(3) { b = b.with_millisecond(Some(4)); w.millisecond = Some(4); }
            if bit(4) { b = b.with_microsecond(Some(5)); w.microsecond = Some(5); }
            if bit(5) { b = b.with_nanosecond(Some(6)); w.nanosecond = Some(6); }
            out.law("PartialTime builders", b == w && b.is_empty() == (i == 0), || vec![("subset", format!("{i:06b}"))]);
        } else if i < 64 + 128 {
            let i = i - 64;
            let bit = |k: u64| (i >> k) & 1 == 1;
            let mut b = PartialDate::new();
            let mut w = PartialDate::default();
            let era = temporal_rs::TinyAsciiStr::<19>::try_from_utf8(b"ce").ok();
            let code = MonthCode::from_str("M07").ok();
            let cal = Calendar::from_str("gregory").unwrap();
            if bit(0) { b = b.with_year(Some(11)); w.year = Some(11); }
            if bit(1) { b = b.with_month(Some(7)); w.month = Some(7); }
            if bit(2) { b = b.with_month_code(code); w.month_code = code; }
            if bit(3) { b = b.with_day(Some(13)); w.day = Some(13); }
            if bit(4) { b = b.with_era(era); w.era = era; }
            if bit(5) { b = b.with_era_year(Some(17)); w.era_year = Some(17); }
            if bit(6) { b = b.with_calendar(cal.clone()); w.calendar = cal.clone(); }
            out.law("PartialDate builders", b == w, || vec![("subset", format!("{i:07b}"))]);
        } else {
            let i = i - 64 - 128;
            let bit = |k: u64| (i >> k) & 1 == 1;
            let d = PartialDate::new().with_day(Some(9));
            let t = PartialTime::new().with_second(Some(8));
            let mut bz = PartialZonedDateTime::new();
            let mut wz = PartialZonedDateTime::default();
            let mut bd = PartialDateTime::new();
            let mut wd = PartialDateTime::default();
            let off = temporal_rs::UtcOffset::from_str("+05:30").ok();
            let tz = TimeZone::try_from_str("-03:00").ok();
            if bit(0) { bz = bz.with_date(d.clone()); wz.date = d.clone(); bd = bd.with_partial_date(d.clone()); wd.date = d.clone(); }
            if bit(1) { bz = bz.with_time(t); wz.time = t; bd = bd.with_partial_time(t); wd.time = t; }
            if bit(2) { bz = bz.with_offset(off); wz.offset = off; }
            if bit(3) { bz = bz.with_timezone(tz.clone()); wz.timezone = tz.clone(); }
            out.law("PartialZonedDateTime builders", bz == wz && bz.is_empty() == (i == 0), || vec![("subset", format!("{i:04b}"))]);
            out.law("PartialDateTime builders", bd.date == wd.date && bd.time == wd.time && bd.is_empty() == (i & 3 == 0), || vec![("subset", format!("{i:04b}"))]);
        }
    }
}

/// PlainDateTime::with_time / PlainDate::to_plain_date_time replace (or supply) the whole time and keep the
/// date; the result is range-checked (midnight of the first representable day is outside the limits).
struct WithTime {
    recv: Vec<Ymd>,
}
const WT_TIMES: [(u8, u8, u8, u16, u16, u16); 7] = [(0, 0, 0, 0, 0, 0), (0, 0, 0, 0, 0, 1), (1, 2, 3, 4, 5, 6), (12, 0, 0, 0, 0, 0), (23, 59, 59, 999, 999, 999), (23, 0, 0, 0, 0, 0), (0, 59, 0, 999, 0, 0)];
impl Space for WithTime {
    fn name(&self) -> String {
        "c17.with_time".into()
    }
    fn len(&self) -> u64 {
        (self.recv.len() * WT_TIMES.len() * WT_TIMES.len()) as u64
    }
    fn eval(&self, i: u64, out: &mut Out) {
        let ix = unrank(i, &[WT_TIMES.len() as u64, WT_TIMES.len() as u64, self.recv.len() as u64]);
        let (r, old, new) = (self.recv[ix[2]], WT_TIMES[ix[1]], WT_TIMES[ix[0]]);
        out.nontrivial += 1;
        let attrs = || vec![("receiver", format!("{r:?}")), ("old_time", format!("{old:?}")), ("new_time", format!("{new:?}"))];
        let first_midnight = |t: (u8, u8, u8, u16, u16, u16)| r == Ymd::new(-271_821, 4, 19) && t == (0, 0, 0, 0, 0, 0);
        let Oc::Ok(time) = call(|| PlainTime::try_new(new.0, new.1, new.2, new.3, new.4, new.5)) else { return };
        let model = if first_midnight(new) { Err(ErrorKind::Range) } else { Ok((r.y, r.m, r.d, new)) };
        let same = |a: &(i64, u8, u8, (u8, u8, u8, u16, u16, u16)), b: &PlainDateTime| (b.iso_year() as i64, b.iso_month(), b.iso_day(), (b.hour(), b.minute(), b.second(), b.millisecond(), b.microsecond(), b.nanosecond())) == *a;
        if !first_midnight(old) {
            let got = call(|| PlainDateTime::try_new(r.y as i32, r.m, r.d, old.0, old.1, old.2, old.3, old.4, old.5, Calendar::default())?.with_time(time));
            out.lockstep("PlainDateTime::with_time", &model, &got, same, attrs);
        }
        let got = call(|| pd(r.y, r.m, r.d)?.to_plain_date_time(Some(time)));
        out.lockstep("PlainDate::to_plain_date_time(time)", &model, &got, same, attrs);
    }
}

/// with() on receivers of every calendar: the supplied field is the field of the result, the others
/// come from the receiver (laws, no calendar model): years incl. zero and negative ones, months, days.
struct CalendarWith;
const CW_RECEIVERS: [(i32, u8, u8); 4] = [(2024, 3, 15), (2020, 2, 28), (1900, 1, 20), (1, 6, 15)];
const CW_YEARS: [i32; 9] = [-400, -5, -1, 0, 1, 2, 1900, 2024, 5000];
impl Space for CalendarWith {
    fn name(&self) -> String {
        "c17.calendar_with".into()
    }
    fn len(&self) -> u64 {
        (crate::checks::c16::CALENDARS.len() * CW_RECEIVERS.len()) as u64
    }
    fn block(&self) -> u64 {
        1
    }
    fn eval(&self, i: u64, out: &mut Out) {
        let (cal_id, class) = crate::checks::c16::CALENDARS[i as usize / CW_RECEIVERS.len()];
        let (y, m, d) = CW_RECEIVERS[i as usize % CW_RECEIVERS.len()];
        let cal = Calendar::from_str(cal_id).expect("calendar");
        let Oc::Ok(recv) = call(|| PlainDate::try_new(y, m, d, cal.clone())) else { return };
        let Oc::Ok((ry, rm, rcode, rd, rmiy)) = call_inf(|| (recv.year(), recv.month(), recv.month_code(), recv.day(), recv.months_in_year())) else { return };
        out.nontrivial += 1;
        // calendars whose years all have the same months and whose arithmetic year runs through zero
        let regular = class == 0 && !matches!(cal_id, "hebrew");
        for (ovn, ov) in [("constrain", Some(ArithmeticOverflow::Constrain)), ("reject", Some(ArithmeticOverflow::Reject)), ("absent", None)] {
            let base = || vec![("calendar", cal_id.to_string()), ("receiver", format!("{y}-{m}-{d}")), ("receiver_fields", format!("{ry}/{}/{rd}", rcode.as_str())), ("overflow", ovn.to_string())];
            for wy in CW_YEARS {
                let got = call(|| recv.with(PartialDate::new().with_year(Some(wy)), ov).map(|r| (r.year(), r.month_code().as_str().to_string(), r.day())));
                let attrs = || { let mut a = base(); a.push(("with", format!("year={wy}"))); a };
                match &got {
                    Oc::Ok((gy, gcode, gd)) => {
                        out.law("with({year}): the result has that year", *gy == wy, attrs);
                        out.law("with({year}): month code and day come from the receiver unless clamped", (gcode == rcode.as_str() && *gd == rd) || (!regular || rd > 28) && *gd <= rd, attrs);
                    }
                    Oc::Err(ErrorKind::Range, _) => {
                        out.law("with({year}): an ordinary year is accepted", !(regular && rd <= 28), attrs);
                    }
                    _ => {
                        out.lockstep("with({year})", &Ok(()), &got.clone().map(|_| ()), |_, _| true, attrs);
                    }
                }
            }
            for wd in [1u8, 15, 28] {
                let got = call(|| recv.with(PartialDate::new().with_day(Some(wd)), ov).map(|r| (r.year(), r.month_code().as_str().to_string(), r.day())));
                let attrs = || { let mut a = base(); a.push(("with", format!("day={wd}"))); a };
                out.lockstep("with({day})", &Ok((ry, rcode.as_str().to_string(), wd)), &got, |a, b| a == b, attrs);
            }
            for wm in 1..=rmiy.min(12) as u8 {
                let got = call(|| recv.with(PartialDate::new().with_month(Some(wm)).with_day(Some(1)), ov).map(|r| (r.year(), r.month(), r.day())));
                let attrs = || { let mut a = base(); a.push(("with", format!("month={wm},day=1"))); a };
                out.lockstep("with({month, day: 1})", &Ok((ry, wm, 1u8)), &got, |a, b| a == b, attrs);
            }
            // identity
            let got = call(|| recv.with(PartialDate::new().with_year(Some(ry)).with_month(Some(rm)).with_day(Some(rd)), ov));
            out.lockstep("with(own year, month, day) is the identity", &Ok(()), &got, |_, b| *b == recv, || { let mut a = base(); a.push(("with", "own fields".into())); a });
            let _ = rcode;
        }
    }
    fn describe(&self) -> serde_json::Value {
        json!({"calendars": crate::checks::c16::CALENDARS.len(), "receivers": CW_RECEIVERS, "years": CW_YEARS})
    }
}

/// Receivers inside every leap month code (M01L..M12L of the chinese and dangi calendars, M05L of the hebrew one):
/// the merge keeps month and month code of the receiver, so every one of them has to be resolvable again.
struct LeapMonthReceivers;
const LEAP_WITNESS_DAYS: [(i32, u8, u8); 18] = [(1051, 3, 5), (1002, 3, 24), (1010, 4, 25), (1018, 5, 27), (1007, 6, 24), (1015, 7, 26), (1004, 9, 5), (1251, 10, 4), (1107, 10, 30), (1289, 11, 23), (1012, 12, 30), (1404, 2, 1), (1029, 4, 29), (1010, 5, 23), (1012, 11, 4), (1032, 1, 4), (1890, 2, 1), (2024, 2, 15)];
impl Space for LeapMonthReceivers {
    fn name(&self) -> String {
        "c17.leap_month_receivers".into()
    }
    fn len(&self) -> u64 {
        (LEAP_WITNESS_DAYS.len() * 3) as u64
    }
    fn block(&self) -> u64 {
        1
    }
    fn eval(&self, i: u64, out: &mut Out) {
        let (y, m, d) = LEAP_WITNESS_DAYS[i as usize / 3];
        let cal_id = ["chinese", "dangi", "hebrew"][i as usize % 3];
        let cal = Calendar::from_str(cal_id).expect("calendar");
        // five days into the month that starts on the witness day
        let Oc::Ok(recv) = call(|| PlainDate::try_new(y, m, d, Calendar::default()).and_then(|p| p.add(&temporal_rs::Duration::new(0.into(), 0.into(), 0.into(), 5.into(), 0.into(), 0.into(), 0.into(), 0.into(), 0.into(), 0.into()).unwrap(), None)).and_then(|p| p.with_calendar(cal.clone()))) else { return };
        let Oc::Ok((ry, rm, rcode, rd)) = call_inf(|| (recv.year(), recv.month(), recv.month_code(), recv.day())) else { return };
        if !rcode.as_str().ends_with('L') {
            out.unjudged += 1; // this day is not in a leap month of this calendar
            return;
        }
        out.nontrivial += 1;
        out.count("receivers_in_a_leap_month", 1);
        for (ovn, ov) in [("constrain", Some(ArithmeticOverflow::Constrain)), ("reject", Some(ArithmeticOverflow::Reject)), ("absent", None)] {
            let base = |what: &str| vec![("calendar", cal_id.to_string()), ("receiver", format!("{ry}/{}/{rd}", rcode.as_str())), ("overflow", ovn.to_string()), ("with", what.to_string())];
            let fields = |p: &PlainDate| (p.year(), p.month(), p.month_code().as_str().to_string(), p.day());
            for wd in [1u8, 12, 29] {
                let got = call(|| recv.with(PartialDate::new().with_day(Some(wd)), ov).map(|r| fields(&r)));
                out.lockstep("with({day}) in a leap month", &Ok((ry, rm, rcode.as_str().to_string(), wd)), &got, |a, b| a == b, || base(&format!("day={wd}")));
            }
            let got = call(|| recv.with(PartialDate::new().with_month_code(Some(rcode)), ov));
            out.lockstep("with({monthCode: own}) is the identity", &Ok(()), &got, |_, b| *b == recv, || base("own month code"));
            let got = call(|| recv.with(PartialDate::new().with_month(Some(rm)), ov));
            out.lockstep("with({month: own}) is the identity", &Ok(()), &got, |_, b| *b == recv, || base("own month"));
            let got = call(|| recv.with(PartialDate::new().with_year(Some(ry)), ov));
            out.lockstep("with({year: own}) is the identity", &Ok(()), &got, |_, b| *b == recv, || base("own year"));
            let got = call(|| PlainDate::from_partial(PartialDate::new().with_year(Some(ry)).with_month_code(Some(rcode)).with_day(Some(rd)).with_calendar(cal.clone()), ov));
            out.lockstep("from_partial(year, monthCode, day) gives the receiver", &Ok(()), &got, |_, b| *b == recv, || base("from_partial by code"));
            let got = call(|| PlainDate::from_partial(PartialDate::new().with_year(Some(ry)).with_month(Some(rm)).with_day(Some(rd)).with_calendar(cal.clone()), ov));
            out.lockstep("from_partial(year, month, day) gives the receiver", &Ok(()), &got, |_, b| *b == recv, || base("from_partial by ordinal"));
            let got = call(|| {
                let dt = temporal_rs::PlainDateTime::from_date_and_time(recv.clone(), temporal_rs::PlainTime::try_new(1, 2, 3, 0, 0, 0)?)?;
                dt.with(temporal_rs::partial::PartialDateTime::new().with_partial_date(PartialDate::new().with_day(Some(12))), ov).map(|r| (r.year(), r.month(), r.month_code().as_str().to_string(), r.day(), r.hour()))
            });
            out.lockstep("PlainDateTime::with({day}) in a leap month", &Ok((ry, rm, rcode.as_str().to_string(), 12u8, 1u8)), &got, |a, b| a == b, || base("date-time day=12"));
        }
    }
    fn describe(&self) -> serde_json::Value {
        json!({"witness_days": LEAP_WITNESS_DAYS.len(), "calendars": ["chinese", "dangi", "hebrew"]})
    }
}

/// Receivers inside every era of every calendar: the merge takes era and era year from the receiver whenever the
/// record names no year, so each era of the tables has to come back as itself.
struct EraReceivers;
const ERA_RECEIVER_DAYS: [(i32, u8, u8); 16] = [(-600, 6, 15), (-1, 6, 15), (1, 6, 15), (200, 3, 10), (300, 6, 15), (700, 6, 15), (1600, 6, 15), (1870, 6, 15), (1900, 6, 15), (1911, 6, 15), (1913, 6, 15), (1918, 11, 11), (1950, 6, 15), (2000, 6, 15), (2019, 4, 30), (2024, 3, 15)];
impl Space for EraReceivers {
    fn name(&self) -> String {
        "c17.era_receivers".into()
    }
    fn len(&self) -> u64 {
        (crate::checks::c16::CALENDARS.len() * ERA_RECEIVER_DAYS.len()) as u64
    }
    fn block(&self) -> u64 {
        2
    }
    fn eval(&self, i: u64, out: &mut Out) {
        let (y, m, d) = ERA_RECEIVER_DAYS[i as usize % ERA_RECEIVER_DAYS.len()];
        let (cal_id, _) = crate::checks::c16::CALENDARS[i as usize / ERA_RECEIVER_DAYS.len()];
        let cal = Calendar::from_str(cal_id).expect("calendar");
        let Oc::Ok(recv) = call(|| PlainDate::try_new(y, m, d, Calendar::default()).and_then(|p| p.with_calendar(cal.clone()))) else { return };
        let Oc::Ok((ry, rm, rcode, rd, rera, rey)) = call_inf(|| (recv.year(), recv.month(), recv.month_code(), recv.day(), recv.era().map(|e| e.as_str().to_string()), recv.era_year())) else { return };
        if rd == 0 || rd > 28 {
            out.unjudged += 1; // ICU4X day-0 finding of C16 / days that a change of day could clamp
            return;
        }
        out.nontrivial += 1;
        if rera.is_some() {
            out.count("receivers_with_an_era", 1);
        }
        let fields = |p: &PlainDate| (p.year(), p.month_code().as_str().to_string(), p.day(), p.era().map(|e| e.as_str().to_string()), p.era_year());
        for (ovn, ov) in [("constrain", Some(ArithmeticOverflow::Constrain)), ("reject", Some(ArithmeticOverflow::Reject))] {
            let base = |what: &str| vec![("calendar", cal_id.to_string()), ("receiver_iso", format!("{y}-{m}-{d}")), ("receiver", format!("{ry}/{}/{rd} era {rera:?} {rey:?}", rcode.as_str())), ("overflow", ovn.to_string()), ("with", what.to_string())];
            let want_day = if rd == 12 { 13 } else { 12 };
            let got = call(|| recv.with(PartialDate::new().with_day(Some(want_day)), ov).map(|r| fields(&r)));
            out.lockstep("with({day}) keeps year, era, era year and month code", &Ok((ry, rcode.as_str().to_string(), want_day, rera.clone(), rey)), &got, |a, b| a == b, || base("another day"));
            let got = call(|| recv.with(PartialDate::new().with_month_code(Some(rcode)), ov));
            out.lockstep("with({monthCode: own}) is the identity", &Ok(()), &got, |_, b| *b == recv, || base("own month code"));
            let got = call(|| recv.with(PartialDate::new().with_year(Some(ry)), ov));
            out.lockstep("with({year: own}) is the identity", &Ok(()), &got, |_, b| *b == recv, || base("own year"));
            if let (Some(e), Some(ey)) = (&rera, rey) {
                let era = tinystr::TinyAsciiStr::<19>::try_from_str(e).expect("era text");
                let got = call(|| recv.with(PartialDate::new().with_era(Some(era)).with_era_year(Some(ey)), ov));
                out.lockstep("with({era, eraYear: own}) is the identity", &Ok(()), &got, |_, b| *b == recv, || base("own era and era year"));
                let got = call(|| PlainDate::from_partial(PartialDate::new().with_era(Some(era)).with_era_year(Some(ey)).with_month_code(Some(rcode)).with_day(Some(rd)).with_calendar(cal.clone()), ov));
                out.lockstep("from_partial(era, eraYear, monthCode, day) gives the receiver", &Ok(()), &got, |_, b| *b == recv, || base("from_partial by era"));
            }
            let _ = rm;
        }
    }
    fn describe(&self) -> serde_json::Value {
        json!({"calendars": crate::checks::c16::CALENDARS.len(), "receiver_days": ERA_RECEIVER_DAYS})
    }
}

pub fn spaces(env: &Env) -> Vec<Box<dyn Space>> {
    let _ = env;
    vec![
        Box::new(DateFromPartial),
        Box::new(DateWith { recv: receivers() }),
        Box::new(Identity { recv: receivers() }),
        Box::new(TimePartial),
        Box::new(DateTimePartial { recv: receivers() }),
        Box::new(Zoned),
        Box::new(CalendarWith),
        Box::new(LeapMonthReceivers),
        Box::new(EraReceivers),
        Box::new(WithTime { recv: receivers() }),
        Box::new(Builders),
    ]
}

pub fn run(env: &Env) -> i32 {
    let mut rep = Report::new(
        env,
        "model_checking",
        "product: every combination of {absent, values} per field (year 8 values incl. i32 extremes, month 6, monthCode 7 incl. M13/M02L/M00/M99, day 8; hour/minute/second/sub-second 4 each) x receivers x {constrain, reject, absent}; a case is non-trivial when a proper non-empty subset of the field groups is supplied",
    );
    rep.assumptions.push("R10: PrepareCalendarFields/CalendarMergeFields/RegulateISODate/RegulateTime for the ISO calendar. A zero month/day is unjudged (rejected by the ECMAScript layer before Temporal; the property would clamp); a record that is both incomplete and invalid may fail with either TypeError or RangeError".into());
    for s in spaces(env) {
        rep.run(s.as_ref());
    }
    rep.finish()
}

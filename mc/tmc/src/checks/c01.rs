//! C01 — ISO dates and the day timeline are a Gregorian bijection over the whole range.
//! Range walk over every supported day against the R1 odometer, through the public API only.

use crate::engine::*;
use crate::imp::*;
use crate::providers::ErrProvider;
use serde_json::json;
use temporal_rs::error::ErrorKind;
use temporal_rs::iso::IsoDateTime;
use temporal_rs::options::Unit;
use temporal_rs::{Calendar, Instant, PlainDate, PlainDateTime, TimeZone};
use tmc_ref::r1::*;

struct DayWalk {
    utc: TimeZone,
    local_pairs: &'static [i64],
    /// thorough: every transition of the battery on every day; quick: the core battery (constructor,
    /// all getters, order, successor by add(P1D), distance from the epoch) on every day and the rest
    /// (N-day add/subtract, inverse forms, UTC instant round trip, date-time/instant order) on all
    /// non-trivial days and every 16th day.
    full_everywhere: bool,
}

const MC: [&str; 13] = ["", "M01", "M02", "M03", "M04", "M05", "M06", "M07", "M08", "M09", "M10", "M11", "M12"];

impl DayWalk {
    fn check_day(&self, prev: Option<(&Odo, &PlainDate)>, cur: &Odo, epoch: &PlainDate, full: bool, out: &mut Out) -> Option<PlainDate> {
        let attrs = |c: &Odo| vec![("date", format!("{:+07}-{:02}-{:02}", c.y, c.m, c.d)), ("epoch_day", c.day.to_string())];
        out.selfchecks += 1;
        if days_from_civil(cur.y, cur.m, cur.d) != cur.day {
            panic!("R1 self-check failed: closed form disagrees with odometer at day {}", cur.day);
        }
        let got = call(|| pd(cur.y, cur.m, cur.d));
        if !out.lockstep("PlainDate::try_new", &Ok(()), &got, |_, _| true, || attrs(cur)) {
            return None;
        }
        let Oc::Ok(date) = got else { unreachable!() };
        // field and derived getters
        let (wy, wk) = cur.iso_week();
        let g = call_inf(|| {
            (
                date.year() as i64,
                date.month(),
                date.day(),
                date.month_code().as_str() == MC[cur.m as usize],
                date.day_of_week(),
                date.day_of_year(),
                date.days_in_month(),
                date.days_in_year(),
                date.months_in_year(),
                date.in_leap_year(),
            )
        });
        let want = (
            cur.y,
            cur.m,
            cur.d,
            true,
            cur.dow as u16,
            cur.doy,
            days_in_month(cur.y, cur.m) as u16,
            days_in_year(cur.y),
            12u16,
            is_leap(cur.y),
        );
        out.lockstep("getters", &Ok(want), &g, |a, b| a == b, || attrs(cur));
        let w = call(|| Ok((date.week_of_year()?, date.year_of_week()?.map(|v| v as i64), date.days_in_week()?)));
        out.lockstep("week getters", &Ok((Some(wk as u16), Some(wy), 7u16)), &w, |a, b| a == b, || attrs(cur));

        // ordering and successor law
        if let Some((po, pdate)) = prev {
            out.law("compare_iso(prev,cur)=Less", pdate.compare_iso(&date) == std::cmp::Ordering::Less && date.compare_iso(pdate) == std::cmp::Ordering::Greater, || attrs(cur));
            let one = date_dur(0, 0, 0, 1).expect("P1D");
            let nx = call(|| pdate.add(&one, None));
            out.lockstep("prev.add(P1D)", &Ok(()), &nx, |_, v| v.compare_iso(&date).is_eq() && v.year() as i64 == cur.y && v.month() == cur.m && v.day() == cur.d, || attrs(po));
            if full {
                let un = call(|| pdate.until(&date, diff(Some(Unit::Day), None, None, None)));
                out.lockstep("prev.until(cur,day)", &Ok([0., 0., 0., 1., 0., 0., 0., 0., 0., 0.]), &un, |m, v| dur_fields(v) == *m, || attrs(po));
            }
        }
        // N-day law from the epoch
        let ndays = if full { call(|| date_dur(0, 0, 0, cur.day)) } else { Oc::Err(ErrorKind::Generic, String::new()) };
        if full && out.lockstep("Duration::new(days=E)", &Ok(()), &ndays, |_, _| true, || attrs(cur)) {
            let Oc::Ok(nd) = ndays else { unreachable!() };
            let a = call(|| epoch.add(&nd, None));
            out.lockstep("epoch.add(E days)", &Ok(()), &a, |_, v| v.compare_iso(&date).is_eq(), || attrs(cur));
            let b = call(|| date.subtract(&nd, None));
            out.lockstep("cur.subtract(E days)", &Ok(()), &b, |_, v| v.compare_iso(epoch).is_eq(), || attrs(cur));
        }
        let u = call(|| epoch.until(&date, diff(Some(Unit::Day), None, None, None)));
        out.lockstep("epoch.until(cur,day)", &Ok(cur.day as f64), &u, |m, v| {
            let f = dur_fields(v);
            f[3] == *m && f.iter().enumerate().all(|(i, x)| i == 3 || *x == 0.0)
        }, || attrs(cur));
        if !full {
            return Some(date);
        }
        let s = call(|| date.since(epoch, diff(Some(Unit::Day), None, None, None)));
        out.lockstep("cur.since(epoch,day)", &Ok(cur.day as f64), &s, |m, v| dur_fields(v)[3] == *m, || attrs(cur));

        // local pairs (E, E+k)
        for k in self.local_pairs {
            let e2 = cur.day + k;
            if e2 > MAX_DAY {
                continue;
            }
            let (y2, m2, d2) = civil_from_days(e2);
            if let Oc::Ok(other) = call(|| pd(y2, m2, d2)) {
                let u = call(|| date.until(&other, diff(Some(Unit::Day), None, None, None)));
                out.lockstep("until(E+k,day)", &Ok(*k as f64), &u, |m, v| dur_fields(v)[3] == *m, || {
                    let mut a = attrs(cur);
                    a.push(("k", k.to_string()));
                    a
                });
            }
        }

        // UTC instant of midnight and back
        let iso = iso_date(cur.y as i32, cur.m, cur.d);
        let ns_model = cur.day as i128 * NS_PER_DAY;
        let idt = call(|| IsoDateTime::new(iso, iso_time(0, 0, 0, 0, 0, 0)));
        let idt_model = if cur.day > MIN_DAY { Ok(()) } else { Err(ErrorKind::Range) };
        if out.lockstep("IsoDateTime::new(midnight)", &idt_model, &idt, |_, _| true, || attrs(cur)) && idt.is_ok() {
            let Oc::Ok(idt) = idt else { unreachable!() };
            let ns = call(|| idt.as_nanoseconds().map(|n| n.as_i128()));
            let ns_ok = if ns_model.abs() <= MAX_INSTANT_NS { Ok(ns_model) } else { Err(ErrorKind::Range) };
            if out.lockstep("as_nanoseconds", &ns_ok, &ns, |a, b| a == b, || attrs(cur)) && ns.is_ok() {
                let inst = call(|| Instant::try_new(ns_model));
                if out.lockstep("Instant::try_new", &Ok(()), &inst, |_, _| true, || attrs(cur)) {
                    let Oc::Ok(inst) = inst else { unreachable!() };
                    let back = call(|| {
                        let z = inst.to_zoned_date_time_iso(self.utc.clone());
                        let p = z.to_plain_datetime_with_provider(&ErrProvider)?;
                        Ok((p.year() as i64, p.month(), p.day(), p.hour(), p.minute(), p.second(), p.millisecond(), p.microsecond(), p.nanosecond()))
                    });
                    out.lockstep("instant→UTC date-time", &Ok((cur.y, cur.m, cur.d, 0u8, 0u8, 0u8, 0u16, 0u16, 0u16)), &back, |a, b| a == b, || attrs(cur));
                    if let Some((_, pdate)) = prev {
                        // order of instants and date-times agrees with the day order
                        let pi = call(|| Instant::try_new(ns_model - NS_PER_DAY));
                        if let Oc::Ok(pi) = pi {
                            out.law("Instant order", pi < inst && pi.epoch_nanoseconds().as_i128() + NS_PER_DAY == inst.epoch_nanoseconds().as_i128(), || attrs(cur));
                        }
                        let a = call(|| PlainDateTime::try_new(pdate.year(), pdate.month(), pdate.day(), 23, 59, 59, 999, 999, 999, Calendar::default()));
                        let b = call(|| PlainDateTime::try_new(cur.y as i32, cur.m, cur.d, 0, 0, 0, 0, 0, 0, Calendar::default()));
                        if let (Oc::Ok(a), Oc::Ok(b)) = (&a, &b) {
                            out.law("PlainDateTime order", a.compare_iso(b) == std::cmp::Ordering::Less, || attrs(cur));
                        } else {
                            out.fail("datetime_ctor", attrs(cur));
                        }
                    }
                }
            }
        }
        Some(date)
    }
}

fn nontrivial_day(o: &Odo) -> bool {
    let dim = days_in_month(o.y, o.m);
    let (_, wk) = o.iso_week();
    o.d == dim
        || (o.m == 1 && o.d == 1)
        || (o.m == 2 && o.d == 29)
        || (o.m == 12 && o.d >= 28)
        || ((o.dow == 1 || o.dow == 4) && (wk == 1 || wk >= 52))
        || (o.y.rem_euclid(100) == 0 && o.m == 1 && o.d <= 1)
        || (o.y.rem_euclid(100) == 99 && o.m == 12 && o.d == 31)
}

impl Space for DayWalk {
    fn name(&self) -> String {
        "c01.daywalk".into()
    }
    fn len(&self) -> u64 {
        (MAX_DAY - MIN_DAY + 1) as u64
    }
    fn block(&self) -> u64 {
        1 << 15
    }
    fn eval(&self, _i: u64, _out: &mut Out) {
        unreachable!()
    }
    fn eval_range(&self, lo: u64, hi: u64, out: &mut Out) {
        let epoch = pd(1970, 1, 1).expect("epoch date");
        let mut cur = Odo::at(MIN_DAY + lo as i64);
        let mut prev: Option<(Odo, PlainDate)> = if lo > 0 {
            let mut p = cur;
            p.prev();
            call(|| pd(p.y, p.m, p.d)).ok().cloned().map(|d| (p, d))
        } else {
            None
        };
        for i in lo..hi {
            out.begin(i);
            if cur.day == 0 && cur != Odo::epoch() {
                panic!("R1 anchor self-check failed");
            }
            let nt = nontrivial_day(&cur);
            if nt {
                out.nontrivial += 1;
            } else {
                out.count("interior_days", 1);
            }
            let full = self.full_everywhere || nt || cur.day.rem_euclid(16) == 0;
            if full {
                out.count("days_with_full_battery", 1);
            }
            let d = self.check_day(prev.as_ref().map(|(o, d)| (o, d)), &cur, &epoch, full, out);
            if out.want_sample() && (i == lo) {
                out.sample(json!({"epoch_day": cur.day, "y": cur.y, "m": cur.m, "d": cur.d, "dow": cur.dow, "doy": cur.doy, "iso_week": format!("{:?}", cur.iso_week())}));
            }
            prev = d.map(|d| (cur, d));
            cur.next();
        }
        // chain: the odometer state reached by stepping must equal the closed form at hi
        out.selfchecks += 1;
        if cur != Odo::at(MIN_DAY + hi as i64) {
            panic!("R1 self-check failed: odometer and closed form disagree at block end {}", MIN_DAY + hi as i64);
        }
    }
    fn describe(&self) -> serde_json::Value {
        json!({"days": "every epoch day in [-100000001, +100000000]", "local_pairs_k": self.local_pairs, "full_battery_on_every_day": self.full_everywhere})
    }
}

/// Days just outside the range must be rejected with a RangeError; so must impossible days.
struct Edges;
impl Space for Edges {
    fn name(&self) -> String {
        "c01.edges".into()
    }
    fn len(&self) -> u64 {
        8 + 12 * 4
    }
    fn eval(&self, i: u64, out: &mut Out) {
        let (y, m, d) = if i < 8 {
            let e = [MIN_DAY - 1, MIN_DAY - 2, MIN_DAY - 3, MIN_DAY - 400, MAX_DAY + 1, MAX_DAY + 2, MAX_DAY + 3, MAX_DAY + 400][i as usize];
            civil_from_days(e)
        } else {
            let j = i - 8;
            let m = (j / 4) as u8 + 1;
            let y = [2019, 2020, 1900, 2000][(j % 4) as usize];
            (y, m, days_in_month(y, m) + 1)
        };
        out.nontrivial += 1;
        let got = call(|| pd(y, m, d));
        out.lockstep("PlainDate::try_new(out of range)", &Err::<(), _>(ErrorKind::Range), &got, |_, _| true, || vec![("date", format!("{y}-{m}-{d}"))]);
        if out.want_sample() {
            out.sample(json!({"y": y, "m": m, "d": d, "expect": "RangeError"}));
        }
    }
}

/// Per-year facts for all years.
struct Years;
impl Space for Years {
    fn name(&self) -> String {
        "c01.years".into()
    }
    fn len(&self) -> u64 {
        (275_760 - (-271_821) + 1) as u64
    }
    fn block(&self) -> u64 {
        4096
    }
    fn eval(&self, i: u64, out: &mut Out) {
        let y = -271_821 + i as i64;
        let attrs = || vec![("year", y.to_string())];
        out.nontrivial += 1;
        // first and last day of the year that are in range
        let dec28 = Odo::of(y, 12, 28);
        if dec28.day <= MAX_DAY && dec28.day >= MIN_DAY {
            let got = call(|| pd(y, 12, 28)?.week_of_year());
            let jan1 = Odo::of(y, 1, 1);
            out.lockstep("weeks in year (Dec 28)", &Ok(Some(weeks_in_year(y, jan1.dow) as u16)), &got, |a, b| a == b, attrs);
        }
        let jan1 = Odo::of(y, 1, 1);
        if jan1.day >= MIN_DAY && jan1.day <= MAX_DAY {
            let got = call(|| {
                let d = pd(y, 1, 1)?;
                Ok((d.day_of_week(), d.days_in_year(), d.in_leap_year(), d.day_of_year()))
            });
            out.lockstep("jan1 facts", &Ok((jan1.dow as u16, days_in_year(y), is_leap(y), 1u16)), &got, |a, b| a == b, attrs);
            let next = Odo::of(y + 1, 1, 1);
            if next.day <= MAX_DAY {
                let got = call(|| pd(y, 1, 1)?.until(&pd(y + 1, 1, 1)?, diff(Some(Unit::Day), None, None, None)));
                out.lockstep("jan1.until(next jan1, day)", &Ok(days_in_year(y) as f64), &got, |m, v| dur_fields(v)[3] == *m, attrs);
                // weekday chain
                out.selfchecks += 1;
                assert_eq!((jan1.dow as i64 - 1 + days_in_year(y) as i64) % 7 + 1, next.dow as i64);
            }
        }
        // injectivity: no (y, m, d) outside the month-length table is accepted, and constrain clamps to the table
        for m in 1..=12u8 {
            let dim = days_in_month(y, m);
            if !date_in_limits(y, m, dim) {
                continue;
            }
            for d in [dim + 1, 0, 32] {
                if d == dim + 1 && d > 31 {
                    continue;
                }
                let got = call(|| pd(y, m, d));
                out.lockstep("try_new(non-existent day)", &Err::<(), _>(ErrorKind::Range), &got, |_, _| true, || vec![("date", format!("{y}-{m}-{d}"))]);
            }
            let got = call(|| PlainDate::new(y as i32, m, 31, Calendar::default()));
            out.lockstep("new(constrain day 31)", &Ok(dim), &got, |a, b| b.day() == *a && b.month() == m && b.year() as i64 == y, || vec![("date", format!("{y}-{m}-31"))]);
        }
        for m in [0u8, 13] {
            let got = call(|| pd(y, m, 1));
            out.lockstep("try_new(non-existent month)", &Err::<(), _>(ErrorKind::Range), &got, |_, _| true, || vec![("date", format!("{y}-{m}-1"))]);
        }
        if out.want_sample() {
            out.sample(json!({"year": y, "leap": is_leap(y), "jan1_dow": jan1.dow}));
        }
    }
}

/// All ordered pairs of a boundary set: until/since with largestUnit = day equal the timeline distance.
struct Pairs {
    b: Vec<i64>,
}
impl Pairs {
    fn new() -> Self {
        let mut b = vec![];
        for k in 0..4 {
            b.push(MIN_DAY + k);
            b.push(MAX_DAY - k);
        }
        let mut years: Vec<i64> = vec![-271_800, -200_000, -100_000, -10_000, -400, -100, -1, 0, 1, 100, 400, 1600, 1900, 2000, 2100, 10_000, 100_000, 200_000, 275_600];
        years.sort();
        for y in years {
            for dy in [-1i64, 0] {
                let e = days_from_civil(y + dy, if dy == 0 { 1 } else { 12 }, if dy == 0 { 1 } else { 31 });
                b.push(e);
            }
            b.push(days_from_civil(y, 3, 1));
            b.push(days_from_civil(y, 2, 28));
        }
        for y in [1599i64, 1600, 1601, 1899, 1900, 1901, 1999, 2000, 2001, 2099, 2100, 2101, -1, 0, 1] {
            for m in 1..=12u8 {
                b.push(days_from_civil(y, m, days_in_month(y, m)));
                b.push(days_from_civil(y, m, 1));
            }
        }
        b.retain(|e| (MIN_DAY..=MAX_DAY).contains(e));
        b.sort();
        b.dedup();
        Pairs { b }
    }
}
impl Space for Pairs {
    fn name(&self) -> String {
        "c01.pairs".into()
    }
    fn len(&self) -> u64 {
        (self.b.len() * self.b.len()) as u64
    }
    fn block(&self) -> u64 {
        2048
    }
    fn eval(&self, i: u64, out: &mut Out) {
        let n = self.b.len() as u64;
        let (ea, eb) = (self.b[(i / n) as usize], self.b[(i % n) as usize]);
        let (a, b) = (civil_from_days(ea), civil_from_days(eb));
        let attrs = || vec![("a", format!("{a:?}")), ("b", format!("{b:?}"))];
        if ea != eb {
            out.nontrivial += 1;
        }
        let (Oc::Ok(da), Oc::Ok(db)) = (call(|| pd(a.0, a.1, a.2)), call(|| pd(b.0, b.1, b.2))) else {
            out.fail("ctor", attrs());
            return;
        };
        let u = call(|| da.until(&db, diff(Some(Unit::Day), None, None, None)));
        out.lockstep("until(day)", &Ok((eb - ea) as f64), &u, |m, v| dur_fields(v)[3] == *m && v.years().as_inner() == 0.0 && v.weeks().as_inner() == 0.0, attrs);
        let s = call(|| da.since(&db, diff(Some(Unit::Day), None, None, None)));
        out.lockstep("since(day)", &Ok((ea - eb) as f64), &s, |m, v| dur_fields(v)[3] == *m, attrs);
        out.law("compare_iso", da.compare_iso(&db) == ea.cmp(&eb), attrs);
        if out.want_sample() {
            out.sample(json!({"a": format!("{a:?}"), "b": format!("{b:?}"), "distance_days": eb - ea}));
        }
    }
    fn describe(&self) -> serde_json::Value {
        json!({"boundary_set_size": self.b.len()})
    }
}

/// Adding N days: every day of whole years (common, leap, century, both range ends) x every N of a window.
struct AddDays {
    days: Vec<i64>,
    ns: Vec<i64>,
}
impl AddDays {
    fn new(tier: Tier) -> Self {
        let mut days = vec![];
        let years: &[i64] = match tier {
            Tier::Quick => &[2023, 2024],
            Tier::Thorough => &[-271_821, -1, 0, 1582, 1899, 1900, 1999, 2000, 2023, 2024, 2100, 275_760],
        };
        for y in years {
            for e in days_from_civil(*y, 1, 1)..=days_from_civil(*y, 12, 31) {
                if (MIN_DAY..=MAX_DAY).contains(&e) {
                    days.push(e);
                }
            }
        }
        // the first and the last days of the range too: from them the additions below reach across the whole range
        days.extend(MIN_DAY..MIN_DAY + 13);
        days.extend(MAX_DAY - 18..=MAX_DAY);
        days.sort();
        days.dedup();
        let w = tier.pick(70, 800);
        let mut ns: Vec<i64> = (-w..=w).collect();
        ns.extend([-146_097, -36_525, -1461, -1000, 1000, 1461, 36_525, 146_097]);
        AddDays { days, ns }
    }
}
impl Space for AddDays {
    fn name(&self) -> String {
        "c01.add_days".into()
    }
    fn len(&self) -> u64 {
        self.days.len() as u64
    }
    fn block(&self) -> u64 {
        8
    }
    fn eval(&self, i: u64, out: &mut Out) {
        let e = self.days[i as usize];
        let (y, m, d) = civil_from_days(e);
        let Oc::Ok(date) = call(|| pd(y, m, d)) else {
            out.fail("ctor", vec![("date", format!("{y}-{m}-{d}"))]);
            return;
        };
        out.nontrivial += 1;
        // a date-time of that day (its last nanosecond) reports the same date fields and derived fields
        if let Oc::Ok(dt) = call(|| temporal_rs::PlainDateTime::try_new(y as i32, m, d, 23, 59, 59, 999, 999, 999, temporal_rs::Calendar::default())) {
            let of_date = call(|| Ok(((date.year(), date.month(), date.month_code().as_str().to_string(), date.day(), date.day_of_week(), date.day_of_year(), date.week_of_year()?, date.year_of_week()?), (date.days_in_week()?, date.days_in_month(), date.days_in_year(), date.months_in_year(), date.in_leap_year(), date.era().map(|e| e.to_string()), date.era_year()))));
            let of_dt = call(|| Ok(((dt.year(), dt.month(), dt.month_code().as_str().to_string(), dt.day(), dt.day_of_week(), dt.day_of_year(), dt.week_of_year()?, dt.year_of_week()?), (dt.days_in_week()?, dt.days_in_month(), dt.days_in_year(), dt.months_in_year(), dt.in_leap_year(), dt.era().map(|e| e.to_string()), dt.era_year()))));
            if let Oc::Ok(w) = of_date {
                out.lockstep("PlainDateTime date getters = those of its date", &Ok(format!("{w:?}")), &of_dt.map(|x| format!("{x:?}")), |a, b| a == b, || vec![("date", format!("{y:+05}-{m:02}-{d:02}"))]);
            }
            let back = call(|| dt.to_plain_date());
            out.lockstep("PlainDateTime::to_plain_date", &Ok((y, m, d)), &back, |a, b| (b.iso_year() as i64, b.iso_month(), b.iso_day()) == *a, || vec![("date", format!("{y:+05}-{m:02}-{d:02}"))]);
            let t = call(|| dt.to_plain_time());
            out.lockstep("PlainDateTime::to_plain_time", &Ok((23u8, 59u8, 59u8, 999u16, 999u16, 999u16)), &t, |a, b| (b.hour(), b.minute(), b.second(), b.millisecond(), b.microsecond(), b.nanosecond()) == *a, || vec![("date", format!("{y:+05}-{m:02}-{d:02}"))]);
        }
        // from either end of the range to every day of the other end (the longest additions there are)
        let across: Vec<i64> = if e < MIN_DAY + 13 { (MAX_DAY - 18..=MAX_DAY + 1).map(|t| t - e).collect() } else if e > MAX_DAY - 19 { (MIN_DAY - 1..MIN_DAY + 13).map(|t| t - e).collect() } else { vec![] };
        for n in self.ns.iter().chain(across.iter()) {
            let attrs = || vec![("date", format!("{y:+05}-{m:02}-{d:02}")), ("n", n.to_string()), ("month", m.to_string()), ("day_plus_n", (d as i64 + n).to_string())];
            let target = e + n;
            let model = if (MIN_DAY..=MAX_DAY).contains(&target) { Ok(civil_from_days(target)) } else { Err(ErrorKind::Range) };
            let same = |a: &(i64, u8, u8), b: &temporal_rs::PlainDate| (b.iso_year() as i64, b.iso_month(), b.iso_day()) == *a;
            let Oc::Ok(dur) = call(|| date_dur(0, 0, 0, *n)) else { continue };
            for ov in [None, Some(temporal_rs::options::ArithmeticOverflow::Reject)] {
                let got = call(|| date.add(&dur, ov));
                out.lockstep("add(N days)", &model, &got, same, attrs);
            }
            let Oc::Ok(neg) = call(|| date_dur(0, 0, 0, -*n)) else { continue };
            let got = call(|| date.subtract(&neg, None));
            out.lockstep("subtract(-N days)", &model, &got, same, attrs);
            // N days written as weeks and days
            if n % 7 != 0 || *n == 0 {
                let Oc::Ok(wd) = call(|| date_dur(0, 0, n / 7, n % 7)) else { continue };
                let got = call(|| date.add(&wd, None));
                out.lockstep("add(N days as weeks and days)", &model, &got, same, attrs);
                // ... and as weeks and whole days of hours (time units contribute whole days)
                if n / 7 != 0 {
                    let Ok(wh) = dur10([0.0, 0.0, (n / 7) as f64, 0.0, ((n % 7) * 24) as f64, 0.0, 0.0, 0.0, 0.0, 0.0]) else { continue };
                    let got = call(|| date.add(&wh, None));
                    out.lockstep("add(N days as weeks and hours)", &model, &got, same, attrs);
                }
            }
        }
    }
    fn describe(&self) -> serde_json::Value {
        json!({"days": self.days.len(), "n_values": self.ns.len()})
    }
}

pub fn run(env: &Env) -> i32 {
    let mut rep = Report::new(
        env,
        "exploration",
        "range walk: one case per epoch day of the supported range (all distinct); a day is non-trivial when it is a month end, Jan 1, Feb 29, Dec 28-31, a Monday/Thursday of ISO week 1/52/53, or adjacent to a century boundary; plus one case per year and per ordered boundary pair",
    );
    rep.assumptions.push("R1 odometer (month-length table + 4/100/400 rule, anchor 1970-01-01 = Thursday) is the definition of the proleptic Gregorian calendar; its closed form is re-validated against it on every run".into());
    static LOCAL_Q: [i64; 0] = [];
    static LOCAL_T: [i64; 8] = [7, 28, 29, 30, 31, 365, 366, 146_097];
    let walk = DayWalk { utc: TimeZone::try_from_str("+00:00").expect("utc"), local_pairs: if env.tier == Tier::Quick { &LOCAL_Q } else { &LOCAL_T }, full_everywhere: env.tier == Tier::Thorough };
    rep.run(&Edges);
    rep.run(&Years);
    rep.run(&AddDays::new(env.tier));
    rep.run(&walk);
    if env.tier == Tier::Thorough || env.replay.is_some() {
        rep.run(&Pairs::new());
    }
    rep.extra.insert("exhaustive".into(), json!(true));
    rep.extra.insert("exhaustive_scope".into(), json!("per-day and per-year facts: the whole supported range is enumerated; pairs are a bounded boundary set (thorough tier)"));
    rep.finish()
}

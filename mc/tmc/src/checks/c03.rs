//! C03 — no public operation panics, overflows, loops or reports an internal assertion failure.
//!
//! (a) every space of every other check re-run with the reduced oracle "returns a value or a
//!     Type/Range/Syntax/Generic error" (panic-only mode), (b) an extreme-value product sweep over the
//!     public functions, (c) byte strings for every parsing entry point, (d) hostile time-zone
//!     environments. Both arithmetic profiles; a watchdog turns a hang into a failure of that case.

use crate::engine::*;

mod extreme;
mod hostile;
mod strings;

pub fn spaces(env: &Env) -> Vec<Box<dyn Space>> {
    let mut v: Vec<Box<dyn Space>> = vec![];
    v.extend(extreme::spaces(env));
    v.extend(strings::spaces(env));
    v.extend(hostile::spaces(env));
    v.extend(crate::checks::c02::boundary_spaces());
    v.extend(crate::checks::c02::union_spaces(env));
    v.extend(crate::checks::c15::spaces(env));
    v
}

pub fn run(env: &Env) -> i32 {
    let mut rep = Report::new(
        env,
        "exploration",
        "panic-only re-execution of every space of C02, C04-C19 (quick tier); extreme-value products (receivers at the range ends x durations with fields 0, +-1, +-(2^31-1), +-2^31, +-(2^32-1), 2^53-scaled maxima x every unit incl. auto x every mode x increments 1, 2, 999999999, 1e9 x partial records with u8/u16/i32 extremes); all strings up to a length over a 40-symbol byte alphabet incl. invalid UTF-8 for every parsing entry point; hostile providers (errors, empty / triple candidate lists, offsets of +-26 h and beyond i32, transitions one second apart or equal to the queried instant); both arithmetic profiles",
    );
    rep.assumptions.push("a case is non-trivial when at least one argument lies outside the friendly domain of the pinned tests (|year| > 9999, field >= 2^31, unit auto, non-ASCII byte, hostile provider answer)".into());
    for s in spaces(env) {
        rep.run(s.as_ref());
    }
    rep.finish()
}

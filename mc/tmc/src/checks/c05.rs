//! C05 — PlainDateTime add / subtract / until / since / round compose date arithmetic and exact time.

use crate::checks::c04::DurCase;
use crate::conv::*;
use crate::engine::*;
use crate::imp::*;
use serde_json::json;
use temporal_rs::error::ErrorKind;
use temporal_rs::options::{ArithmeticOverflow, Unit};
use temporal_rs::{PlainDate, PlainDateTime, PlainTime};
use tmc_ref::r1::*;
use tmc_ref::r2::*;
use tmc_ref::r3::{self, TUnit};
use tmc_ref::r1::NS_PER_DAY;

fn date_alphabet() -> Vec<Ymd> {
    let mut v = vec![];
    for y in [2019i64, 2020, 2021] {
        for m in 1..=12u8 {
            if m % 2 == 0 {
                v.push(Ymd::new(y, m, 15));
            }
            v.push(Ymd::new(y, m, days_in_month(y, m)));
        }
        v.push(Ymd::new(y, 1, 1));
        v.push(Ymd::new(y, 2, 28));
    }
    for (y, m, d) in [(0, 1, 1), (1970, 1, 1), (1969, 12, 31), (-1, 12, 31), (2000, 2, 29), (1900, 3, 1), (-271_821, 4, 19), (-271_821, 4, 20), (-271_821, 4, 21), (275_760, 9, 13), (275_760, 9, 12), (275_760, 8, 31)] {
        v.push(Ymd::new(y, m, d));
    }
    v.sort();
    v.dedup();
    v
}

const H: i128 = 3_600_000_000_000;
fn time_alphabet() -> Vec<i128> {
    vec![0, 1, 1_000_000_000, 6 * H + 30 * 60_000_000_000 + 15_123_456_789, 12 * H - 1, 12 * H, 24 * H - 1_000_000_000, 24 * H - 1]
}

pub fn dt_alphabet() -> Vec<Dt> {
    let mut v = vec![];
    for d in date_alphabet() {
        for t in time_alphabet() {
            let x = Dt::new(d, t);
            if x.in_limits() {
                v.push(x);
            }
        }
    }
    v
}

fn dt_text(d: &Dt) -> String {
    let f = tod_fields(d.tod);
    format!("{:+07}-{:02}-{:02}T{:02}:{:02}:{:02}.{:03}{:03}{:03}", d.date.y, d.date.m, d.date.d, f.0, f.1, f.2, f.3, f.4, f.5)
}

fn mk(d: &Dt) -> PlainDateTime {
    plain_date_time(d.date.epoch_day(), d.tod).expect("alphabet date-time must be constructible")
}

fn same_dt(m: &Dt, v: &PlainDateTime) -> bool {
    dt_parts(v) == (m.date.epoch_day(), m.tod) && v.year() as i64 == m.date.y && v.month() == m.date.m && v.day() == m.date.d
}

fn map_err(r: Result<Dt, RErr>) -> Result<Dt, ErrorKind> {
    r.map_err(|e| match e {
        RErr::Range => ErrorKind::Range,
        RErr::Type => ErrorKind::Type,
    })
}

fn dur_alphabet(tier: Tier) -> Vec<DurCase> {
    let dates: Vec<(i64, i64, i64, i64)> = {
        let mut v = vec![(0, 0, 0, 0)];
        for y in [0i64, 1, 4, 547_000] {
            for m in [0i64, 1, 12, 13] {
                for (w, d) in [(0i64, 0i64), (1, 0), (0, 1), (0, 31), (0, 366)] {
                    if (y, m, w, d) != (0, 0, 0, 0) {
                        v.push((y, m, w, d));
                    }
                }
            }
        }
        let _ = tier;
        v
    };
    // the last four: day carries at and beyond the 32-bit thresholds (2^31, 2^32 days; the duration limit is 2^53 s ~ 1.04e11 days)
    let times: Vec<i128> = vec![0, 1, 24 * H - 1, 24 * H, 24 * H + 1, 36 * H, 100_000 * H, (1i128 << 53) - 1, (1i128 << 31) * 24 * H, (1i128 << 32) * 24 * H, ((1i128 << 32) + 1) * 24 * H + 1, 3 * (1i128 << 32) * 24 * H + 12 * H];
    let mut out = vec![];
    for sign in [1i64, -1] {
        for (y, m, w, d) in &dates {
            for t in &times {
                if sign == -1 && (*y, *m, *w, *d, *t) == (0, 0, 0, 0, 0) {
                    continue;
                }
                if let Some(c) = DurCase::new(sign * y, sign * m, sign * w, sign * d, sign as i128 * t) {
                    out.push(c);
                }
            }
        }
    }
    out
}

// ---------------------------------------------------------------------------------------------

struct AddSpace {
    dts: Vec<Dt>,
    durs: Vec<DurCase>,
}

impl Space for AddSpace {
    fn name(&self) -> String {
        "c05.add".into()
    }
    fn len(&self) -> u64 {
        (self.dts.len() * self.durs.len()) as u64
    }
    fn block(&self) -> u64 {
        1024
    }
    fn eval(&self, i: u64, out: &mut Out) {
        let nd = self.durs.len() as u64;
        let dt = &self.dts[(i / nd) as usize];
        let dur = &self.durs[(i % nd) as usize];
        let recv = mk(dt);
        let mut nontrivial = false;
        for (opname, negate) in [("add", false), ("subtract", true)] {
            let (dd, tn) = if negate { (dur.date.neg(), -dur.time_ns) } else { (dur.date, dur.time_ns) };
            for (ovname, ovm, ovi) in [("constrain", Overflow::Constrain, Some(ArithmeticOverflow::Constrain)), ("reject", Overflow::Reject, Some(ArithmeticOverflow::Reject)), ("absent", Overflow::Constrain, None)] {
                let model = map_err(add_date_time(*dt, dd, tn, ovm));
                let got = call(|| if negate { recv.subtract(&dur.imp, ovi) } else { recv.add(&dur.imp, ovi) });
                let exact = dt.epoch_ns(); // for the attribute only
                let attrs = || {
                    vec![
                        ("receiver", dt_text(dt)),
                        ("duration", dur.text()),
                        ("overflow", ovname.to_string()),
                        ("near_limit", (exact.abs() > MAX_INSTANT_NS - 40 * NS_PER_DAY).to_string()),
                        ("has_date_part", (dur.date != DateDur::default()).to_string()),
                    ]
                };
                out.lockstep(&format!("PlainDateTime::{opname}"), &model, &got, same_dt, attrs);
                let carry = (dt.tod + tn).div_euclid(NS_PER_DAY);
                if carry != 0 || model.is_err() {
                    nontrivial = true;
                }
                if let Ok(m) = &model {
                    out.state(m);
                }
            }
        }
        if nontrivial {
            out.nontrivial += 1;
            if out.want_sample() {
                out.sample(json!({"receiver": dt_text(dt), "duration": dur.text(), "model_add": format!("{:?}", add_date_time(*dt, dur.date, dur.time_ns, Overflow::Constrain).map(|d| dt_text(&d)))}));
            }
        }
    }
    fn describe(&self) -> serde_json::Value {
        json!({"date_times": self.dts.len(), "durations": self.durs.len(), "ops": ["add", "subtract"], "overflow": ["constrain", "reject", "absent"]})
    }
}

const LARGEST: [(&str, Option<Unit>, Option<DUnit>, TUnit); 12] = [
    ("year", Some(Unit::Year), Some(DUnit::Year), r3::T_HOUR),
    ("month", Some(Unit::Month), Some(DUnit::Month), r3::T_HOUR),
    ("week", Some(Unit::Week), Some(DUnit::Week), r3::T_HOUR),
    ("day", Some(Unit::Day), Some(DUnit::Day), r3::T_HOUR),
    ("hour", Some(Unit::Hour), None, r3::T_HOUR),
    ("minute", Some(Unit::Minute), None, r3::T_MINUTE),
    ("second", Some(Unit::Second), None, r3::T_SECOND),
    ("millisecond", Some(Unit::Millisecond), None, r3::T_MS),
    ("microsecond", Some(Unit::Microsecond), None, r3::T_US),
    ("nanosecond", Some(Unit::Nanosecond), None, r3::T_NS),
    ("auto", Some(Unit::Auto), Some(DUnit::Day), r3::T_HOUR),
    ("absent", None, Some(DUnit::Day), r3::T_HOUR),
];

fn expected_fields(dd: &DateDur, time: i128, tl: TUnit) -> [f64; 10] {
    let b = r3::balance(time, tl);
    [dd.years as f64, dd.months as f64, dd.weeks as f64, dd.days as f64, b[1] as f64, b[2] as f64, b[3] as f64, b[4] as f64, b[5] as f64, b[6] as f64]
}

struct DiffSpace {
    dts: Vec<Dt>,
}

impl Space for DiffSpace {
    fn name(&self) -> String {
        "c05.diff".into()
    }
    fn len(&self) -> u64 {
        (self.dts.len() * self.dts.len()) as u64
    }
    fn block(&self) -> u64 {
        512
    }
    fn eval(&self, i: u64, out: &mut Out) {
        let n = self.dts.len() as u64;
        let (a, b) = (&self.dts[(i / n) as usize], &self.dts[(i % n) as usize]);
        let (pa, pb) = (mk(a), mk(b));
        let opposite = (b.date.cmp(&a.date) as i8) * ((b.tod - a.tod).signum() as i8) == -1;
        if opposite {
            out.nontrivial += 1;
            out.count("time_order_opposite_to_date_order", 1);
        }
        for (uname, ui, dl, tl) in LARGEST {
            let (dd, time) = diff_date_time(*a, *b, dl);
            let want = expected_fields(&dd, time, tl);
            let attrs = || {
                vec![
                    ("a", dt_text(a)),
                    ("b", dt_text(b)),
                    ("largest", uname.to_string()),
                    ("opposite_order", opposite.to_string()),
                    ("span", if (b.date.y - a.date.y).abs() > 10_000 { "large" } else { "small" }.to_string()),
                ]
            };
            if want.iter().any(|x| x.abs() >= 9007199254740992.0) {
                out.unjudged += 1; // field not exactly representable as a double
                continue;
            }
            let u = call(|| pa.until(&pb, diff(ui, None, None, None)));
            let ok = out.lockstep("PlainDateTime::until", &Ok(want), &u, |m, v| dur_fields(v) == *m, attrs);
            let neg = want.map(|x| if x == 0.0 { 0.0 } else { -x });
            let s = call(|| pa.since(&pb, diff(ui, None, None, None)));
            out.lockstep("PlainDateTime::since", &Ok(neg), &s, |m, v| dur_fields(v) == *m, attrs);
            if let (true, Oc::Ok(d)) = (ok, &u) {
                let back = call(|| pa.add(d, None));
                out.lockstep("a.add(a.until(b))", &Ok(*b), &back, same_dt, attrs);
                let f = dur_fields(d);
                out.law("sign-uniform", !(f.iter().any(|x| *x > 0.0) && f.iter().any(|x| *x < 0.0)), attrs);
                if dl.is_some() {
                    let t = r3::time_total_ns(&f);
                    out.law("|time part| < 24h", t.abs() < NS_PER_DAY, attrs);
                }
            }
        }
        if out.want_sample() && opposite {
            out.sample(json!({"a": dt_text(a), "b": dt_text(b), "model_until_largest_month": format!("{:?}", diff_date_time(*a, *b, Some(DUnit::Month)))}));
        }
    }
    fn describe(&self) -> serde_json::Value {
        json!({"date_times": self.dts.len(), "largest_units": 12, "ops": ["until", "since"]})
    }
}

/// Conversions named in the property: PlainDate::to_plain_date_time, from_date_and_time.
struct Compose {
    dts: Vec<Dt>,
}
impl Space for Compose {
    fn name(&self) -> String {
        "c05.compose".into()
    }
    fn len(&self) -> u64 {
        self.dts.len() as u64
    }
    fn eval(&self, i: u64, out: &mut Out) {
        let d = &self.dts[i as usize];
        let attrs = || vec![("dt", dt_text(d))];
        out.nontrivial += 1;
        let date: PlainDate = pd(d.date.y, d.date.m, d.date.d).expect("date");
        let time: PlainTime = plain_time(d.tod).expect("time");
        let a = call(|| date.to_plain_date_time(Some(time)));
        out.lockstep("PlainDate::to_plain_date_time", &Ok(*d), &a, same_dt, attrs);
        let b = call(|| PlainDateTime::from_date_and_time(date.clone(), time));
        out.lockstep("PlainDateTime::from_date_and_time", &Ok(*d), &b, same_dt, attrs);
        let m = Dt::new(d.date, 0);
        let model = if m.in_limits() { Ok(m) } else { Err(ErrorKind::Range) };
        let c = call(|| date.to_plain_date_time(None));
        out.lockstep("PlainDate::to_plain_date_time(None)", &model, &c, same_dt, attrs);
        if out.want_sample() {
            out.sample(json!({"date_time": dt_text(d)}));
        }
    }
}

/// Depth-2 chains: add then measure back; round then add.
struct Chains {
    seeds: Vec<Dt>,
    durs: Vec<DurCase>,
}
impl Space for Chains {
    fn name(&self) -> String {
        "c05.chains".into()
    }
    fn len(&self) -> u64 {
        (self.seeds.len() * self.durs.len()) as u64
    }
    fn eval(&self, i: u64, out: &mut Out) {
        let nd = self.durs.len() as u64;
        let s = &self.seeds[(i / nd) as usize];
        let d = &self.durs[(i % nd) as usize];
        let attrs = || vec![("seed", dt_text(s)), ("duration", d.text())];
        let m1 = add_date_time(*s, d.date, d.time_ns, Overflow::Constrain);
        let r1 = call(|| mk(s).add(&d.imp, None));
        if !out.lockstep("step1 add", &map_err(m1), &r1, same_dt, attrs) {
            return;
        }
        let (Ok(m1), Oc::Ok(r1)) = (m1, r1) else { return };
        out.nontrivial += 1;
        out.state(&m1);
        let seed = mk(s);
        for (uname, ui, dl, tl) in LARGEST {
            let (dd, time) = diff_date_time(m1, *s, dl);
            let want = expected_fields(&dd, time, tl);
            if want.iter().any(|x| x.abs() >= 9007199254740992.0) {
                continue;
            }
            let u = call(|| r1.until(&seed, diff(ui, None, None, None)));
            out.lockstep("reached.until(seed)", &Ok(want), &u, |m, v| dur_fields(v) == *m, || {
                let mut a = attrs();
                a.push(("largest", uname.to_string()));
                a
            });
        }
        if out.want_sample() {
            out.sample(json!({"seed": dt_text(s), "ops": [format!("add {}", d.text()), "until(seed) x 12 largest units".to_string()], "state_after_add": dt_text(&m1)}));
        }
    }
}

/// Rounded differences of date-times: every ordered pair of a set chosen so that the exact difference sits just
/// below a carry (N years 11 months and more than half, 11 months 30 days 23:59:40, 23 h 59 min 40 s ...) x
/// (largest, smallest, increment) cells from year down to second x 9 modes, against relative rounding (R5r).
struct RoundedDiffs {
    dts: Vec<Dt>,
}
impl RoundedDiffs {
    fn new() -> Self {
        let mut dts = vec![];
        for (y, m, d) in [(2019, 3, 14), (2020, 3, 14), (2021, 3, 2), (2020, 2, 29), (2019, 12, 31), (2020, 1, 31), (2021, 3, 14), (2020, 3, 13), (2019, 4, 1), (2020, 2, 14)] {
            for t in [0i128, 10 * 3_600_000_000_000 + 30 * 60_000_000_000, 8 * 3_600_000_000_000, 9 * 3_600_000_000_000 + 59 * 60_000_000_000 + 40_000_000_000, NS_PER_DAY - 1] {
                dts.push(Dt::new(Ymd::new(y, m, d), t));
            }
        }
        RoundedDiffs { dts }
    }
}
fn rounded_cells() -> Vec<(usize, usize, i64)> {
    let mut v = vec![];
    for largest in 0..=4usize {
        for smallest in [0usize, 1, 2, 3, 4, 5, 6] {
            if smallest < largest {
                continue;
            }
            v.push((largest, smallest, 1));
            if smallest == largest && smallest <= 3 {
                v.push((largest, smallest, 2));
            }
            if smallest == 5 {
                v.push((largest, smallest, 15));
            }
        }
    }
    v
}
impl Space for RoundedDiffs {
    fn name(&self) -> String {
        "c05.rounded_differences".into()
    }
    fn len(&self) -> u64 {
        (self.dts.len() * self.dts.len()) as u64
    }
    fn block(&self) -> u64 {
        8
    }
    fn eval(&self, i: u64, out: &mut Out) {
        use tmc_ref::r5r;
        let n = self.dts.len();
        let (a, b) = (self.dts[i as usize / n], self.dts[i as usize % n]);
        let mk = |x: &Dt| plain_date_time(days_from_civil(x.date.y, x.date.m, x.date.d), x.tod);
        let (Oc::Ok(pa), Oc::Ok(pb)) = (call(|| mk(&a)), call(|| mk(&b))) else { return };
        if a != b {
            out.nontrivial += 1;
        }
        let units = [Unit::Year, Unit::Month, Unit::Week, Unit::Day, Unit::Hour, Unit::Minute, Unit::Second];
        let labels = ["year", "month", "week", "day", "hour", "minute", "second"];
        for (largest, smallest, inc) in rounded_cells() {
            for mode in tmc_ref::r4::ALL_MODES {
                let settings = diff(Some(units[largest]), Some(units[smallest]), Some(imode(mode)), Some(inc as u32));
                for (op, m) in [("PlainDateTime::until(rounded)", mode), ("PlainDateTime::since(rounded)", mode.negate())] {
                    let since = op.contains("since");
                    let model = match r5r::diff_with_rounding(a, b, largest, inc, smallest, m).and_then(|d| r5r::from_internal(&d, largest)) {
                        Ok(f) => Ok(if since { f.map(|x| -x) } else { f }),
                        Err(tmc_ref::r5::DErr::Range) => Err(ErrorKind::Range),
                        Err(_) => {
                            out.unjudged += 1;
                            continue;
                        }
                    };
                    let got = if since { call(|| pa.since(&pb, settings)) } else { call(|| pa.until(&pb, settings)) };
                    out.lockstep(op, &model, &got, |mm, v| dur_i128(v) == *mm, || vec![("a", dt_text(&a)), ("b", dt_text(&b)), ("largest", labels[largest].to_string()), ("smallest", labels[smallest].to_string()), ("increment", inc.to_string()), ("mode", mode.name().to_string())]);
                }
            }
        }
    }
    fn describe(&self) -> serde_json::Value {
        json!({"date_times": self.dts.len(), "cells": rounded_cells().len(), "modes": 9})
    }
}

pub fn spaces(env: &Env) -> Vec<Box<dyn Space>> {
    let dts = dt_alphabet();
    let durs = dur_alphabet(env.tier);
    let seeds: Vec<Dt> = dts.iter().step_by(7).cloned().collect();
    let chain_durs: Vec<DurCase> = durs.iter().step_by(5).cloned().collect();
    let round_days = vec![
        days_from_civil(2019, 12, 31),
        days_from_civil(2020, 2, 28),
        days_from_civil(2020, 2, 29),
        days_from_civil(2021, 4, 30),
        MAX_DAY,
        MIN_DAY + 1,
        MIN_DAY, // the first day: midnight itself is below the limit, so rounding down must fail
    ];
    vec![
        Box::new(AddSpace { dts: dts.clone(), durs }),
        Box::new(DiffSpace { dts: dts.clone() }),
        Box::new(Compose { dts }),
        Box::new(Chains { seeds, durs: chain_durs }),
        Box::new(RoundedDiffs::new()),
        Box::new(crate::checks::c07::TimeRound::with_days("c05.round", env.tier, round_days)),
    ]
}

pub fn run(env: &Env) -> i32 {
    let mut rep = Report::new(
        env,
        "model_checking",
        "product sweeps over a boundary alphabet of date-times (month ends, leap days, both range ends x 8 times of day) x durations / all ordered pairs x 12 largest-unit settings / depth-2 chains; rounding: every admissible (unit, increment) x residue battery on month-end, year-end and last-day dates; a pair is non-trivial when its time-of-day order is opposite to its date order, an addition when the time part carries into another day or the model rejects",
    );
    rep.assumptions.push("R2 (AddDateTime, DifferenceISODateTime transcribed from the specification over exact i128 ns) + R3 + R4".into());
    for s in spaces(env) {
        rep.run(s.as_ref());
    }
    rep.finish()
}

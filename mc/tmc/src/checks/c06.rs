//! C06 — times are integers mod 24 h, instants integers on the epoch line.

use crate::conv::*;
use crate::engine::*;
use crate::imp::*;
use serde_json::json;
use temporal_rs::error::ErrorKind;
use temporal_rs::options::Unit;
use temporal_rs::{Duration, Instant};
use tmc_ref::r1::MAX_INSTANT_NS;
use tmc_ref::r3::{self, TUnit, NS_PER_DAY, UNIT_NS};

/// 2^53 seconds in ns: |total| must stay below this for a duration to exist.
pub const DUR_LIMIT_NS: i128 = (1i128 << 53) * 1_000_000_000;

pub fn time_alphabet() -> Vec<i128> {
    let mut v = vec![];
    for h in [0i128, 1, 12, 23] {
        for m in [0i128, 59] {
            for s in [0i128, 59] {
                for ms in [0i128, 1, 999] {
                    for us in [0i128, 1, 999] {
                        for ns in [0i128, 1, 999] {
                            v.push(h * UNIT_NS[1] + m * UNIT_NS[2] + s * UNIT_NS[3] + ms * UNIT_NS[4] + us * UNIT_NS[5] + ns);
                        }
                    }
                }
            }
        }
    }
    v
}

#[derive(Clone)]
pub struct TDur {
    /// hours, minutes, seconds, ms, µs, ns as integral doubles
    pub f: [f64; 6],
    pub total: i128,
    pub imp: Duration,
}

impl TDur {
    pub fn text(&self) -> String {
        format!("PT{}H{}M{}S{}ms{}us{}ns", self.f[0], self.f[1], self.f[2], self.f[3], self.f[4], self.f[5])
    }
    fn magnitude_class(&self) -> &'static str {
        let m = self.f.iter().fold(0.0f64, |a, b| a.max(b.abs()));
        if m < 2147483648.0 {
            "<2^31"
        } else if m < 9.007199254740992e15 {
            "<2^53"
        } else if m < 9.223372036854775807e18 {
            "<2^63"
        } else {
            ">=2^63"
        }
    }
}

/// All sign-uniform combinations of the per-field alphabets whose exact total stays inside 95 % of
/// the duration limit (the limit itself is C09's subject).
pub fn tdur_alphabet(tier: Tier) -> Vec<TDur> {
    // per field: 0, 1, wrap-1, wrap, 2^31+1, and a field maximum (40 % of the duration limit)
    let wraps = [24.0, 60.0, 60.0, 1000.0, 1000.0, 1000.0];
    let mut alph: Vec<Vec<f64>> = vec![];
    for i in 0..6 {
        let max = (0.4 * DUR_LIMIT_NS as f64 / UNIT_NS[i + 1] as f64).floor();
        let mut a = vec![0.0, 1.0, wraps[i] - 1.0, wraps[i], 2147483649.0, max];
        if i == 0 || i == 5 {
            // the width of the instant range and twice that (min instant + 2*range/2 = max instant)
            a.push((MAX_INSTANT_NS / UNIT_NS[i + 1]) as f64);
            a.push((MAX_INSTANT_NS / UNIT_NS[i + 1]) as f64 + 1.0);
            a.push((2 * MAX_INSTANT_NS / UNIT_NS[i + 1]) as f64);
        }
        if tier == Tier::Thorough {
            a.push(9007199254740993.0_f64.min(max)); // 2^53 + 1 is not a double; this is 2^53 (or max)
            a.push(wraps[i] + 1.0);
        }
        a.retain(|x| *x <= max);
        a.sort_by(|x, y| x.partial_cmp(y).unwrap());
        a.dedup();
        alph.push(a);
    }
    let radices: Vec<u64> = alph.iter().map(|a| a.len() as u64).collect();
    let mut v = vec![];
    for i in 0..product(&radices) {
        let ix = unrank(i, &radices);
        let f: Vec<f64> = (0..6).map(|k| alph[k][ix[k]]).collect();
        let total = r3::total_ns(&[0.0, f[0], f[1], f[2], f[3], f[4], f[5]]);
        if total.abs() as f64 > 0.95 * DUR_LIMIT_NS as f64 {
            continue;
        }
        for sign in [1.0f64, -1.0] {
            if sign < 0.0 && total == 0 {
                continue;
            }
            let g = [sign * f[0], sign * f[1], sign * f[2], sign * f[3], sign * f[4], sign * f[5]];
            let g = g.map(|x| if x == 0.0 { 0.0 } else { x }); // no negative zero
            if let Ok(imp) = dur10([0.0, 0.0, 0.0, 0.0, g[0], g[1], g[2], g[3], g[4], g[5]]) {
                v.push(TDur { f: g, total: sign as i128 * total, imp });
            }
        }
    }
    v
}

fn hms(t: i128) -> String {
    let f = tod_fields(t);
    format!("{:02}:{:02}:{:02}.{:03}{:03}{:03}", f.0, f.1, f.2, f.3, f.4, f.5)
}

// ---------------------------------------------------------------------------------------------

struct TimeAdd {
    times: Vec<i128>,
    durs: Vec<TDur>,
}

impl Space for TimeAdd {
    fn name(&self) -> String {
        "c06.time_add".into()
    }
    fn len(&self) -> u64 {
        (self.times.len() * self.durs.len()) as u64
    }
    fn block(&self) -> u64 {
        4096
    }
    fn eval(&self, i: u64, out: &mut Out) {
        let nd = self.durs.len() as u64;
        let t = self.times[(i / nd) as usize];
        let d = &self.durs[(i % nd) as usize];
        let recv = plain_time(t).expect("time");
        let attrs = || vec![("time", hms(t)), ("duration", d.text()), ("field_magnitude", d.magnitude_class().to_string())];
        if d.total % NS_PER_DAY != 0 {
            out.nontrivial += 1;
        }
        let want_add = (t + d.total).rem_euclid(NS_PER_DAY);
        let got = call(|| recv.add(&d.imp));
        out.lockstep("PlainTime::add", &Ok(want_add), &got, |m, x| time_ns(x) == *m, attrs);
        let want_sub = (t - d.total).rem_euclid(NS_PER_DAY);
        let got = call(|| recv.subtract(&d.imp));
        out.lockstep("PlainTime::subtract", &Ok(want_sub), &got, |m, x| time_ns(x) == *m, attrs);
        if out.want_sample() && d.f[5].abs() > 1e19 {
            out.sample(json!({"time": hms(t), "duration": d.text(), "exact_total_ns": d.total.to_string(), "model_add": hms(want_add)}));
        }
    }
    fn describe(&self) -> serde_json::Value {
        json!({"times": self.times.len(), "durations": self.durs.len()})
    }
}

struct InstantAdd {
    instants: Vec<i128>,
    durs: Vec<TDur>,
    dated: Vec<Duration>,
}

pub fn instant_alphabet() -> Vec<i128> {
    let m = MAX_INSTANT_NS;
    let mut v = vec![-m, -m + 1, -NS_PER_DAY - 1, -NS_PER_DAY, -NS_PER_DAY + 1, -1_000_000_001, -1_000_000_000, -999_999_999, -1_000_001, -1_000_000, -999_999, -1000, -999, -2, -1, 0, 1, 2, 999, 1000, 999_999, 1_000_000, 1_000_001, 999_999_999, 1_000_000_000, 1_000_000_001, NS_PER_DAY - 1, NS_PER_DAY, m - 1, m];
    v.push(1_600_000_000_123_456_789);
    v.push(-1_600_000_000_123_456_789);
    v
}

impl Space for InstantAdd {
    fn name(&self) -> String {
        "c06.instant_add".into()
    }
    fn len(&self) -> u64 {
        (self.instants.len() * (self.durs.len() + self.dated.len())) as u64
    }
    fn block(&self) -> u64 {
        4096
    }
    fn eval(&self, i: u64, out: &mut Out) {
        let n = (self.durs.len() + self.dated.len()) as u64;
        let e = self.instants[(i / n) as usize];
        let j = (i % n) as usize;
        let recv = Instant::try_new(e).expect("instant");
        if j >= self.durs.len() {
            // any calendar or day field must be refused
            let d = &self.dated[j - self.durs.len()];
            let attrs = || vec![("instant", e.to_string()), ("duration", format!("{:?}", dur_fields(d))), ("kind", "has_date_field".to_string())];
            out.nontrivial += 1;
            let got = call(|| recv.add(*d));
            out.lockstep("Instant::add(date fields)", &Err::<(), _>(ErrorKind::Range), &got, |_, _| true, attrs);
            let got = call(|| recv.subtract(*d));
            out.lockstep("Instant::subtract(date fields)", &Err::<(), _>(ErrorKind::Range), &got, |_, _| true, attrs);
            return;
        }
        let d = &self.durs[j];
        let attrs = || vec![("instant", e.to_string()), ("duration", d.text()), ("field_magnitude", d.magnitude_class().to_string())];
        let chk = |x: i128| if x.abs() <= MAX_INSTANT_NS { Ok(x) } else { Err(ErrorKind::Range) };
        if d.total != 0 {
            out.nontrivial += 1;
        }
        let got = call(|| recv.add(d.imp));
        out.lockstep("Instant::add", &chk(e + d.total), &got, |m, x| x.epoch_nanoseconds().as_i128() == *m, attrs);
        let got = call(|| recv.subtract(d.imp));
        out.lockstep("Instant::subtract", &chk(e - d.total), &got, |m, x| x.epoch_nanoseconds().as_i128() == *m, attrs);
        if out.want_sample() && (e + d.total).abs() > MAX_INSTANT_NS {
            out.sample(json!({"instant_ns": e.to_string(), "duration": d.text(), "exact_sum": (e + d.total).to_string(), "model": "RangeError"}));
        }
    }
    fn describe(&self) -> serde_json::Value {
        json!({"instants": self.instants.len(), "time_durations": self.durs.len(), "durations_with_date_fields": self.dated.len()})
    }
}

/// Range walk: every instant in a window around the epoch: epoch_milliseconds = floor(ns / 1e6).
struct MsWalk {
    lo: i128,
    n: u64,
}
impl Space for MsWalk {
    fn name(&self) -> String {
        format!("c06.ms_walk@{}", self.lo)
    }
    fn len(&self) -> u64 {
        self.n
    }
    fn block(&self) -> u64 {
        1 << 14
    }
    fn eval(&self, i: u64, out: &mut Out) {
        let ns = self.lo + i as i128;
        let attrs = || vec![("ns", ns.to_string())];
        let ms = ns.div_euclid(1_000_000) as i64;
        if ns < 0 && ns % 1_000_000 != 0 {
            out.nontrivial += 1;
        }
        let Oc::Ok(inst) = call(|| Instant::try_new(ns)) else {
            out.fail("ctor", attrs());
            return;
        };
        let got = call_inf(|| inst.epoch_milliseconds());
        out.lockstep("Instant::epoch_milliseconds", &Ok(ms), &got, |a, b| a == b, attrs);
        if ns.rem_euclid(1_000_000) == 0 {
            let got = call(|| Instant::from_epoch_milliseconds(ms));
            out.lockstep("Instant::from_epoch_milliseconds", &Ok(ns), &got, |m, x| x.epoch_nanoseconds().as_i128() == *m, attrs);
        }
        if out.want_sample() && ns == -1 {
            out.sample(json!({"epoch_ns": -1, "model_epoch_ms": -1}));
        }
    }
}

const TIME_LARGEST: [(Option<Unit>, TUnit, &str); 8] = [
    (Some(Unit::Hour), r3::T_HOUR, "hour"),
    (Some(Unit::Minute), r3::T_MINUTE, "minute"),
    (Some(Unit::Second), r3::T_SECOND, "second"),
    (Some(Unit::Millisecond), r3::T_MS, "millisecond"),
    (Some(Unit::Microsecond), r3::T_US, "microsecond"),
    (Some(Unit::Nanosecond), r3::T_NS, "nanosecond"),
    (Some(Unit::Auto), r3::T_HOUR, "auto"),
    (None, r3::T_HOUR, "absent"),
];

/// A balanced field that exceeds 2^53 is not exactly representable: compare through the double.
fn fields_eq(m: &[f64; 10], d: &Duration) -> bool {
    dur_fields(d) == *m
}

struct TimeDiff {
    times: Vec<i128>,
}
impl Space for TimeDiff {
    fn name(&self) -> String {
        "c06.time_diff".into()
    }
    fn len(&self) -> u64 {
        (self.times.len() * self.times.len()) as u64
    }
    fn block(&self) -> u64 {
        1024
    }
    fn eval(&self, i: u64, out: &mut Out) {
        let n = self.times.len() as u64;
        let (a, b) = (self.times[(i / n) as usize], self.times[(i % n) as usize]);
        let (pa, pb) = (plain_time(a).expect("t"), plain_time(b).expect("t"));
        if a != b {
            out.nontrivial += 1;
        }
        for (ui, um, uname) in TIME_LARGEST {
            let attrs = || vec![("a", hms(a)), ("b", hms(b)), ("largest", uname.to_string())];
            let g = call(|| pa.until(&pb, diff(ui, None, None, None)));
            out.lockstep("PlainTime::until", &Ok(balanced_fields(b - a, um)), &g, fields_eq, attrs);
            let g = call(|| pa.since(&pb, diff(ui, None, None, None)));
            out.lockstep("PlainTime::since", &Ok(balanced_fields(a - b, um)), &g, fields_eq, attrs);
        }
        // day and calendar units are refused, as largest and as smallest unit, whatever the operands
        for (u, uname) in [(Unit::Day, "day"), (Unit::Week, "week"), (Unit::Month, "month"), (Unit::Year, "year")] {
            for (l, sm, pos) in [(Some(u), None, "largest"), (None, Some(u), "smallest"), (Some(u), Some(Unit::Second), "largest over seconds")] {
                let attrs = || vec![("a", hms(a)), ("b", hms(b)), ("unit", uname.to_string()), ("position", pos.to_string()), ("equal_operands", (a == b).to_string())];
                let g = call(|| pa.until(&pb, diff(l, sm, None, None)));
                out.lockstep("PlainTime::until refuses day and calendar units", &Err::<(), _>(ErrorKind::Range), &g.map(|_| ()), |_, _| true, attrs);
                let g = call(|| pa.since(&pb, diff(l, sm, None, None)));
                out.lockstep("PlainTime::since refuses day and calendar units", &Err::<(), _>(ErrorKind::Range), &g.map(|_| ()), |_, _| true, attrs);
            }
        }
        if out.want_sample() && b < a {
            out.sample(json!({"a": hms(a), "b": hms(b), "model_until_ns": (b - a).to_string()}));
        }
    }
}

struct InstantDiff {
    instants: Vec<i128>,
}
impl Space for InstantDiff {
    fn name(&self) -> String {
        "c06.instant_diff".into()
    }
    fn len(&self) -> u64 {
        (self.instants.len() * self.instants.len()) as u64
    }
    fn block(&self) -> u64 {
        64
    }
    fn eval(&self, i: u64, out: &mut Out) {
        let n = self.instants.len() as u64;
        let (a, b) = (self.instants[(i / n) as usize], self.instants[(i % n) as usize]);
        let (ia, ib) = (Instant::try_new(a).expect("i"), Instant::try_new(b).expect("i"));
        if a != b {
            out.nontrivial += 1;
        }
        for (ui, um, uname) in TIME_LARGEST {
            // Instant default largest unit is second
            let um = if uname == "auto" || uname == "absent" { r3::T_SECOND } else { um };
            let attrs = || vec![("a", a.to_string()), ("b", b.to_string()), ("largest", uname.to_string())];
            let want = balanced_fields(b - a, um);
            // a balanced field above 2^53 cannot be represented exactly as a double: unjudged
            if want.iter().any(|x| x.abs() >= 9007199254740992.0) {
                out.unjudged += 1;
                let g = call(|| ia.until(&ib, diff(ui, None, None, None)));
                out.lockstep("Instant::until (≥2^53 field)", &Ok(()), &g, |_, _| true, attrs);
                continue;
            }
            let g = call(|| ia.until(&ib, diff(ui, None, None, None)));
            out.lockstep("Instant::until", &Ok(want), &g, fields_eq, attrs);
            let g = call(|| ia.since(&ib, diff(ui, None, None, None)));
            out.lockstep("Instant::since", &Ok(balanced_fields(a - b, um)), &g, fields_eq, attrs);
            if let Oc::Ok(d) = &g {
                // round trip: b.add(a.since(b)) = a
                let back = call(|| ib.add(*d));
                out.lockstep("b.add(a.since(b))", &Ok(a), &back, |m, x| x.epoch_nanoseconds().as_i128() == *m, attrs);
            }
        }
        for (u, uname) in [(Unit::Day, "day"), (Unit::Week, "week"), (Unit::Month, "month"), (Unit::Year, "year")] {
            for (l, sm, pos) in [(Some(u), None, "largest"), (None, Some(u), "smallest"), (Some(u), Some(Unit::Second), "largest over seconds")] {
                let attrs = || vec![("a", a.to_string()), ("b", b.to_string()), ("unit", uname.to_string()), ("position", pos.to_string()), ("equal_operands", (a == b).to_string())];
                let g = call(|| ia.until(&ib, diff(l, sm, None, None)));
                out.lockstep("Instant::until refuses day and calendar units", &Err::<(), _>(ErrorKind::Range), &g.map(|_| ()), |_, _| true, attrs);
                let g = call(|| ia.since(&ib, diff(l, sm, None, None)));
                out.lockstep("Instant::since refuses day and calendar units", &Err::<(), _>(ErrorKind::Range), &g.map(|_| ()), |_, _| true, attrs);
            }
        }
        if out.want_sample() && a > b {
            out.sample(json!({"a_ns": a.to_string(), "b_ns": b.to_string(), "model_until_ns": (b - a).to_string()}));
        }
    }
}

/// Every time of day within ±1000 ns of a second/minute/hour/day boundary (and the first 2000 ns)
/// x small nanosecond steps: the carry chain through all six fields.
struct CarryWalk {
    starts: Vec<i128>,
}
impl Space for CarryWalk {
    fn name(&self) -> String {
        "c06.carry_walk".into()
    }
    fn len(&self) -> u64 {
        self.starts.len() as u64 * 2000
    }
    fn block(&self) -> u64 {
        500
    }
    fn eval(&self, i: u64, out: &mut Out) {
        let t = (self.starts[(i / 2000) as usize] + (i % 2000) as i128).rem_euclid(NS_PER_DAY);
        let recv = plain_time(t).expect("t");
        out.nontrivial += 1;
        for k in [1i128, 2, 999, 1000, 1_000_000_000, -1, -2, -999, -1000, -1_000_000_000] {
            let d = dur10([0., 0., 0., 0., 0., 0., 0., 0., 0., k as f64]).expect("dur");
            let attrs = || vec![("time", hms(t)), ("add_ns", k.to_string())];
            let g = call(|| recv.add(&d));
            out.lockstep("PlainTime::add(ns)", &Ok((t + k).rem_euclid(NS_PER_DAY)), &g, |m, x| time_ns(x) == *m, attrs);
        }
        if out.want_sample() && t == NS_PER_DAY - 1 {
            out.sample(json!({"time": hms(t), "add_ns": 1, "model": hms(0)}));
        }
    }
}

pub fn spaces(env: &Env) -> Vec<Box<dyn Space>> {
    let times = time_alphabet();
    let durs = tdur_alphabet(env.tier);
    let instants = instant_alphabet();
    let mut dated = vec![];
    for f in [[1., 0., 0., 0.], [0., 1., 0., 0.], [0., 0., 1., 0.], [0., 0., 0., 1.], [-1., 0., 0., 0.], [0., 0., 0., -1.], [1., 2., 3., 4.]] {
        for t in [0.0, 1.0] {
            let s = if f.iter().any(|x| *x < 0.0) { -1.0 } else { 1.0 };
            dated.push(dur10([f[0], f[1], f[2], f[3], s * t, 0., 0., 0., 0., s * t]).expect("dur"));
        }
    }
    let mut starts = vec![0i128];
    for b in [UNIT_NS[3], UNIT_NS[2], UNIT_NS[1], 12 * UNIT_NS[1], NS_PER_DAY] {
        starts.push(b - 1000);
    }
    let w = env.tier.pick(3_000_000u64, 30_000_000);
    vec![
        Box::new(TimeAdd { times: times.clone(), durs: durs.clone() }),
        Box::new(InstantAdd { instants: instants.clone(), durs, dated }),
        Box::new(MsWalk { lo: -(w as i128), n: 2 * w + 1 }),
        Box::new(MsWalk { lo: -MAX_INSTANT_NS, n: 2_000_001 }),
        Box::new(MsWalk { lo: MAX_INSTANT_NS - 2_000_000, n: 2_000_001 }),
        Box::new(TimeDiff { times }),
        Box::new(InstantDiff { instants }),
        Box::new(CarryWalk { starts }),
    ]
}

pub fn run(env: &Env) -> i32 {
    let mut rep = Report::new(
        env,
        "model_checking",
        "product sweeps (time x duration, instant x duration, all ordered pairs x largest units) and range walks (every ns of windows around the epoch, the range ends and the carry boundaries); a case is non-trivial when the duration is not a whole number of days / the operands differ / the instant is negative and not a whole millisecond",
    );
    rep.assumptions.push("R3: exact i128 nanosecond arithmetic; duration fields are integral doubles converted exactly".into());
    for s in spaces(env) {
        rep.run(s.as_ref());
    }
    rep.finish()
}

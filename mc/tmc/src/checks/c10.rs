//! C10 — each operation accepts exactly the option combinations Temporal allows; defaults resolve as specified.
//! The complete finite matrix {operation} x {largestUnit} x {smallestUnit} x {increment} x {mode}.

use crate::conv::*;
use crate::engine::*;
use crate::imp::*;
use crate::providers::UtcProvider;
use serde_json::json;
use temporal_rs::error::ErrorKind;
use temporal_rs::options::{DifferenceSettings, DisplayCalendar, RelativeTo, RoundingMode, ToStringRoundingOptions, Unit};
use temporal_rs::parsers::Precision;
use temporal_rs::{Calendar, Duration, Instant, PlainDate, PlainDateTime, PlainTime, PlainYearMonth, TimeZone, ZonedDateTime};
use tmc_ref::r4::{Mode, ALL_MODES};
use tmc_ref::r9::*;

pub const INCREMENTS: [Option<u32>; 29] = [
    None,
    Some(1),
    Some(2),
    Some(3),
    Some(4),
    Some(5),
    Some(6),
    Some(7),
    Some(8),
    Some(10),
    Some(12),
    Some(15),
    Some(20),
    Some(24),
    Some(25),
    Some(30),
    Some(59),
    Some(60),
    Some(100),
    Some(125),
    Some(500),
    Some(999),
    Some(1000),
    Some(1440),
    Some(86_400),
    Some(1_000_000),
    Some(86_400_000),
    Some(999_999_999),
    Some(1_000_000_000),
];

pub fn iu(u: U) -> Unit {
    match u {
        U::Ns => Unit::Nanosecond,
        U::Us => Unit::Microsecond,
        U::Ms => Unit::Millisecond,
        U::Second => Unit::Second,
        U::Minute => Unit::Minute,
        U::Hour => Unit::Hour,
        U::Day => Unit::Day,
        U::Week => Unit::Week,
        U::Month => Unit::Month,
        U::Year => Unit::Year,
    }
}
pub fn iuopt(u: UOpt) -> Option<Unit> {
    match u {
        UOpt::Absent => None,
        UOpt::Auto => Some(Unit::Auto),
        UOpt::Unit(u) => Some(iu(u)),
    }
}

/// Valid options whose *computation* must nevertheless fail with a RangeError: the rounding bracket
/// start + increment x unit lies outside the representable range (operands are in 2020/2021).
fn bracket_out_of_range(smallest: U, inc: u32, zoned: bool) -> bool {
    match smallest {
        // relative to a zoned date-time a day is a calendar unit as well (NudgeToCalendarUnit)
        U::Day if zoned => inc > 99_000_000,
        U::Year => inc > 270_000,
        U::Month => inc > 3_200_000,
        U::Week => inc > 14_000_000,
        _ => false,
    }
}

fn modes() -> Vec<Option<Mode>> {
    let mut v: Vec<Option<Mode>> = vec![None];
    v.extend(ALL_MODES.iter().map(|m| Some(*m)));
    v
}

type DiffFn = Box<dyn Fn(usize, bool, DifferenceSettings) -> Oc<[f64; 10]> + Sync + Send>;

struct DiffOp {
    name: &'static str,
    spec: DiffSpec,
    f: DiffFn,
}

fn fields(r: temporal_rs::TemporalResult<Duration>) -> temporal_rs::TemporalResult<[f64; 10]> {
    r.map(|d| dur_fields(&d))
}

fn diff_ops() -> Vec<DiffOp> {
    let mut v = vec![];
    {
        let a = pd(2020, 1, 15).unwrap();
        let b = pd(2021, 3, 20).unwrap();
        v.push(DiffOp {
            name: "PlainDate",
            spec: DIFF_PLAIN_DATE,
            f: Box::new(move |pair, since, s| {
                let o = if pair == 0 { &b } else { &a };
                call(|| fields(if since { a.since(o, s) } else { a.until(o, s) }))
            }),
        });
    }
    {
        let a = PlainTime::try_new(1, 2, 3, 4, 5, 6).unwrap();
        let b = PlainTime::try_new(13, 14, 15, 16, 17, 18).unwrap();
        v.push(DiffOp {
            name: "PlainTime",
            spec: DIFF_PLAIN_TIME,
            f: Box::new(move |pair, since, s| {
                let o = if pair == 0 { &b } else { &a };
                call(|| fields(if since { a.since(o, s) } else { a.until(o, s) }))
            }),
        });
    }
    {
        let a = PlainDateTime::try_new(2020, 1, 15, 1, 2, 3, 4, 5, 6, Calendar::default()).unwrap();
        let b = PlainDateTime::try_new(2021, 3, 20, 13, 14, 15, 16, 17, 18, Calendar::default()).unwrap();
        v.push(DiffOp {
            name: "PlainDateTime",
            spec: DIFF_PLAIN_DATE_TIME,
            f: Box::new(move |pair, since, s| {
                let o = if pair == 0 { &b } else { &a };
                call(|| fields(if since { a.since(o, s) } else { a.until(o, s) }))
            }),
        });
    }
    {
        let a = PlainYearMonth::new_with_overflow(2020, 1, None, Calendar::default(), temporal_rs::options::ArithmeticOverflow::Reject).unwrap();
        let b = PlainYearMonth::new_with_overflow(2021, 3, None, Calendar::default(), temporal_rs::options::ArithmeticOverflow::Reject).unwrap();
        v.push(DiffOp {
            name: "PlainYearMonth",
            spec: DIFF_YEAR_MONTH,
            f: Box::new(move |pair, since, s| {
                let o = if pair == 0 { &b } else { &a };
                call(|| fields(if since { a.since(o, s) } else { a.until(o, s) }))
            }),
        });
    }
    {
        let a = Instant::try_new(1_600_000_000_123_456_789).unwrap();
        let b = Instant::try_new(1_600_047_655_135_468_801).unwrap();
        v.push(DiffOp {
            name: "Instant",
            spec: DIFF_INSTANT,
            f: Box::new(move |pair, since, s| {
                let o = if pair == 0 { &b } else { &a };
                call(|| fields(if since { a.since(o, s) } else { a.until(o, s) }))
            }),
        });
    }
    {
        let tz = TimeZone::try_from_str("UTC").unwrap();
        let a = ZonedDateTime::try_new(1_600_000_000_123_456_789, Calendar::default(), tz.clone()).unwrap();
        let b = ZonedDateTime::try_new(1_636_047_655_135_468_801, Calendar::default(), tz).unwrap();
        v.push(DiffOp {
            name: "ZonedDateTime",
            spec: DIFF_ZONED,
            f: Box::new(move |pair, since, s| {
                let o = if pair == 0 { &b } else { &a };
                call(|| fields(if since { a.since_with_provider(o, s, &UtcProvider) } else { a.until_with_provider(o, s, &UtcProvider) }))
            }),
        });
    }
    v
}

struct DiffMatrix {
    ops: Vec<DiffOp>,
    modes: Vec<Option<Mode>>,
}

impl Space for DiffMatrix {
    fn name(&self) -> String {
        "c10.difference_matrix".into()
    }
    fn len(&self) -> u64 {
        (self.ops.len() * 12 * 12 * INCREMENTS.len()) as u64
    }
    fn block(&self) -> u64 {
        64
    }
    fn eval(&self, i: u64, out: &mut Out) {
        let ix = unrank(i, &[INCREMENTS.len() as u64, 12, 12, self.ops.len() as u64]);
        let (inc, smallest, largest, op) = (INCREMENTS[ix[0]], ALL_UOPT[ix[1]], ALL_UOPT[ix[2]], &self.ops[ix[3]]);
        let verdict = resolve_diff(&op.spec, largest, smallest, inc);
        if largest != UOpt::Absent || smallest != UOpt::Absent || inc.is_some() {
            out.nontrivial += 1;
        }
        for mode in &self.modes {
            let attrs = || {
                vec![
                    ("type", op.name.to_string()),
                    ("largest", largest.name().to_string()),
                    ("smallest", smallest.name().to_string()),
                    ("increment", inc.map(|x| x.to_string()).unwrap_or("absent".into())),
                    ("mode", mode.map(|m| m.name()).unwrap_or("absent").to_string()),
                ]
            };
            let st = diff(iuopt(largest), iuopt(smallest), mode.map(imode), inc);
            for since in [false, true] {
                let opn = if since { "since" } else { "until" };
                match verdict {
                    Err(()) => {
                        // must be refused for distinct operands and for equal operands alike (before computing)
                        for pair in [0usize, 1] {
                            let got = (op.f)(pair, since, st);
                            out.lockstep(&format!("{opn}(invalid options{})", if pair == 1 { ", equal operands" } else { "" }), &Err::<(), _>(ErrorKind::Range), &got, |_, _| true, attrs);
                        }
                    }
                    Ok(res) => {
                        let got = (op.f)(0, since, st);
                        if bracket_out_of_range(res.smallest, res.increment, op.name == "ZonedDateTime") {
                            out.lockstep(&format!("{opn}(valid options, bracket out of range)"), &Err::<(), _>(ErrorKind::Range), &got, |_, _| true, attrs);
                            continue;
                        }
                        if !out.lockstep(&format!("{opn}(valid options)"), &Ok(()), &got, |_, _| true, attrs) {
                            continue;
                        }
                        let Oc::Ok(r) = got else { unreachable!() };
                        // defaults: the cell equals the fully explicit cell
                        let m = mode.unwrap_or(Mode::Trunc);
                        let explicit = diff(Some(iu(res.largest)), Some(iu(res.smallest)), Some(imode(m)), Some(res.increment));
                        let e = (op.f)(0, since, explicit);
                        out.lockstep(&format!("{opn}: defaults resolve to explicit values"), &Ok(r), &e, |a, b| a == b, attrs);
                        // since negates the mode: since(m) = -until(negate(m))
                        if since {
                            let un = (op.f)(0, false, diff(Some(iu(res.largest)), Some(iu(res.smallest)), Some(imode(m.negate())), Some(res.increment)));
                            out.lockstep("since(m) = -until(negate(m))", &Ok(r), &un, |a, b| a.iter().zip(b.iter()).all(|(x, y)| *x == -*y || (*x == 0.0 && *y == 0.0)), attrs);
                        }
                        let got_eq = (op.f)(1, since, st);
                        out.lockstep(&format!("{opn}(valid options, equal operands)"), &Ok([0.0; 10]), &got_eq, |a, b| a == b, attrs);
                    }
                }
            }
        }
        if out.want_sample() && verdict.is_err() && inc == Some(7) {
            out.sample(json!({"op": op.name, "largest": largest.name(), "smallest": smallest.name(), "increment": 7, "model": "RangeError"}));
        }
    }
    fn describe(&self) -> serde_json::Value {
        json!({"operations": self.ops.iter().map(|o| o.name).collect::<Vec<_>>(), "largest": 12, "smallest": 12, "increments": INCREMENTS.len(), "modes": self.modes.len(), "ops": ["until", "since"]})
    }
}

// ---------------------------------------------------------------------------------------------
// round of PlainTime, PlainDateTime, Instant

struct RoundMatrix {
    modes: Vec<Option<Mode>>,
}

impl Space for RoundMatrix {
    fn name(&self) -> String {
        "c10.round_matrix".into()
    }
    fn len(&self) -> u64 {
        (3 * 12 * 12 * INCREMENTS.len()) as u64
    }
    fn block(&self) -> u64 {
        64
    }
    fn eval(&self, i: u64, out: &mut Out) {
        let ix = unrank(i, &[INCREMENTS.len() as u64, 12, 12, 3]);
        let (inc, smallest, largest) = (INCREMENTS[ix[0]], ALL_UOPT[ix[1]], ALL_UOPT[ix[2]]);
        let kind = [RoundKind::PlainTime, RoundKind::PlainDateTime, RoundKind::Instant][ix[3]];
        let verdict = resolve_round(kind, smallest, inc);
        out.nontrivial += 1;
        let t = PlainTime::try_new(13, 14, 15, 16, 17, 18).unwrap();
        let dt = PlainDateTime::try_new(2021, 3, 20, 13, 14, 15, 16, 17, 18, Calendar::default()).unwrap();
        let inst = Instant::try_new(1_600_047_655_135_468_801).unwrap();
        for mode in &self.modes {
            let attrs = || {
                vec![
                    ("type", format!("{kind:?}")),
                    ("largest", largest.name().to_string()),
                    ("smallest", smallest.name().to_string()),
                    ("increment", inc.map(|x| x.to_string()).unwrap_or("absent".into())),
                    ("mode", mode.map(|m| m.name()).unwrap_or("absent").to_string()),
                ]
            };
            // each call returns the rounded value as epoch-like ns for comparison
            let run = |sm: UOpt, inc: Option<u32>, mode: Option<Mode>| -> Oc<i128> {
                match kind {
                    RoundKind::PlainTime => {
                        // the API takes the unit by value: "absent" is not expressible, skip through Auto
                        let Some(u) = iuopt(sm) else { return Oc::Err(ErrorKind::Range, "absent".into()) };
                        call(|| t.round(u, inc.map(|x| x as f64), mode.map(imode)).map(|x| time_ns(&x)))
                    }
                    RoundKind::PlainDateTime => call(|| {
                        dt.round(round_opts(iuopt(largest), iuopt(sm), mode.map(imode), inc)).map(|x| {
                            let (d, t) = dt_parts(&x);
                            d as i128 * 86_400_000_000_000 + t
                        })
                    }),
                    RoundKind::Instant => call(|| inst.round(round_opts(iuopt(largest), iuopt(sm), mode.map(imode), inc)).map(|x| x.epoch_nanoseconds().as_i128())),
                }
            };
            let got = run(smallest, inc, *mode);
            match verdict {
                Err(()) => {
                    out.lockstep("round(invalid options)", &Err::<(), _>(ErrorKind::Range), &got, |_, _| true, attrs);
                }
                Ok(res) => {
                    if !out.lockstep("round(valid options)", &Ok(()), &got, |_, _| true, attrs) {
                        continue;
                    }
                    let Oc::Ok(r) = got else { unreachable!() };
                    let e = run(UOpt::Unit(res.smallest), Some(res.increment), Some(mode.unwrap_or(Mode::HalfExpand)));
                    out.lockstep("round: defaults (increment 1, halfExpand) resolve to explicit values", &Ok(r), &e, |a, b| a == b, attrs);
                }
            }
        }
        if out.want_sample() && verdict.is_ok() && inc == Some(12) {
            out.sample(json!({"type": format!("{kind:?}"), "smallest": smallest.name(), "increment": 12, "model": "accepted"}));
        }
    }
    fn describe(&self) -> serde_json::Value {
        json!({"types": ["PlainTime", "PlainDateTime", "Instant"], "largest (ignored by round)": 12, "smallest": 12, "increments": INCREMENTS.len(), "modes": self.modes.len()})
    }
}

// ---------------------------------------------------------------------------------------------
// Duration::round / total

struct DurationMatrix {
    modes: Vec<Option<Mode>>,
    durs: Vec<(&'static str, Duration, U)>,
}

impl Space for DurationMatrix {
    fn name(&self) -> String {
        "c10.duration_round_matrix".into()
    }
    fn len(&self) -> u64 {
        (self.durs.len() * 2 * 12 * 12 * INCREMENTS.len()) as u64
    }
    fn block(&self) -> u64 {
        64
    }
    fn eval(&self, i: u64, out: &mut Out) {
        let ix = unrank(i, &[INCREMENTS.len() as u64, 12, 12, 2, self.durs.len() as u64]);
        let (inc, smallest, largest, has_rel) = (INCREMENTS[ix[0]], ALL_UOPT[ix[1]], ALL_UOPT[ix[2]], ix[3] == 1);
        let (dname, dur, existing) = &self.durs[ix[4]];
        let verdict = resolve_duration_round(*existing, largest, smallest, inc, has_rel);
        out.nontrivial += 1;
        if verdict == Verdict::Unjudged {
            out.unjudged += 1;
        }
        let rel = || if has_rel { Some(RelativeTo::PlainDate(pd(2020, 1, 15).unwrap())) } else { None };
        for mode in &self.modes {
            let attrs = || {
                vec![
                    ("duration", dname.to_string()),
                    ("relative_to", has_rel.to_string()),
                    ("largest", largest.name().to_string()),
                    ("smallest", smallest.name().to_string()),
                    ("increment", inc.map(|x| x.to_string()).unwrap_or("absent".into())),
                    ("mode", mode.map(|m| m.name()).unwrap_or("absent").to_string()),
                ]
            };
            let run = |l: Option<Unit>, s: Option<Unit>, inc: Option<u32>, m: Option<Mode>| call(|| dur.round_with_provider(round_opts(l, s, m.map(imode), inc), rel(), &UtcProvider).map(|d| dur_fields(&d)));
            let got = run(iuopt(largest), iuopt(smallest), inc, *mode);
            match verdict {
                Verdict::Unjudged => {
                    // executed (C03 applies), not judged
                    out.lockstep("Duration::round(unjudged cell)", &Ok(()), &got.map(|_| ()).or_ok(), |_, _| true, attrs);
                }
                Verdict::Reject => {
                    out.lockstep("Duration::round(invalid options)", &Err::<(), _>(ErrorKind::Range), &got, |_, _| true, attrs);
                }
                Verdict::Accept(res) => {
                    // (a blank duration ends where it starts: the difference is zero before any bracket is computed)
                    if bracket_out_of_range(res.smallest, res.increment, false) && !dur.is_zero() {
                        out.lockstep("Duration::round(valid options, bracket out of range)", &Err::<(), _>(ErrorKind::Range), &got, |_, _| true, attrs);
                        continue;
                    }
                    if !out.lockstep("Duration::round(valid options)", &Ok(()), &got, |_, _| true, attrs) {
                        continue;
                    }
                    let Oc::Ok(r) = got else { unreachable!() };
                    let e = run(Some(iu(res.largest)), Some(iu(res.smallest)), Some(res.increment), Some(mode.unwrap_or(Mode::HalfExpand)));
                    out.lockstep("Duration::round: defaults resolve to explicit values", &Ok(r), &e, |a, b| a == b, attrs);
                }
            }
        }
        if out.want_sample() && verdict == Verdict::Reject && largest != UOpt::Absent {
            out.sample(json!({"duration": dname, "largest": largest.name(), "smallest": smallest.name(), "increment": format!("{inc:?}"), "model": "RangeError"}));
        }
    }
    fn describe(&self) -> serde_json::Value {
        json!({"durations": self.durs.iter().map(|d| d.0).collect::<Vec<_>>(), "relative_to": ["none", "PlainDate"], "largest": 12, "smallest": 12, "increments": INCREMENTS.len(), "modes": self.modes.len()})
    }
}

trait OrOk<T> {
    fn or_ok(self) -> Oc<T>;
}
impl OrOk<()> for Oc<()> {
    /// Any non-panicking, non-Assert outcome is acceptable for an unjudged cell.
    fn or_ok(self) -> Oc<()> {
        match self {
            Oc::Err(k, m) if k == ErrorKind::Assert => Oc::Err(k, m),
            Oc::Err(_, _) => Oc::Ok(()),
            o => o,
        }
    }
}

/// Duration::total (unit x relativeTo) and toString options of every type.
struct SmallMatrices {
    durs: Vec<(&'static str, Duration, U)>,
}

impl Space for SmallMatrices {
    fn name(&self) -> String {
        "c10.total_and_to_string".into()
    }
    fn len(&self) -> u64 {
        // total: durs x 2 x 11 units ; toString: 5 types x 12 smallest x 14 precisions
        (self.durs.len() * 2 * 11 + 5 * 12 * 14) as u64
    }
    fn block(&self) -> u64 {
        16
    }
    fn eval(&self, i: u64, out: &mut Out) {
        out.nontrivial += 1;
        let n_total = (self.durs.len() * 2 * 11) as u64;
        if i < n_total {
            let ix = unrank(i, &[11, 2, self.durs.len() as u64]);
            let unit = ALL_UOPT[ix[0] + 1]; // auto + 10 units
            let has_rel = ix[1] == 1;
            let (dname, dur, existing) = &self.durs[ix[2]];
            let attrs = || vec![("duration", dname.to_string()), ("unit", unit.name().to_string()), ("relative_to", has_rel.to_string())];
            let rel = if has_rel { Some(RelativeTo::PlainDate(pd(2020, 1, 15).unwrap())) } else { None };
            let got = call(|| dur.total_with_provider(iuopt(unit).unwrap(), rel, &UtcProvider).map(|f| f.as_inner()));
            match unit {
                UOpt::Auto => {
                    out.lockstep("Duration::total(auto)", &Err::<(), _>(ErrorKind::Range), &got, |_, _| true, attrs);
                }
                UOpt::Unit(u) => {
                    if !has_rel && (u.is_calendar() || existing.is_calendar()) {
                        // needs a relativeTo: must be a RangeError
                        out.lockstep("Duration::total(calendar unit, no relativeTo)", &Err::<(), _>(ErrorKind::Range), &got, |_, _| true, attrs);
                    } else {
                        out.lockstep("Duration::total(valid unit)", &Ok(()), &got, |_, _| true, attrs);
                    }
                }
                UOpt::Absent => unreachable!(),
            }
            return;
        }
        let j = i - n_total;
        let ix = unrank(j, &[14, 12, 5]);
        let prec: (Precision, Option<u8>, &str) = match ix[0] {
            0 => (Precision::Auto, None, "auto"),
            1..=10 => (Precision::Digit(ix[0] as u8 - 1), Some(ix[0] as u8 - 1), "digit"),
            11 => (Precision::Digit(10), Some(10), "digit10"),
            12 => (Precision::Digit(255), Some(255), "digit255"),
            _ => (Precision::Digit(128), Some(128), "digit128"),
        };
        let smallest = ALL_UOPT[ix[1]];
        let ty = ["PlainTime", "PlainDateTime", "Instant", "ZonedDateTime", "Duration"][ix[2]];
        let attrs = || vec![("type", ty.to_string()), ("smallest", smallest.name().to_string()), ("precision", format!("{:?}", prec.0))];
        let opts = || ToStringRoundingOptions { precision: prec.0, smallest_unit: iuopt(smallest), rounding_mode: None };
        // receivers whose every dropped fraction is above one half, so that the rounding mode in force shows
        let print = |o: ToStringRoundingOptions| -> Oc<String> {
            match ty {
                "PlainTime" => call(|| PlainTime::try_new(13, 14, 15, 789, 876, 543).unwrap().to_ixdtf_string(o)),
                "PlainDateTime" => call(|| PlainDateTime::try_new(2021, 3, 20, 13, 14, 15, 789, 876, 543, Calendar::default()).unwrap().to_ixdtf_string(o, DisplayCalendar::Auto)),
                "Instant" => call(|| Instant::try_new(1_600_047_655_789_876_543).unwrap().to_ixdtf_string_with_provider(None, o, &UtcProvider)),
                "ZonedDateTime" => call(|| {
                    ZonedDateTime::try_new(1_600_047_655_789_876_543, Calendar::default(), TimeZone::try_from_str("UTC").unwrap())
                        .unwrap()
                        .to_ixdtf_string_with_provider(Default::default(), Default::default(), Default::default(), o, &UtcProvider)
                }),
                _ => call(|| dur10([1., 2., 3., 4., 5., 6., 7., 789., 876., 543.]).unwrap().as_temporal_string(o)),
            }
        };
        let got: Oc<String> = print(opts());
        let mut verdict = resolve_to_string(smallest, prec.1);
        if ty == "Duration" && smallest == UOpt::Unit(U::Minute) {
            verdict = Err(()); // Duration.toString refuses hour and minute
        }
        match verdict {
            Ok(()) => {
                if out.lockstep("toString(valid options)", &Ok(()), &got, |_, _| true, attrs) {
                    if let Oc::Ok(text) = &got {
                        // the defaults: an absent mode is trunc; a smallest unit overrides the digit count
                        let explicit = print(ToStringRoundingOptions { precision: prec.0, smallest_unit: iuopt(smallest), rounding_mode: Some(temporal_rs::options::RoundingMode::Trunc) });
                        out.lockstep("toString: absent mode = trunc", &Ok(text.clone()), &explicit, |a, b| a == b, attrs);
                        if iuopt(smallest).is_some() && smallest != UOpt::Auto {
                            let unit_only = print(ToStringRoundingOptions { precision: Precision::Auto, smallest_unit: iuopt(smallest), rounding_mode: None });
                            out.lockstep("toString: smallestUnit overrides fractionalSecondDigits", &Ok(text.clone()), &unit_only, |a, b| a == b, attrs);
                        }
                    }
                }
            }
            Err(()) => {
                out.lockstep("toString(invalid options)", &Err::<(), _>(ErrorKind::Range), &got, |_, _| true, attrs);
            }
        }
        if out.want_sample() {
            out.sample(json!({"type": ty, "smallest": smallest.name(), "precision": format!("{:?}", prec.0), "model": format!("{verdict:?}")}));
        }
    }
}

/// The public unit tables: the three unit classes and the maximum rounding increment, for every variant.
struct UnitTables;
impl Space for UnitTables {
    fn name(&self) -> String {
        "c10.unit_tables".into()
    }
    fn len(&self) -> u64 {
        11
    }
    fn eval(&self, i: u64, out: &mut Out) {
        let units = [Unit::Auto, Unit::Nanosecond, Unit::Microsecond, Unit::Millisecond, Unit::Second, Unit::Minute, Unit::Hour, Unit::Day, Unit::Week, Unit::Month, Unit::Year];
        let u = units[i as usize];
        out.nontrivial += 1;
        // (calendar, date, time, maximum increment) per the specification's tables; auto belongs to no class
        let model = match i {
            0 => (false, false, false, None),
            1..=3 => (false, false, true, Some(1000u32)),
            4 | 5 => (false, false, true, Some(60)),
            6 => (false, false, true, Some(24)),
            7 => (false, true, false, None),
            _ => (true, true, false, None),
        };
        let got = call_inf(|| (u.is_calendar_unit(), u.is_date_unit(), u.is_time_unit(), u.to_maximum_rounding_increment()));
        out.lockstep("Unit: classes and maximum rounding increment", &Ok(model), &got, |a, b| a == b, || vec![("unit", format!("{u:?}"))]);
    }
}

/// RoundingIncrement construction: integers in [1, 1e9] after truncation; everything else is a RangeError.
struct IncrementCtor;
impl Space for IncrementCtor {
    fn name(&self) -> String {
        "c10.increment_values".into()
    }
    fn len(&self) -> u64 {
        18
    }
    fn eval(&self, i: u64, out: &mut Out) {
        use temporal_rs::options::RoundingIncrement;
        out.nontrivial += 1;
        let f: [f64; 12] = [0.0, -1.0, 0.5, 0.999, 1.0, 1.5, 2.9, 1e9, 1e9 + 0.5, 1e9 + 1.0, f64::NAN, f64::INFINITY];
        if (i as usize) < f.len() {
            let v = f[i as usize];
            let model = if v.is_finite() && v.trunc() >= 1.0 && v.trunc() <= 1e9 { Ok(v.trunc() as u32) } else { Err(ErrorKind::Range) };
            let got = call(|| RoundingIncrement::try_from(v).map(|r| r.get()));
            out.lockstep("RoundingIncrement::try_from(f64)", &model, &got, |a, b| a == b, || vec![("value", format!("{v}"))]);
            // through PlainTime::round, which takes the increment as a double
            let t = PlainTime::try_new(13, 14, 15, 16, 17, 18).unwrap();
            let got = call(|| t.round(Unit::Nanosecond, Some(v), None).map(|_| ()));
            let m2 = match model {
                Ok(n) if 1000 % n == 0 && n < 1000 => Ok(()),
                _ => Err(ErrorKind::Range),
            };
            out.lockstep("PlainTime::round(ns, increment as f64)", &m2, &got, |_, _| true, || vec![("value", format!("{v}"))]);
        } else {
            let u: [u32; 6] = [0, 1, 999_999_999, 1_000_000_000, 1_000_000_001, u32::MAX];
            let v = u[i as usize - f.len()];
            let model = if (1..=1_000_000_000).contains(&v) { Ok(v) } else { Err(ErrorKind::Range) };
            let got = call(|| RoundingIncrement::try_new(v).map(|r| r.get()));
            out.lockstep("RoundingIncrement::try_new(u32)", &model, &got, |a, b| a == b, || vec![("value", format!("{v}"))]);
        }
        if out.want_sample() {
            out.sample(json!({"case": i}));
        }
    }
}

fn durations() -> Vec<(&'static str, Duration, U)> {
    vec![
        ("PT5H6M7.008009010S", dur10([0., 0., 0., 0., 5., 6., 7., 8., 9., 10.]).unwrap(), U::Hour),
        ("P4DT5H", dur10([0., 0., 0., 4., 5., 0., 0., 0., 0., 0.]).unwrap(), U::Day),
        ("P1Y2M3W4DT5H", dur10([1., 2., 3., 4., 5., 0., 0., 0., 0., 0.]).unwrap(), U::Year),
        ("PT0.000000010S", dur10([0., 0., 0., 0., 0., 0., 0., 0., 0., 10.]).unwrap(), U::Ns),
        // one receiver led by each remaining unit, its smaller fields above their carry thresholds, so that the
        // default largest unit (the receiver's own) is visible in the balanced result
        ("P14M40D", dur10([0., 14., 0., 40., 0., 0., 0., 0., 0., 0.]).unwrap(), U::Month),
        ("P3W10DT30H", dur10([0., 0., 3., 10., 30., 0., 0., 0., 0., 0.]).unwrap(), U::Week),
        ("PT90M4567S", dur10([0., 0., 0., 0., 0., 90., 4567., 0., 0., 0.]).unwrap(), U::Minute),
        ("PT4567.008S (ms 4567008 us)", dur10([0., 0., 0., 0., 0., 0., 4567., 0., 4_567_008., 0.]).unwrap(), U::Second),
        ("4567 ms 8900 us", dur10([0., 0., 0., 0., 0., 0., 0., 4567., 8900., 10.]).unwrap(), U::Ms),
        ("4567 us 8900 ns", dur10([0., 0., 0., 0., 0., 0., 0., 0., 4567., 8900.]).unwrap(), U::Us),
        ("-4567 us -8900 ns", dur10([0., 0., 0., 0., 0., 0., 0., 0., -4567., -8900.]).unwrap(), U::Us),
        ("PT0S (blank)", dur10([0.; 10]).unwrap(), U::Ns),
    ]
}

pub fn spaces(env: &Env) -> Vec<Box<dyn Space>> {
    let _ = env;
    vec![
        Box::new(DiffMatrix { ops: diff_ops(), modes: modes() }),
        Box::new(RoundMatrix { modes: modes() }),
        Box::new(DurationMatrix { modes: modes(), durs: durations() }),
        Box::new(SmallMatrices { durs: durations() }),
        Box::new(IncrementCtor),
        Box::new(UnitTables),
    ]
}

pub fn run(env: &Env) -> i32 {
    let mut rep = Report::new(
        env,
        "exploration",
        "the complete matrix {operation} x {largestUnit: absent, auto, 10 units} x {smallestUnit: absent, auto, 10 units} x {29 increments} x {mode: absent + 9} (one case per cell before the mode loop; every cell except the all-absent one is non-trivial); invalid cells must fail with a RangeError for distinct and for equal operands, valid cells must succeed and equal the fully explicit cell",
    );
    rep.assumptions.push("R9 tables transcribed from GetDifferenceSettings and the round/total/toString option steps; cells whose admissibility depends on a rule the property does not name (Duration.round: increment > 1 with a date smallestUnit and largestUnit != smallestUnit; calendar units without relativeTo) are executed but unjudged".into());
    let _ = RoundingMode::Trunc;
    for s in spaces(env) {
        rep.run(s.as_ref());
    }
    rep.extra.insert("exhaustive".into(), json!(true));
    rep.finish()
}

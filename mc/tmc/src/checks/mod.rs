use crate::engine::*;

pub mod c01;
pub mod c02;
pub mod c03;
pub mod c04;
pub mod c05;
pub mod c06;
pub mod c07;
pub mod c08;
pub mod c09;
pub mod c10;
pub mod c11;
pub mod c12;
pub mod c13;
pub mod c14;
pub mod c15;
pub mod c16;
pub mod c17;
pub mod c19;
pub mod c19_ffi;
pub mod c20;
pub mod c18;
pub mod realzones;

pub fn dispatch(env: &Env) -> i32 {
    match env.prop.as_str() {
        "C01" => c01::run(env),
        "C02" => c02::run(env),
        "C03" => c03::run(env),
        "C04" => c04::run(env),
        "C05" => c05::run(env),
        "C06" => c06::run(env),
        "C07" => c07::run(env),
        "C08" => c08::run(env),
        "C09" => c09::run(env),
        "C10" => c10::run(env),
        "C11" => c11::run(env),
        "C12" => c12::run(env),
        "C13" => c13::run(env),
        "C14" => c14::run(env),
        "C15" => c15::run(env),
        "C16" => c16::run(env),
        "C17" => c17::run(env),
        "C18" => c18::run(env),
        "C19" => c19::run(env),
        "C20" => c20::run(env),
        other => {
            eprintln!("no check for property {other}");
            2
        }
    }
}

//! C12 — parsers accept exactly the Temporal grammar of their type.
//!
//! Every string of the enumerated spaces is given to every parsing entry point; the verdict of the
//! R8 recogniser (tmc-ref r8p: the grammar productions transcribed one-to-one, non-deterministic,
//! plus the type-specific rules) decides accept/reject, and on acceptance the value.

use crate::engine::*;
use crate::providers::UtcProvider;
use serde_json::json;
use std::str::FromStr;
use temporal_rs::error::ErrorKind;
use temporal_rs::options::{Disambiguation, DisplayCalendar, OffsetDisambiguation, RelativeTo, ToStringRoundingOptions};
use temporal_rs::{Calendar, Duration, Instant, MonthCode, PlainDate, PlainDateTime, PlainMonthDay, PlainTime, PlainYearMonth, TimeZone, UtcOffset, ZonedDateTime};
use tmc_ref::r1::{date_in_limits, days_from_civil, MAX_INSTANT_NS};
use tmc_ref::r3::NS_PER_DAY;
use tmc_ref::r8f::{date_text, time_text, Prec};
use tmc_ref::r8p::{self, Off, Rec, Tz, Verdict};

#[derive(Clone, Copy, Debug, PartialEq, Eq)]
pub enum Goal {
    Date,
    DateTime,
    Time,
    YearMonth,
    MonthDay,
    Instant,
    Zoned,
    RelativeTo,
    Duration,
    Offset,
    TzId,
    TzStr,
    Calendar,
    MonthCode,
}
/// The full ISO date (with the hidden reference day / year) in a text written with the calendar annotation.
fn full_date_of(text: &str) -> String {
    text.split('[').next().unwrap_or("").to_string()
}

pub const GOALS: [Goal; 14] = [Goal::Date, Goal::DateTime, Goal::Time, Goal::YearMonth, Goal::MonthDay, Goal::Instant, Goal::Zoned, Goal::RelativeTo, Goal::Duration, Goal::Offset, Goal::TzId, Goal::TzStr, Goal::Calendar, Goal::MonthCode];

fn known_calendar(id: &str) -> bool {
    crate::checks::c16::CALENDARS.iter().any(|(c, _)| *c == id)
}

/// calendar of a record per the annotation rules: Err = verdict to return
fn cal_of(rec: &Rec) -> Result<String, Verdict<String>> {
    match r8p::annotation_rules(&rec.anns) {
        Err(()) => Err(Verdict::Reject),
        Ok(None) => Ok("iso8601".into()),
        Ok(Some(c)) if known_calendar(&c) => Ok(c),
        Ok(Some(_)) => Err(Verdict::Reject),
    }
}

fn offset_text_minutes(m: i32) -> String {
    tmc_ref::r8f::offset_text(m as i64 * 60)
}

fn eval_zoned(rec: &Rec) -> Verdict<String> {
    let cal = match cal_of(rec) {
        Ok(c) => c,
        Err(v) => return v,
    };
    let (_, tz) = rec.tz.as_ref().unwrap();
    let (zoff_min, tzname) = match tz {
        Tz::Offset(m) => (*m, offset_text_minutes(*m)),
        Tz::Name(n) if n.eq_ignore_ascii_case("utc") => (0, "utc".to_string()),
        Tz::Name(_) => return Verdict::Unjudged("zone name unknown to the harness provider (availability is not a grammar matter)"),
    };
    let (y, m, d) = rec.date.unwrap();
    let local = days_from_civil(y, m, d) as i128 * NS_PER_DAY + rec.time.map(|t| t.ns_of_day()).unwrap_or(0);
    let zoff = zoff_min as i128 * 60_000_000_000;
    let t = match rec.offset {
        None => local - zoff,
        Some(Off::Z) => local,
        Some(Off::Num { ns, .. }) => {
            // InterpretISODateTimeOffset: CheckISODaysRange on the wall-clock date when an offset is to be matched
            if days_from_civil(y, m, d).abs() > 100_000_000 {
                return Verdict::Reject;
            }
            if ns as i128 == zoff {
                local - zoff
            } else {
                return Verdict::Reject;
            }
        }
    };
    if t.abs() > MAX_INSTANT_NS {
        return Verdict::Reject;
    }
    Verdict::Accept(format!("zoned {t} {tzname} {cal}"))
}

fn eval_plain_date(rec: &Rec) -> Verdict<String> {
    let cal = match cal_of(rec) {
        Ok(c) => c,
        Err(v) => return v,
    };
    let (y, m, d) = rec.date.unwrap();
    if !date_in_limits(y, m, d) {
        return Verdict::Reject;
    }
    Verdict::Accept(format!("{} {cal}", date_text(y, m, d)))
}

/// What the grammar says about `s` for `goal`: accept with a canonical rendering of the value, reject, or unjudged.
pub fn model(goal: Goal, s: &str) -> Verdict<String> {
    let b = s.as_bytes();
    let one = |recs: Vec<Rec>| r8p::unique(recs);
    match goal {
        Goal::Date | Goal::DateTime => {
            let rec = match one(r8p::annotated_date_time(b, false, false)) {
                Verdict::Accept(r) => r,
                Verdict::Reject => return Verdict::Reject,
                Verdict::Unjudged(w) => return Verdict::Unjudged(w),
            };
            if goal == Goal::Date {
                return eval_plain_date(&rec);
            }
            let cal = match cal_of(&rec) {
                Ok(c) => c,
                Err(v) => return v,
            };
            let (y, m, d) = rec.date.unwrap();
            let tod = rec.time.map(|t| t.ns_of_day()).unwrap_or(0);
            if !crate::conv::dt_in_limits(days_from_civil(y, m, d), tod) {
                return Verdict::Reject;
            }
            Verdict::Accept(format!("{}T{} {cal}", date_text(y, m, d), time_text(tod, Prec::Auto)))
        }
        Goal::Time => match one(r8p::time_string(b)) {
            Verdict::Accept(rec) => {
                if r8p::annotation_rules(&rec.anns).is_err() {
                    return Verdict::Reject;
                }
                Verdict::Accept(rec.time.unwrap().ns_of_day().to_string())
            }
            Verdict::Reject => Verdict::Reject,
            Verdict::Unjudged(w) => Verdict::Unjudged(w),
        },
        Goal::YearMonth => match one(r8p::year_month_string(b)) {
            Verdict::Accept(rec) => {
                let cal = match r8p::annotation_rules(&rec.anns) {
                    Err(()) => return Verdict::Reject,
                    Ok(c) => c.unwrap_or_else(|| "iso8601".into()),
                };
                if cal != "iso8601" {
                    if rec.ym.is_some() || !known_calendar(&cal) {
                        return Verdict::Reject;
                    }
                    return Verdict::Unjudged("full date string with a non-ISO calendar as a year-month");
                }
                let (y, m) = rec.ym.unwrap_or_else(|| {
                    let (y, m, _) = rec.date.unwrap();
                    (y, m)
                });
                let ok = (y > -271_821 || (y == -271_821 && m >= 4)) && (y < 275_760 || (y == 275_760 && m <= 9));
                if !ok {
                    return Verdict::Reject;
                }
                // (the reference day of an ISO year-month is the first of the month, whatever day the string names)
                Verdict::Accept(format!("{y} {m} full={}", tmc_ref::r8f::date_text(y, m, 1)))
            }
            Verdict::Reject => Verdict::Reject,
            Verdict::Unjudged(w) => Verdict::Unjudged(w),
        },
        Goal::MonthDay => match one(r8p::month_day_string(b)) {
            Verdict::Accept(rec) => {
                let cal = match r8p::annotation_rules(&rec.anns) {
                    Err(()) => return Verdict::Reject,
                    Ok(c) => c.unwrap_or_else(|| "iso8601".into()),
                };
                if cal != "iso8601" {
                    if rec.md.is_some() || !known_calendar(&cal) {
                        return Verdict::Reject;
                    }
                    return Verdict::Unjudged("full date string with a non-ISO calendar as a month-day");
                }
                let (m, d) = rec.md.unwrap_or_else(|| {
                    let (_, m, d) = rec.date.unwrap();
                    (m, d)
                });
                if let Some((y, mm, dd)) = rec.date {
                    if !date_in_limits(y, mm, dd) {
                        return Verdict::Unjudged("month-day from a date outside the date limits");
                    }
                }
                // (the reference year of an ISO month-day is 1972, whatever year the string names)
                Verdict::Accept(format!("{m} {d} full={}", tmc_ref::r8f::date_text(1972, m, d)))
            }
            Verdict::Reject => Verdict::Reject,
            Verdict::Unjudged(w) => Verdict::Unjudged(w),
        },
        Goal::Instant => match one(r8p::instant_string(b)) {
            Verdict::Accept(rec) => {
                if r8p::annotation_rules(&rec.anns).is_err() {
                    return Verdict::Reject;
                }
                let (y, m, d) = rec.date.unwrap();
                let local = days_from_civil(y, m, d) as i128 * NS_PER_DAY + rec.time.unwrap().ns_of_day();
                let off = match rec.offset.unwrap() {
                    Off::Z => 0,
                    Off::Num { ns, .. } => ns as i128,
                };
                let t = local - off;
                if t.abs() > MAX_INSTANT_NS {
                    return Verdict::Reject;
                }
                Verdict::Accept(t.to_string())
            }
            Verdict::Reject => Verdict::Reject,
            Verdict::Unjudged(w) => Verdict::Unjudged(w),
        },
        Goal::Zoned => match one(r8p::zoned_string(b)) {
            Verdict::Accept(rec) => eval_zoned(&rec),
            Verdict::Reject => Verdict::Reject,
            Verdict::Unjudged(w) => Verdict::Unjudged(w),
        },
        Goal::RelativeTo => match one(r8p::zoned_string(b)) {
            Verdict::Accept(rec) => eval_zoned(&rec),
            Verdict::Unjudged(w) => Verdict::Unjudged(w),
            Verdict::Reject => match one(r8p::annotated_date_time(b, false, false)) {
                Verdict::Accept(rec) => match eval_plain_date(&rec) {
                    Verdict::Accept(v) => Verdict::Accept(format!("plain {v}")),
                    o => o,
                },
                Verdict::Reject => Verdict::Reject,
                Verdict::Unjudged(w) => Verdict::Unjudged(w),
            },
        },
        Goal::Duration => match r8p::duration_string(b) {
            None => Verdict::Reject,
            Some(d) => match r8p::duration_fields(&d) {
                None => Verdict::Unjudged("integer with more than 15 digits"),
                Some(f) => {
                    let ff = f.map(|x| x as f64);
                    if tmc_ref::r5::is_valid(&ff) {
                        Verdict::Accept(format!("{f:?}"))
                    } else {
                        Verdict::Reject
                    }
                }
            },
        },
        Goal::Offset => {
            let whole = |sub: bool| r8p::utc_offset(b, 0, sub).into_iter().find(|(e, _)| *e == b.len()).map(|x| x.1);
            match whole(false) {
                Some(Off::Num { ns, .. }) => Verdict::Accept((ns / 60_000_000_000).to_string()),
                _ => match whole(true) {
                    Some(_) => Verdict::Unjudged("offset with a seconds element given to the minute-precision offset type"),
                    None => Verdict::Reject,
                },
            }
        }
        Goal::TzId => {
            if s == "Z" {
                return Verdict::Unjudged("'Z' shorthand accepted by this entry point");
            }
            match r8p::tz_identifier(b) {
                Some(Tz::Offset(m)) => Verdict::Accept(offset_text_minutes(m)),
                Some(Tz::Name(n)) => Verdict::Accept(n),
                None => Verdict::Reject,
            }
        }
        Goal::TzStr => {
            if s == "Z" {
                return Verdict::Unjudged("'Z' shorthand accepted by this entry point");
            }
            match r8p::tz_identifier(b) {
                Some(Tz::Offset(m)) => return Verdict::Accept(offset_text_minutes(m)),
                Some(Tz::Name(n)) => return Verdict::Accept(n),
                None => {}
            }
            let mut zs = zone_parts(b);
            if zs.is_empty() {
                return Verdict::Reject;
            }
            if zs.len() > 1 {
                return Verdict::Unjudged("string derivable for several goals with different zone parts");
            }
            let (off, tz, anns_ok) = zs.pop().unwrap();
            if !anns_ok {
                return Verdict::Reject;
            }
            match (tz, off) {
                (Some(Tz::Offset(m)), _) => Verdict::Accept(offset_text_minutes(m)),
                (Some(Tz::Name(n)), _) => Verdict::Accept(n),
                (None, Some(Off::Z)) => Verdict::Accept("UTC".into()),
                (None, Some(Off::Num { ns, has_seconds, .. })) => {
                    if has_seconds {
                        Verdict::Reject
                    } else {
                        Verdict::Accept(offset_text_minutes((ns / 60_000_000_000) as i32))
                    }
                }
                (None, None) => Verdict::Reject,
            }
        }
        Goal::Calendar => {
            let lower = s.to_ascii_lowercase();
            if known_calendar(&lower) {
                return Verdict::Accept(lower);
            }
            let mut recs = r8p::annotated_date_time(b, true, false);
            recs.retain(|r| r.offset != Some(Off::Z) || r.time.is_some());
            recs.extend(r8p::time_string(b));
            recs.extend(r8p::year_month_string(b));
            recs.extend(r8p::month_day_string(b));
            let mut cs: Vec<Result<Option<String>, ()>> = recs.iter().map(|r| r8p::annotation_rules(&r.anns)).collect();
            cs.sort();
            cs.dedup();
            match cs.len() {
                0 => Verdict::Reject,
                1 => match cs.pop().unwrap() {
                    Err(()) => Verdict::Reject,
                    Ok(None) => Verdict::Accept("iso8601".into()),
                    Ok(Some(c)) if known_calendar(&c) => Verdict::Accept(c),
                    Ok(Some(_)) => Verdict::Reject,
                },
                _ => Verdict::Unjudged("string derivable for several goals with different annotations"),
            }
        }
        Goal::MonthCode => match r8p::month_code(b) {
            Verdict::Accept((n, leap)) => Verdict::Accept(format!("{n} {leap}")),
            Verdict::Reject => Verdict::Reject,
            Verdict::Unjudged(w) => Verdict::Unjudged(w),
        },
    }
}

/// The zone-relevant parts (offset, zone annotation, annotation rules satisfied) of every reading
/// of a string as a date-time / instant / time / year-month / month-day string.
fn zone_parts(b: &[u8]) -> Vec<(Option<Off>, Option<Tz>, bool)> {
    let mut recs = r8p::annotated_date_time(b, true, false);
    recs.retain(|r| r.offset != Some(Off::Z) || r.time.is_some());
    recs.extend(r8p::time_string(b));
    recs.extend(r8p::year_month_string(b));
    recs.extend(r8p::month_day_string(b));
    let mut zs: Vec<(Option<Off>, Option<Tz>, bool)> = recs.iter().map(|r| (r.offset, r.tz.as_ref().map(|t| t.1.clone()), r8p::annotation_rules(&r.anns).is_ok())).collect();
    zs.sort_by_key(|z| format!("{z:?}"));
    zs.dedup();
    zs
}

/// Is `s` a time zone string only up to a written-out zero seconds element of its offset
/// (`...+01:00:00`)? The lexer's record cannot tell that from `+01:00`.
pub fn zero_seconds_offset(s: &str) -> bool {
    let zs = zone_parts(s.as_bytes());
    matches!(zs.as_slice(), [(Some(Off::Num { ns, has_seconds: true, long_frac: false, .. }), None, true)] if ns % 60_000_000_000 == 0)
}

fn tz_text(tz: &TimeZone) -> String {
    tz.identifier().unwrap_or_else(|e| format!("<{e:?}>"))
}

fn zoned_text(z: &ZonedDateTime) -> String {
    let id = tz_text(z.timezone());
    let id = if id.eq_ignore_ascii_case("utc") { "utc".to_string() } else { id };
    format!("zoned {} {} {}", z.epoch_nanoseconds().as_i128(), id, z.calendar().identifier())
}

/// The implementation's answer for `goal` on `s`, rendered like the model's value.
pub fn implementation(goal: Goal, s: &str) -> Oc<String> {
    match goal {
        Goal::Date => call(|| PlainDate::from_str(s).map(|d| format!("{} {}", d.to_ixdtf_string(DisplayCalendar::Never), d.calendar().identifier()))),
        Goal::DateTime => call(|| {
            let d = PlainDateTime::from_str(s)?;
            Ok(format!("{} {}", d.to_ixdtf_string(ToStringRoundingOptions::default(), DisplayCalendar::Never)?, d.calendar().identifier()))
        }),
        Goal::Time => call(|| PlainTime::from_str(s).map(|t| crate::conv::time_ns(&t).to_string())),
        Goal::YearMonth => call(|| PlainYearMonth::from_str(s).map(|v| format!("{} {} full={}", v.iso_year(), v.iso_month(), full_date_of(&v.to_ixdtf_string(temporal_rs::options::DisplayCalendar::Always))))),
        Goal::MonthDay => call(|| PlainMonthDay::from_str(s).map(|v| format!("{} {} full={}", v.iso_month(), v.iso_day(), full_date_of(&v.to_ixdtf_string(temporal_rs::options::DisplayCalendar::Always))))),
        Goal::Instant => call(|| Instant::from_str(s).map(|v| v.epoch_nanoseconds().as_i128().to_string())),
        Goal::Zoned => call(|| ZonedDateTime::from_str_with_provider(s, Disambiguation::Compatible, OffsetDisambiguation::Reject, &UtcProvider).map(|z| zoned_text(&z))),
        Goal::RelativeTo => call(|| {
            RelativeTo::try_from_str_with_provider(s, &UtcProvider).map(|r| match r {
                RelativeTo::PlainDate(d) => format!("plain {} {}", d.to_ixdtf_string(DisplayCalendar::Never), d.calendar().identifier()),
                RelativeTo::ZonedDateTime(z) => zoned_text(&z),
            })
        }),
        Goal::Duration => call(|| Duration::from_str(s).map(|d| format!("{:?}", crate::conv::dur_i128(&d)))),
        Goal::Offset => call(|| UtcOffset::from_str(s).map(|o| (o.to_string().map(|t| offset_minutes(&t))).unwrap_or_else(|e| format!("<{e:?}>")))),
        Goal::TzId => call(|| TimeZone::try_from_identifier_str(s).map(|t| tz_text(&t))),
        Goal::TzStr => call(|| TimeZone::try_from_str(s).map(|t| tz_text(&t))),
        Goal::Calendar => call(|| Calendar::from_str(s).map(|c| c.identifier().to_string())),
        Goal::MonthCode => call(|| MonthCode::from_str(s).map(|c| format!("{} {}", c.to_month_integer(), c.is_leap_month()))),
    }
}

fn offset_minutes(text: &str) -> String {
    // "+HH:MM" -> signed minutes
    let b = text.as_bytes();
    if b.len() == 6 {
        let h = (b[1] - b'0') as i32 * 10 + (b[2] - b'0') as i32;
        let m = (b[4] - b'0') as i32 * 10 + (b[5] - b'0') as i32;
        let v = h * 60 + m;
        return if b[0] == b'-' { -v } else { v }.to_string();
    }
    format!("<{text}>")
}

// ---------------------------------------------------------------------------------------------
// Attribution of a mismatch to the external lexer (the `ixdtf` crate, not part of the repository):
// the same string is given to the real ixdtf entry point and to the raw grammar production (no
// type-specific rule on either side, fractions of any length admitted on both); if the two lexers
// disagree about the string, temporal_rs was handed a record the grammar does not assign to it.

#[derive(Clone, Copy, Debug, PartialEq, Eq)]
pub enum Raw {
    DateTime,
    Time,
    YearMonth,
    MonthDay,
    Duration,
}

fn raw_variants(g: Goal) -> &'static [Raw] {
    match g {
        Goal::Date | Goal::DateTime | Goal::Instant | Goal::Zoned | Goal::RelativeTo => &[Raw::DateTime],
        Goal::Time => &[Raw::Time, Raw::DateTime],
        Goal::YearMonth => &[Raw::YearMonth, Raw::DateTime],
        Goal::MonthDay => &[Raw::MonthDay, Raw::DateTime],
        Goal::TzStr | Goal::Calendar => &[Raw::DateTime, Raw::Time, Raw::YearMonth, Raw::MonthDay],
        Goal::Duration => &[Raw::Duration],
        Goal::Offset | Goal::TzId | Goal::MonthCode => &[],
    }
}

fn rec_text(mut r: Rec) -> String {
    if let Some(Off::Num { ns, long_frac, .. }) = r.offset {
        r.offset = Some(Off::Num { ns, long_frac, has_seconds: false, negative: false });
    }
    format!("{r:?}")
}

pub fn raw_grammar(v: Raw, s: &str) -> Option<String> {
    let b = s.as_bytes();
    r8p::with_max_fraction(18, || match v {
        Raw::DateTime => match r8p::unique(r8p::annotated_date_time(b, true, false)) {
            Verdict::Accept(r) => Some(rec_text(r)),
            _ => None,
        },
        Raw::Time => match r8p::unique(r8p::annotated_time(b, true)) {
            Verdict::Accept(r) => Some(rec_text(r)),
            _ => None,
        },
        Raw::YearMonth => match r8p::unique(r8p::annotated_year_month(b)) {
            Verdict::Accept(r) => Some(rec_text(r)),
            _ => None,
        },
        Raw::MonthDay => match r8p::unique(r8p::annotated_month_day(b)) {
            Verdict::Accept(r) => Some(rec_text(r)),
            _ => None,
        },
        Raw::Duration => r8p::duration_string(b).map(|d| {
            let v: Vec<u128> = d.ints.iter().map(|x| x.as_ref().map(|t| t.parse::<u128>().unwrap_or(u128::MAX)).unwrap_or(0)).collect();
            let frac = d.frac.iter().enumerate().find_map(|(k, f)| f.as_ref().map(|f| format!("{k}:{}", if f.len() > 9 { "long".to_string() } else { format!("{:0<9}", f) })));
            format!("{} {v:?} {frac:?}", d.negative)
        }),
    })
}

pub fn raw_ixdtf(v: Raw, s: &str) -> Option<String> {
    use ixdtf::parsers::records::{Annotation, Fraction, IxdtfParseRecord, TimeDurationRecord, TimeZoneRecord, UtcOffsetRecord, UtcOffsetRecordOrZ};
    use ixdtf::parsers::{IsoDurationParser, IxdtfParser};
    let frac = |f: Option<Fraction>| -> (u32, bool) {
        match f {
            None => (0, false),
            Some(f) => match f.to_nanoseconds() {
                Some(ns) => (ns, false),
                None => ((f.to_truncated_nanoseconds()), true),
            },
        }
    };
    if v == Raw::Duration {
        let rec = std::panic::catch_unwind(|| IsoDurationParser::from_str(s).parse()).ok()?.ok()?;
        let (y, mo, w, d) = rec.date.map(|d| (d.years as u128, d.months as u128, d.weeks as u128, d.days as u128)).unwrap_or((0, 0, 0, 0));
        let (h, mi, sec, fr) = match rec.time {
            None => (0, 0, 0, None),
            Some(TimeDurationRecord::Hours { hours, fraction }) => (hours as u128, 0, 0, fraction.map(|f| (0, f))),
            Some(TimeDurationRecord::Minutes { hours, minutes, fraction }) => (hours as u128, minutes as u128, 0, fraction.map(|f| (1, f))),
            Some(TimeDurationRecord::Seconds { hours, minutes, seconds, fraction }) => (hours as u128, minutes as u128, seconds as u128, fraction.map(|f| (2, f))),
        };
        let fr = fr.map(|(k, f)| format!("{k}:{}", match f.to_nanoseconds() {
            Some(ns) => format!("{ns:09}"),
            None => "long".to_string(),
        }));
        return Some(format!("{} {:?} {fr:?}", rec.sign as i8 == -1, vec![y, mo, w, d, h, mi, sec]));
    }
    let anns = std::cell::RefCell::new(Vec::new());
    let handler = |a: Annotation<'_>| {
        anns.borrow_mut().push(r8p::Ann { critical: a.critical, key: String::from_utf8_lossy(a.key).into_owned(), value: String::from_utf8_lossy(a.value).into_owned() });
        None
    };
    let rec: IxdtfParseRecord = std::panic::catch_unwind(std::panic::AssertUnwindSafe(|| {
        let mut p = IxdtfParser::from_str(s);
        match v {
            Raw::DateTime => p.parse_with_annotation_handler(handler),
            Raw::Time => p.parse_time_with_annotation_handler(handler),
            Raw::YearMonth => p.parse_year_month_with_annotation_handler(handler),
            Raw::MonthDay => p.parse_month_day_with_annotation_handler(handler),
            Raw::Duration => unreachable!(),
        }
    }))
    .ok()?
    .ok()?;
    let off = |o: UtcOffsetRecord| -> (i64, bool) {
        let (f, long) = frac(o.fraction);
        let total = (o.hour as i64 * 3600 + o.minute as i64 * 60 + o.second as i64) * 1_000_000_000 + f as i64;
        (if o.sign as i8 == -1 { -total } else { total }, long)
    };
    let mut r = Rec::default();
    match (v, rec.date) {
        (Raw::YearMonth, Some(d)) => r.ym = Some((d.year as i64, d.month)),
        (Raw::MonthDay, Some(d)) => r.md = Some((d.month, d.day)),
        (_, Some(d)) => r.date = Some((d.year as i64, d.month, d.day)),
        (_, None) => {}
    }
    if let Some(t) = rec.time {
        let (f, long) = frac(t.fraction);
        r.time = Some(r8p::Time { h: t.hour, mi: t.minute, s: t.second, frac_ns: f, long_frac: long });
    }
    r.offset = rec.offset.map(|o| match o {
        UtcOffsetRecordOrZ::Z => Off::Z,
        UtcOffsetRecordOrZ::Offset(o) => {
            let (ns, long_frac) = off(o);
            Off::Num { ns, has_seconds: false, negative: false, long_frac }
        }
    });
    r.tz = match rec.tz {
        None => None,
        Some(a) => Some((
            a.critical,
            match a.tz {
                TimeZoneRecord::Name(n) => Tz::Name(String::from_utf8_lossy(n).into_owned()),
                TimeZoneRecord::Offset(o) => Tz::Offset((off(o).0 / 60_000_000_000) as i32),
                _ => Tz::Name("<unknown record>".into()),
            },
        )),
    };
    r.anns = anns.into_inner();
    Some(rec_text(r))
}

/// Which raw lexer entry points used for `g` disagree with the grammar about `s`, and a lexical
/// label for the kind of disagreement.
pub fn external_deviation(g: Goal, s: &str) -> Option<String> {
    let dev: Vec<Raw> = raw_variants(g).iter().copied().filter(|v| raw_grammar(*v, s) != raw_ixdtf(*v, s)).collect();
    if dev.is_empty() {
        return None;
    }
    if s.contains('\u{2212}') {
        return Some("unicode_minus".into());
    }
    if let Some(cut) = s.find('[') {
        let head = &s[..cut];
        if raw_variants(g).iter().all(|v| raw_grammar(*v, head) == raw_ixdtf(*v, head)) {
            return Some("annotation".into());
        }
    }
    if dev.contains(&Raw::Time) && raw_ixdtf(Raw::Time, s).is_some() && raw_grammar(Raw::Time, s).is_none() && raw_grammar(Raw::Time, &format!("T{s}")).is_some() {
        return Some("time_ambiguity".into());
    }
    Some(
        if dev.contains(&Raw::Duration) {
            "duration_designators"
        } else if dev.contains(&Raw::DateTime) || dev.contains(&Raw::Time) {
            "offset_or_time_lexing"
        } else if dev.contains(&Raw::MonthDay) {
            "month_day_short_form"
        } else {
            "year_month_short_form"
        }
        .into(),
    )
}

pub fn judge(out: &mut Out, s: &str, goals: &[Goal]) {
    for g in goals {
        let m = model(*g, s);
        let got = implementation(*g, s);
        let attrs = || {
            let dev = external_deviation(*g, s);
            vec![("goal", format!("{g:?}")), ("string", s.to_string()), ("model", format!("{m:?}")), ("external_lexer_deviates", dev.is_some().to_string()), ("deviation", dev.unwrap_or_else(|| "none".into())), ("zero_seconds_offset", (*g == Goal::TzStr && zero_seconds_offset(s)).to_string())]
        };
        match &m {
            Verdict::Unjudged(_) => {
                out.unjudged += 1;
                if got.is_panic() {
                    out.lockstep("parse", &Ok::<String, ErrorKind>(String::new()), &got, |_, _| true, attrs);
                }
            }
            Verdict::Accept(v) => {
                out.nontrivial += 1;
                out.lockstep("parse", &Ok(v.clone()), &got, |a, b| a == b, attrs);
            }
            Verdict::Reject => {
                out.lockstep("parse", &Err::<String, _>(ErrorKind::Range), &got, |a, b| a == b, attrs);
            }
        }
    }
}

// ---------------------------------------------------------------------------------------------
// Space 1: every string up to a length over a 16-symbol alphabet

const ALPHA16: &[u8; 16] = b"0129-+:.TZPDM[]=";

struct ShortStrings {
    max_len: u32,
}
impl ShortStrings {
    fn string(&self, mut i: u64) -> String {
        let mut len = 0u32;
        loop {
            let n = 16u64.pow(len);
            if i < n {
                break;
            }
            i -= n;
            len += 1;
        }
        let mut v = vec![0u8; len as usize];
        for k in (0..len as usize).rev() {
            v[k] = ALPHA16[(i % 16) as usize];
            i /= 16;
        }
        String::from_utf8(v).unwrap()
    }
}
impl Space for ShortStrings {
    fn name(&self) -> String {
        format!("c12.all_strings_le{}", self.max_len)
    }
    fn len(&self) -> u64 {
        (0..=self.max_len).map(|l| 16u64.pow(l)).sum()
    }
    fn block(&self) -> u64 {
        4096
    }
    fn eval(&self, i: u64, out: &mut Out) {
        let s = self.string(i);
        judge(out, &s, &GOALS);
        if out.want_sample() && s == "1230" {
            out.sample(json!({"string": s, "Time": format!("{:?}", model(Goal::Time, &s)), "MonthDay": format!("{:?}", model(Goal::MonthDay, &s))}));
        }
    }
    fn describe(&self) -> serde_json::Value {
        json!({"alphabet": String::from_utf8_lossy(ALPHA16), "max_length": self.max_len, "goals": GOALS.len()})
    }
}

// ---------------------------------------------------------------------------------------------
// Space 2: grammar-generated product

const YEARS: [&str; 9] = ["2020", "0000", "9999", "+002020", "-002020", "+000000", "-000000", "-271821", "+275760"];
const MONTHS: [&str; 5] = ["01", "02", "12", "00", "13"];
const DAYS: [&str; 7] = ["01", "28", "29", "30", "31", "00", "32"];
const DATE_FORMS: [(&str, &str); 4] = [("-", "-"), ("", ""), ("-", ""), ("", "-")];
const TIMES: [&str; 20] = [
    "", "T00", "T23:59", "T2359", "T23:59:60", "T235960", "T24:00", "T23:60", "T23:59:61", "T12:30:45.1", "T12:30:45,123456789", "T12:30:45.1234567890", "T12:30:45.", "t12:30", " 12:30", "T12:3045", "T1230:45", "12:30", "T12:30:45.000000000", "T00:00:00",
];
const OFFSETS: [&str; 13] = ["", "Z", "z", "+00:00", "-00:00", "+0530", "+05", "-12:34:56", "+01:00:00.5", "+24:00", "+05:3", "+05:30", "+01:00:00"];
const ZONES: [&str; 8] = ["", "[UTC]", "[!UTC]", "[+05:30]", "[+05:30:00]", "[America/New_York]", "[]", "[utc]"];
const CALS: [&str; 25] = [
    "",
    "[u-ca=iso8601]",
    "[u-ca=ISO8601]",
    "[u-ca=gregory]",
    "[!u-ca=iso8601]",
    "[!u-ca=gregory]",
    "[u-ca=unknowncal]",
    "[!u-ca=unknowncal]",
    "[u-ca=iso8601][u-ca=unknowncal]",
    // every pair of calendar annotations over two values x critical flags
    "[u-ca=iso8601][u-ca=iso8601]",
    "[u-ca=iso8601][u-ca=gregory]",
    "[u-ca=gregory][u-ca=iso8601]",
    "[u-ca=gregory][u-ca=gregory]",
    "[!u-ca=iso8601][u-ca=iso8601]",
    "[!u-ca=iso8601][u-ca=gregory]",
    "[!u-ca=gregory][u-ca=iso8601]",
    "[!u-ca=gregory][u-ca=gregory]",
    "[u-ca=iso8601][!u-ca=iso8601]",
    "[u-ca=iso8601][!u-ca=gregory]",
    "[u-ca=gregory][!u-ca=iso8601]",
    "[u-ca=gregory][!u-ca=gregory]",
    "[!u-ca=iso8601][!u-ca=iso8601]",
    "[!u-ca=iso8601][!u-ca=gregory]",
    "[!u-ca=gregory][!u-ca=iso8601]",
    "[u-ca=iso8601][foo=bar][!u-ca=gregory]",
];
const OTHERS: [&str; 5] = ["", "[foo=bar]", "[!foo=bar]", "[Foo=bar]", "[_x-1=ab-cd]"];
const DATE_GOALS: [Goal; 10] = [Goal::Date, Goal::DateTime, Goal::Time, Goal::YearMonth, Goal::MonthDay, Goal::Instant, Goal::Zoned, Goal::RelativeTo, Goal::TzStr, Goal::Calendar];

struct DateProduct;
impl Space for DateProduct {
    fn name(&self) -> String {
        "c12.date_product".into()
    }
    fn len(&self) -> u64 {
        (YEARS.len() * MONTHS.len() * DAYS.len() * DATE_FORMS.len() * 6) as u64
    }
    fn block(&self) -> u64 {
        64
    }
    fn eval(&self, i: u64, out: &mut Out) {
        let ix = unrank(i, &[6, DATE_FORMS.len() as u64, DAYS.len() as u64, MONTHS.len() as u64, YEARS.len() as u64]);
        let tail = ["", "T12:30", "T12:30Z", "T12:30+00:00[UTC]", "[u-ca=gregory]", "T00:00:00.000000001-00:00"][ix[0]];
        let (s1, s2) = DATE_FORMS[ix[1]];
        let s = format!("{}{s1}{}{s2}{}{tail}", YEARS[ix[4]], MONTHS[ix[3]], DAYS[ix[2]]);
        judge(out, &s, &DATE_GOALS);
        // the short forms of the same fields
        if ix[0] == 0 {
            for short in [format!("{}{s1}{}", YEARS[ix[4]], MONTHS[ix[3]]), format!("{}{s2}{}", MONTHS[ix[3]], DAYS[ix[2]]), format!("--{}{s2}{}", MONTHS[ix[3]], DAYS[ix[2]])] {
                for ann in ["", "[u-ca=iso8601]", "[u-ca=gregory]", "[UTC]", "[!u-ca=ISO8601][foo=bar]"] {
                    judge(out, &format!("{short}{ann}"), &DATE_GOALS);
                }
            }
        }
    }
}

/// Every list of up to three calendar annotations over two calendars x critical flags (85 lists), with an
/// unrelated annotation before, between or after them, behind one base string per kind of value.
struct CalendarAnnotationLists {
    lists: Vec<String>,
}
impl CalendarAnnotationLists {
    fn new() -> Self {
        let one: Vec<String> = ["[u-ca=iso8601]", "[u-ca=gregory]", "[!u-ca=iso8601]", "[!u-ca=gregory]"].iter().map(|s| s.to_string()).collect();
        let mut lists: Vec<Vec<String>> = vec![vec![]];
        for n in 1..=3usize {
            let mut cur: Vec<Vec<String>> = vec![vec![]];
            for _ in 0..n {
                cur = cur.into_iter().flat_map(|l| one.iter().map(move |a| { let mut l2 = l.clone(); l2.push(a.clone()); l2 })).collect();
            }
            lists.extend(cur);
        }
        let mut out = vec![];
        for l in lists {
            out.push(l.concat());
            for pos in 0..=l.len() {
                for other in ["[foo=bar]", "[!foo=bar]"] {
                    let mut l2 = l.clone();
                    l2.insert(pos, other.to_string());
                    out.push(l2.concat());
                }
            }
        }
        out.sort();
        out.dedup();
        CalendarAnnotationLists { lists: out }
    }
}
const ANNOTATION_BASES: [&str; 8] = ["2020-02-29", "2020-02-29T12:30", "T12:30", "12:30", "2020-02", "02-29", "2020-02-29T12:30Z", "2020-02-29T12:30+00:00[UTC]"];
impl Space for CalendarAnnotationLists {
    fn name(&self) -> String {
        "c12.calendar_annotation_lists".into()
    }
    fn len(&self) -> u64 {
        (self.lists.len() * ANNOTATION_BASES.len()) as u64
    }
    fn block(&self) -> u64 {
        16
    }
    fn eval(&self, i: u64, out: &mut Out) {
        let ix = unrank(i, &[ANNOTATION_BASES.len() as u64, self.lists.len() as u64]);
        let s = format!("{}{}", ANNOTATION_BASES[ix[0]], self.lists[ix[1]]);
        if self.lists[ix[1]].matches("u-ca").count() >= 2 {
            out.nontrivial += 1;
        }
        judge(out, &s, &DATE_GOALS);
    }
    fn describe(&self) -> serde_json::Value {
        json!({"annotation_lists": self.lists.len(), "bases": ANNOTATION_BASES})
    }
}

/// Every calendar the library knows (and two it does not) as the annotation of every kind of string: the value
/// carries the calendar that was named.
struct CalendarNames;
const CALENDAR_NAME_BASES: [&str; 7] = ["2020-02-29", "2020-02-29T12:30", "T12:30", "2020-02-29T12:30Z", "2020-02-29T12:30+00:00[UTC]", "1972-02-29", "2024-03-10T00:00-05:00[America/New_York]"];
impl Space for CalendarNames {
    fn name(&self) -> String {
        "c12.calendar_names".into()
    }
    fn len(&self) -> u64 {
        ((crate::checks::c16::CALENDARS.len() + 2) * CALENDAR_NAME_BASES.len() * 2) as u64
    }
    fn block(&self) -> u64 {
        8
    }
    fn eval(&self, i: u64, out: &mut Out) {
        let n = crate::checks::c16::CALENDARS.len();
        let ix = unrank(i, &[CALENDAR_NAME_BASES.len() as u64, (n + 2) as u64, 2]);
        let cal = if ix[1] < n { crate::checks::c16::CALENDARS[ix[1]].0 } else { ["julian", "gregorian"][ix[1] - n] };
        let s = format!("{}[{}u-ca={}]", CALENDAR_NAME_BASES[ix[0]], if ix[2] == 1 { "!" } else { "" }, cal);
        out.nontrivial += 1;
        judge(out, &s, &DATE_GOALS);
        if ix[0] == 0 && ix[2] == 0 {
            // the bare name and the annotated date as a calendar
            judge(out, cal, &[Goal::Calendar]);
        }
    }
    fn describe(&self) -> serde_json::Value {
        json!({"calendars": crate::checks::c16::CALENDARS.len() + 2, "bases": CALENDAR_NAME_BASES, "critical_flag": 2})
    }
}

/// Zoned strings under all four offset options: offsets with seconds and fractions of a second, both signs,
/// against fixed-offset zone annotations (the value is the wall-clock time minus the offset under `use`,
/// the zone's own reading under `ignore`, a match or a RangeError under `reject`, a match or the zone under `prefer`).
struct ZonedOffsetOptions;
const ZO_OFFSETS: [(&str, i128); 14] = [
    ("+00:00", 0),
    ("-00:00", 0),
    ("+00:00:01.5", 1_500_000_000),
    ("-00:00:01.5", -1_500_000_000),
    ("-00:00:00.000000001", -1),
    ("+00:00:00.000000001", 1),
    ("-01:30", -5_400_000_000_000),
    ("-01:30:15.123456789", -5_415_123_456_789),
    ("+05:30", 19_800_000_000_000),
    ("+05:30:00.5", 19_800_500_000_000),
    ("-23:59:59.999999999", -86_399_999_999_999),
    ("+23:59:59.999999999", 86_399_999_999_999),
    ("-00:30", -1_800_000_000_000),
    ("+00:30:30", 1_830_000_000_000),
];
const ZO_ZONES: [(&str, i128); 5] = [("+00:00", 0), ("-01:30", -5_400_000_000_000), ("+05:30", 19_800_000_000_000), ("-00:30", -1_800_000_000_000), ("+23:59", 86_340_000_000_000)];
impl Space for ZonedOffsetOptions {
    fn name(&self) -> String {
        "c12.zoned_offset_options".into()
    }
    fn len(&self) -> u64 {
        (ZO_OFFSETS.len() * ZO_ZONES.len() * 3) as u64
    }
    fn eval(&self, i: u64, out: &mut Out) {
        use temporal_rs::options::{Disambiguation, OffsetDisambiguation};
        use tmc_ref::r6::{Disamb, OffsetInput, OffsetOpt, Zone};
        let ix = unrank(i, &[3, ZO_ZONES.len() as u64, ZO_OFFSETS.len() as u64]);
        let (otext, ons) = ZO_OFFSETS[ix[2]];
        let (ztext, zns) = ZO_ZONES[ix[1]];
        let (date, local) = [("1970-01-01T00:00:00", 0i128), ("2020-02-29T23:59:59.999999999", 1_583_020_799_999_999_999), ("1969-12-31T12:00:00.000000001", -43_199_999_999_999)][ix[0]];
        out.nontrivial += 1;
        let text = format!("{date}{otext}[{ztext}]");
        let zone = Zone { initial: (zns / 1_000_000_000) as i64, trans: vec![] };
        let minute_precision = otext.len() == 6;
        for (oname, opt, iopt) in [("use", OffsetOpt::Use, OffsetDisambiguation::Use), ("ignore", OffsetOpt::Ignore, OffsetDisambiguation::Ignore), ("reject", OffsetOpt::Reject, OffsetDisambiguation::Reject), ("prefer", OffsetOpt::Prefer, OffsetDisambiguation::Prefer)] {
            let model = zone.interpret(local, OffsetInput::Offset { ns: ons, minute_precision }, Disamb::Compatible, opt).map_err(|_| ErrorKind::Range);
            let got = call(|| ZonedDateTime::from_str_with_provider(&text, Disambiguation::Compatible, iopt, &crate::providers::ErrProvider));
            out.lockstep("ZonedDateTime::from_str (offset option)", &model, &got, |a, b| b.epoch_nanoseconds().as_i128() == *a, || vec![("string", text.clone()), ("offset_option", oname.to_string()), ("offset_sign", if otext.starts_with('-') { "negative" } else { "positive" }.to_string()), ("offset_has_fraction", otext.contains('.').to_string())]);
        }
        // the same string as a relativeTo value: the written offset has to match (reject), to the minute when it is
        // written to the minute
        let model = zone.interpret(local, OffsetInput::Offset { ns: ons, minute_precision }, Disamb::Compatible, OffsetOpt::Reject).map_err(|_| ErrorKind::Range);
        let got = call(|| temporal_rs::options::RelativeTo::try_from_str_with_provider(&text, &crate::providers::ErrProvider));
        out.lockstep("RelativeTo::try_from_str (written offset must match)", &model, &got, |a, b| matches!(b, temporal_rs::options::RelativeTo::ZonedDateTime(z) if z.epoch_nanoseconds().as_i128() == *a), || vec![("string", text.clone()), ("offset_sign", if otext.starts_with('-') { "negative" } else { "positive" }.to_string()), ("offset_has_fraction", otext.contains('.').to_string())]);
    }
}

struct TailProduct {
    dates: Vec<&'static str>,
}
impl Space for TailProduct {
    fn name(&self) -> String {
        "c12.tail_product".into()
    }
    fn len(&self) -> u64 {
        (self.dates.len() * TIMES.len() * OFFSETS.len() * ZONES.len() * CALS.len() * OTHERS.len()) as u64
    }
    fn block(&self) -> u64 {
        256
    }
    fn eval(&self, i: u64, out: &mut Out) {
        let ix = unrank(i, &[OTHERS.len() as u64, CALS.len() as u64, ZONES.len() as u64, OFFSETS.len() as u64, TIMES.len() as u64, self.dates.len() as u64]);
        let date = self.dates[ix[5]];
        let mut time = TIMES[ix[4]].to_string();
        if date.is_empty() {
            // a bare time: drop the separator (kept for a third of the cases as the 'T' designator)
            if time.starts_with(' ') || (ix[3] % 3 != 0 && (time.starts_with('T') || time.starts_with('t'))) {
                time.remove(0);
            }
        }
        // annotation order variants: other annotation before / after the calendar
        let s = format!("{date}{time}{}{}{}{}", OFFSETS[ix[3]], ZONES[ix[2]], CALS[ix[1]], OTHERS[ix[0]]);
        judge(out, &s, &DATE_GOALS);
        if ix[0] != 0 && ix[1] != 0 {
            let s = format!("{date}{time}{}{}{}{}", OFFSETS[ix[3]], ZONES[ix[2]], OTHERS[ix[0]], CALS[ix[1]]);
            judge(out, &s, &DATE_GOALS);
            let s = format!("{date}{time}{}{}{}{}", OFFSETS[ix[3]], CALS[ix[1]], ZONES[ix[2]], OTHERS[ix[0]]);
            judge(out, &s, &DATE_GOALS);
        }
        if out.want_sample() && ix == [0, 1, 1, 1, 2, 0] {
            out.sample(json!({"string": s, "Instant": format!("{:?}", model(Goal::Instant, &s)), "Date": format!("{:?}", model(Goal::Date, &s))}));
        }
    }
    fn describe(&self) -> serde_json::Value {
        json!({"dates": self.dates, "times": TIMES, "offsets": OFFSETS, "zone_annotations": ZONES, "calendar_annotations": CALS, "other_annotations": OTHERS})
    }
}

// ---------------------------------------------------------------------------------------------
// Space 3: durations

struct DurationProduct {
    values: Vec<&'static str>,
}
const DUR_FRACTIONS: [&str; 6] = ["", ".5", ",5", ".123456789", ".1234567891", "."];
impl Space for DurationProduct {
    fn name(&self) -> String {
        "c12.duration_product".into()
    }
    fn len(&self) -> u64 {
        (self.values.len() as u64).pow(7) * 3 * 2
    }
    fn block(&self) -> u64 {
        512
    }
    fn eval(&self, i: u64, out: &mut Out) {
        let n = self.values.len() as u64;
        let ix = unrank(i, &[2, 3, n, n, n, n, n, n, n]);
        let sign = ["", "+", "-"][ix[1]];
        let lower = ix[0] == 1;
        let des = ['Y', 'M', 'W', 'D', 'H', 'M', 'S'];
        let build = |frac_on: Option<(usize, &str)>, t_always: bool| {
            let mut s = format!("{sign}{}", if lower { 'p' } else { 'P' });
            let mut wrote_t = false;
            for k in 0..7 {
                let v = self.values[ix[2 + k]];
                if k == 4 && t_always {
                    s.push(if lower { 't' } else { 'T' });
                    wrote_t = true;
                }
                if v.is_empty() {
                    continue;
                }
                if k >= 4 && !wrote_t {
                    s.push(if lower { 't' } else { 'T' });
                    wrote_t = true;
                }
                s.push_str(v);
                if let Some((at, f)) = frac_on {
                    if at == k {
                        s.push_str(f);
                    }
                }
                s.push(if lower { des[k].to_ascii_lowercase() } else { des[k] });
            }
            s
        };
        judge(out, &build(None, false), &[Goal::Duration]);
        if ix[6..9].iter().all(|k| self.values[*k].is_empty()) {
            judge(out, &build(None, true), &[Goal::Duration]); // dangling T
        }
        for k in 0..7 {
            if self.values[ix[2 + k]].is_empty() {
                continue;
            }
            for f in &DUR_FRACTIONS[1..] {
                judge(out, &build(Some((k, f)), false), &[Goal::Duration]);
            }
        }
        if out.want_sample() && i % 977 == 0 {
            out.sample(json!({"string": build(Some((4, ".5")), false)}));
        }
    }
    fn describe(&self) -> serde_json::Value {
        json!({"values_per_unit": self.values, "signs": ["", "+", "-"], "designator_case": 2, "fractions_on_each_present_unit": DUR_FRACTIONS})
    }
}

// ---------------------------------------------------------------------------------------------
// Space 4: mutation neighbourhoods of valid seeds

const SEEDS: [&str; 44] = [
    "2020-02-29",
    "20200229",
    "+002020-02-29",
    "-271821-04-19",
    "2020-02-29T12:30:45.123456789",
    "2020-02-29T12:30:45,5+05:30",
    "20200229T123045Z",
    "2020-02-29 12:30z",
    "2020-02-29T12:30:45+05:30[+05:30]",
    "2020-02-29T12:30:45+00:00[UTC][u-ca=iso8601]",
    "2020-02-29T12:30Z[UTC]",
    "2020-02-29[UTC]",
    "2020-02-29[!u-ca=gregory][foo=bar]",
    "2020-02-29T23:59:60-12:34:56.5",
    "2020-02-29T00:00[!+00:00][u-ca=hebrew]",
    "12:30:45.5",
    "T123045",
    "12:30+01:00[u-ca=iso8601]",
    "T12",
    "1232",
    "2020-02",
    "202002",
    "+002020-02[u-ca=iso8601]",
    "02-29",
    "--02-29",
    "0229",
    "--0229[u-ca=iso8601]",
    "P1Y2M3W4DT5H6M7.008009010S",
    "-PT1.5H",
    "+P1DT0,5M",
    "pt1h1m1s",
    "P4294967295Y",
    "PT9007199254740991S",
    "+05:30",
    "-0530",
    "+05",
    "-12:34:56.5",
    "UTC",
    "America/New_York",
    "Etc/GMT+5",
    "iso8601",
    "gregory",
    "M05L",
    "M13",
];
const MUT_ALPHA: [&str; 28] = ["0", "1", "5", "9", "-", "+", ":", ".", ",", "T", "t", "Z", "z", "P", "D", "M", "L", "[", "]", "=", "!", " ", "/", "u", "\u{2212}", "é", "٣", "\u{0}"];

fn edits(s: &str) -> Vec<(usize, String)> {
    // (position, edited string) for every single-character substitution, insertion and deletion
    let chars: Vec<char> = s.chars().collect();
    let mut out = vec![];
    for p in 0..=chars.len() {
        for a in MUT_ALPHA {
            let mut v: String = chars[..p].iter().collect();
            v.push_str(a);
            v.extend(chars[p..].iter());
            out.push((p, v));
            if p < chars.len() {
                let mut v: String = chars[..p].iter().collect();
                v.push_str(a);
                v.extend(chars[p + 1..].iter());
                out.push((p, v));
            }
        }
        if p < chars.len() {
            let mut v: String = chars[..p].iter().collect();
            v.extend(chars[p + 1..].iter());
            out.push((p, v));
        }
    }
    out
}

struct Mutations {
    double: bool,
}
impl Space for Mutations {
    fn name(&self) -> String {
        if self.double { "c12.mutations_double" } else { "c12.mutations_single" }.into()
    }
    fn len(&self) -> u64 {
        SEEDS.len() as u64 * if self.double { 64 } else { 1 }
    }
    fn block(&self) -> u64 {
        1
    }
    fn eval(&self, i: u64, out: &mut Out) {
        let (seed_ix, slice) = if self.double { ((i / 64) as usize, Some(i % 64)) } else { (i as usize, None) };
        let seed = SEEDS[seed_ix];
        if slice.is_none() {
            judge(out, seed, &GOALS);
        }
        let first = edits(seed);
        for (n, (p, e)) in first.iter().enumerate() {
            match slice {
                None => judge(out, e, &GOALS),
                Some(k) => {
                    if n as u64 % 64 != k {
                        continue;
                    }
                    // second edit at most 3 positions away from the first
                    for (q, e2) in edits(e) {
                        if q + 3 >= *p && q <= *p + 3 {
                            judge(out, &e2, &GOALS);
                        }
                    }
                }
            }
        }
        if out.want_sample() && slice.is_none() {
            out.sample(json!({"seed": seed, "single_edits": first.len()}));
        }
    }
    fn describe(&self) -> serde_json::Value {
        json!({"seeds": SEEDS.to_vec(), "edit_alphabet": MUT_ALPHA.to_vec(), "edits": if self.double { "all pairs of single-character substitutions/insertions/deletions at most 3 positions apart" } else { "every single-character substitution, insertion, deletion at every position" }})
    }
}

pub fn spaces(env: &Env) -> Vec<Box<dyn Space>> {
    let quick = env.tier == Tier::Quick;
    let mut v: Vec<Box<dyn Space>> = vec![
        Box::new(Mutations { double: false }),
        Box::new(DateProduct),
        Box::new(CalendarAnnotationLists::new()),
        Box::new(CalendarNames),
        Box::new(ZonedOffsetOptions),
        Box::new(TailProduct { dates: if quick { vec!["2020-02-29", ""] } else { vec!["2020-02-29", "", "20200229", "+275760-09-13", "-271821-04-20", "1972-02", "--12-31", "2021-02-29"] } }),
        Box::new(DurationProduct { values: if quick { vec!["", "1", "4294967296"] } else { vec!["", "0", "1", "4294967295", "4294967296"] } }),
        Box::new(ShortStrings { max_len: if quick { 5 } else { 6 } }),
    ];
    if !quick {
        v.push(Box::new(Mutations { double: true }));
    }
    v
}

pub fn run(env: &Env) -> i32 {
    let mut rep = Report::new(
        env,
        "exploration",
        "strings: every string up to length 4 (quick) / 6 (thorough) over 16 symbols; the product of slot alphabets of the date-time grammar (year x month x day x form; time x offset x zone annotation x calendar annotations x other annotation, in three annotation orders); the duration product (sign x case x 7 units x fraction on each unit); every single edit (thorough: every pair of edits <= 3 positions apart) of 44 valid seeds over a 28-symbol alphabet incl. non-ASCII; each string given to all 14 parsing entry points",
    );
    rep.assumptions.push("R8 recogniser (tmc-ref r8p): the Temporal grammar productions transcribed one-to-one as a non-deterministic recogniser, plus the type-specific rules named in the property; calendar identifiers = the 18 calendars of C16".into());
    for s in spaces(env) {
        rep.run(s.as_ref());
    }
    rep.finish()
}

//! C20 — the shared time-zone provider is thread-safe and survives failed calls.
//! Part 1: schedules (loom, separate binary built with feature verif_loom; results read from JSON).
//! Part 2: call histories with failing and panicking calls; each history runs in its own process
//! (the process-wide static cannot be reset), every answer is compared with the core + fresh provider.

use crate::engine::*;
use serde_json::{json, Value};
use temporal_rs::options::{Disambiguation, DisplayCalendar, DisplayOffset, DisplayTimeZone, RelativeTo, RoundingOptions, ToStringRoundingOptions, Unit};
use temporal_rs::tzdb::FsTzdbProvider;
use temporal_rs::{Calendar, Duration, Instant, PlainDateTime, TimeZone, ZonedDateTime};

pub const ACTIONS: [&str; 18] = [
    "ok: New_York getter",
    "ok: London add",
    "ok: Tokyo Instant::to_ixdtf_string",
    "ok: Duration::round relative to New_York",
    "ok: RelativeTo::try_from_str (Europe/Paris)",
    "error: unknown zone",
    "error: result out of range",
    "error: reject disambiguation in a gap",
    "PANIC while holding the provider lock (main thread)",
    "PANIC while holding the provider lock (spawned thread, joined)",
    "ok: London getter from a spawned thread",
    "PANIC while holding the provider lock while another thread is blocked on it (the waiter's call is judged)",
    "a zone named in another letter case (america/new_york getter): the answer must not depend on what is cached",
    "a zone whose data file may not be installed yet (error while it is absent, ok afterwards)",
    "install that zone's data file, then call on it: an earlier failure must not stick",
    "format a zoned value through Display while another thread holds the provider lock (and then panics): the text must come out",
    "Now::plain_datetime_iso in an explicit far zone (Pacific/Kiritimati), between two readings of the clock",
    "Now::plain_datetime_iso without a zone (the system zone), between two readings of the clock",
];

/// The zone whose data appears during a history: an absolute path under the temp dir, private to this process.
fn late_zone_path() -> std::path::PathBuf {
    std::env::temp_dir().join(format!("tmc-c20-{}", std::process::id())).join("Late_Zone")
}

fn zdt(ns: i128, zone: &str) -> ZonedDateTime {
    ZonedDateTime::try_new(ns, Calendar::default(), crate::imp::zone_of(zone).expect("zone")).unwrap()
}

/// Execute one action through the convenience API (shared = true) or through the core with a fresh provider.
fn act(a: usize, shared: bool) -> String {
    let p = FsTzdbProvider::default();
    let t = 1_636_263_000_001_002_003i128;
    let d = Duration::new(0.into(), 0.into(), 0.into(), 1.into(), 5.into(), 0.into(), 0.into(), 0.into(), 0.into(), 0.into()).unwrap();
    macro_rules! pick {
        ($w:expr, $c:expr) => {
            if shared {
                format!("{:?}", $w.map_err(|e| (e.kind(), e.message().to_string())))
            } else {
                format!("{:?}", $c.map_err(|e| (e.kind(), e.message().to_string())))
            }
        };
    }
    match a {
        0 => pick!(zdt(t, "America/New_York").hour(), zdt(t, "America/New_York").hour_with_provider(&p)),
        1 => pick!(zdt(t, "Europe/London").add(&d, None).map(|z| z.epoch_nanoseconds().as_i128()), zdt(t, "Europe/London").add_with_provider(&d, None, &p).map(|z| z.epoch_nanoseconds().as_i128())),
        2 => {
            let tz = TimeZone::try_from_str("Asia/Tokyo").unwrap();
            pick!(Instant::try_new(t).unwrap().to_ixdtf_string(Some(&tz), ToStringRoundingOptions::default()), Instant::try_new(t).unwrap().to_ixdtf_string_with_provider(Some(&tz), ToStringRoundingOptions::default(), &p))
        }
        3 => {
            let mut o = RoundingOptions::default();
            o.largest_unit = Some(Unit::Day);
            let o2 = o;
            pick!(
                d.round(o, Some(RelativeTo::ZonedDateTime(zdt(t, "America/New_York")))).map(|x| format!("{x:?}")),
                d.round_with_provider(o2, Some(RelativeTo::ZonedDateTime(zdt(t, "America/New_York"))), &p).map(|x| format!("{x:?}"))
            )
        }
        4 => pick!(RelativeTo::try_from_str("2021-06-01T12:00:00+02:00[Europe/Paris]").map(|r| format!("{r:?}")), RelativeTo::try_from_str_with_provider("2021-06-01T12:00:00+02:00[Europe/Paris]", &p).map(|r| format!("{r:?}"))),
        5 => pick!(zdt(t, "Not/AZone").hour(), zdt(t, "Not/AZone").hour_with_provider(&p)),
        6 => {
            let big = Duration::new(0.into(), 0.into(), 0.into(), 0.into(), 0.into(), 0.into(), 0.into(), 0.into(), 0.into(), temporal_rs::primitive::FiniteF64::try_from(8.0e21).unwrap()).unwrap();
            pick!(zdt(8_000_000_000_000_000_000_000, "Europe/London").add(&big, None).map(|z| z.epoch_nanoseconds().as_i128()), zdt(8_000_000_000_000_000_000_000, "Europe/London").add_with_provider(&big, None, &p).map(|z| z.epoch_nanoseconds().as_i128()))
        }
        7 => {
            let pdt = PlainDateTime::try_new(2021, 3, 14, 2, 30, 0, 0, 0, 0, Calendar::default()).unwrap();
            let tz = TimeZone::try_from_str("America/New_York").unwrap();
            pick!(pdt.to_zoned_date_time(&tz, Disambiguation::Reject).map(|z| z.epoch_nanoseconds().as_i128()), pdt.to_zoned_date_time_with_provider(&tz, Disambiguation::Reject, &p).map(|z| z.epoch_nanoseconds().as_i128()))
        }
        8 => {
            if shared {
                let r = std::panic::catch_unwind(|| temporal_rs::verif_hooks::panic_while_holding_provider_lock());
                format!("panicked={}", r.is_err())
            } else {
                "panicked=true".into()
            }
        }
        9 => {
            if shared {
                let r = std::thread::spawn(|| temporal_rs::verif_hooks::panic_while_holding_provider_lock()).join();
                format!("panicked={}", r.is_err())
            } else {
                "panicked=true".into()
            }
        }
        10 => {
            if shared {
                std::thread::spawn(|| format!("{:?}", zdt(1_636_263_000_001_002_003, "Europe/London").day().map_err(|e| (e.kind(), e.message().to_string())))).join().unwrap_or_else(|_| "thread panicked".into())
            } else {
                format!("{:?}", zdt(t, "Europe/London").day_with_provider(&p).map_err(|e| (e.kind(), e.message().to_string())))
            }
        }
        11 => {
            if shared {
                // thread A takes the lock, lets B start (B blocks on the lock), then panics while holding it
                let (tx, rx) = std::sync::mpsc::channel::<()>();
                let b = std::thread::spawn(move || {
                    let _ = rx.recv();
                    format!("{:?}", zdt(1_636_263_000_001_002_003, "Europe/London").day().map_err(|e| (e.kind(), e.message().to_string())))
                });
                let a = std::thread::spawn(move || {
                    temporal_rs::verif_hooks::panic_while_holding_provider_lock_with(|| {
                        let _ = tx.send(());
                        std::thread::sleep(std::time::Duration::from_millis(120));
                    })
                });
                let _ = a.join();
                b.join().unwrap_or_else(|_| "waiter panicked".into())
            } else {
                format!("{:?}", zdt(t, "Europe/London").day_with_provider(&p).map_err(|e| (e.kind(), e.message().to_string())))
            }
        }
        12 => {
            let z = |_: ()| ZonedDateTime::try_new(t, Calendar::default(), TimeZone::IanaIdentifier("america/new_york".into())).unwrap();
            pick!(z(()).hour(), z(()).hour_with_provider(&p))
        }
        16 | 17 => {
            use temporal_rs::Now;
            let zone = if a == 16 { Some(TimeZone::IanaIdentifier("Pacific/Kiritimati".into())) } else { None };
            let Some(core_zone) = zone.clone().or_else(|| Now::time_zone_identifier().ok().map(TimeZone::IanaIdentifier)) else {
                return "no system zone in this environment".into();
            };
            if !shared {
                return "within the two readings".into();
            }
            let ns = || std::time::SystemTime::now().duration_since(std::time::UNIX_EPOCH).unwrap().as_nanos() as i128;
            let core_at = |x: i128| ZonedDateTime::try_new(x, Calendar::default(), core_zone.clone()).and_then(|z| z.to_plain_datetime_with_provider(&p));
            let before = core_at(ns() - 1_000_000);
            let got = Now::plain_datetime_iso(zone.clone());
            let after = core_at(ns() + 1_000_000);
            match (before, got, after) {
                (Ok(lo), Ok(g), Ok(hi)) if lo.compare_iso(&g).is_le() && g.compare_iso(&hi).is_le() => "within the two readings".into(),
                (lo, g, hi) => format!("outside: {:?} not between {:?} and {:?}", g.map(|x| x.to_string()), lo.map(|x| x.to_string()), hi.map(|x| x.to_string())),
            }
        }
        15 => {
            if shared {
                let (tx, rx) = std::sync::mpsc::channel::<()>();
                let b = std::thread::spawn(move || {
                    let _ = rx.recv();
                    use std::fmt::Write;
                    let mut text = String::new();
                    match write!(&mut text, "{}", zdt(1_636_263_000_001_002_003, "Europe/London")) {
                        Ok(()) => format!("Ok({text:?})"),
                        Err(_) => "Err(fmt::Error)".to_string(),
                    }
                });
                let a = std::thread::spawn(move || {
                    temporal_rs::verif_hooks::panic_while_holding_provider_lock_with(|| {
                        let _ = tx.send(());
                        std::thread::sleep(std::time::Duration::from_millis(120));
                    })
                });
                let _ = a.join();
                b.join().unwrap_or_else(|_| "formatting panicked".into())
            } else {
                format!("{:?}", zdt(t, "Europe/London").to_string_with_provider(&p).map_err(|e| (e.kind(), e.message().to_string())))
            }
        }
        13 | 14 => {
            let path = late_zone_path();
            if a == 14 && shared && !path.exists() {
                let _ = std::fs::create_dir_all(path.parent().unwrap());
                let _ = std::fs::copy("/usr/share/zoneinfo/Asia/Kathmandu", &path);
            }
            let z = |_: ()| ZonedDateTime::try_new(t, Calendar::default(), TimeZone::IanaIdentifier(path.to_string_lossy().to_string())).unwrap();
            pick!(z(()).minute().map_err(|e| temporal_rs::TemporalError::range().with_message(format!("{:?}", e.kind()))), z(()).minute_with_provider(&p).map_err(|e| temporal_rs::TemporalError::range().with_message(format!("{:?}", e.kind()))))
        }
        _ => unreachable!(),
    }
}

/// Entry point of the worker process: `tmc c20hist 0,8,3` prints one JSON line.
pub fn worker(history: &str) {
    std::panic::set_hook(Box::new(|_| {}));
    let mut out = vec![];
    for a in history.split(',').filter(|s| !s.is_empty()).map(|s| s.parse::<usize>().unwrap()) {
        let got = act(a, true);
        let want = act(a, false);
        out.push(json!({"action": a, "same": got == want, "got": got, "want": want}));
    }
    let _ = std::fs::remove_dir_all(late_zone_path().parent().unwrap());
    println!("{}", Value::Array(out));
}

struct Histories {
    depth: u32,
}

impl Space for Histories {
    fn name(&self) -> String {
        "c20.fault_histories".into()
    }
    fn len(&self) -> u64 {
        (ACTIONS.len() as u64).pow(self.depth)
    }
    fn block(&self) -> u64 {
        8
    }
    fn eval(&self, i: u64, out: &mut Out) {
        let h = unrank(i, &vec![ACTIONS.len() as u64; self.depth as usize]);
        let hs: Vec<String> = h.iter().map(|x| x.to_string()).collect();
        let has_fault = h.iter().any(|a| (*a >= 5 && *a <= 9) || *a == 11 || *a == 15);
        if has_fault {
            out.nontrivial += 1;
        }
        let exe = std::env::current_exe().expect("exe");
        let res = std::process::Command::new(exe).arg("c20hist").arg(hs.join(",")).output();
        let attrs = |k: usize| {
            let before: Vec<&str> = h[..k].iter().map(|a| ACTIONS[*a]).collect();
            vec![
                ("history", format!("{:?}", h)),
                ("step", k.to_string()),
                ("action", ACTIONS[h[k]].to_string()),
                ("after_panic", h[..k].iter().any(|a| *a == 8 || *a == 9 || *a == 11 || *a == 15).to_string()),
                ("after_error", h[..k].iter().any(|a| (5..=7).contains(a)).to_string()),
                ("earlier_calls", format!("{before:?}")),
            ]
        };
        let Ok(o) = res else {
            out.fail("worker_spawn_failed", attrs(0));
            return;
        };
        let text = String::from_utf8_lossy(&o.stdout);
        let parsed: Option<Value> = text.lines().last().and_then(|l| serde_json::from_str(l).ok());
        let Some(Value::Array(steps)) = parsed else {
            // the worker died (abort / deadlock are verdicts about the history, not machinery)
            out.transitions += 1;
            out.fail("worker_died", {
                let mut a = attrs(h.len() - 1);
                a.push(("status", format!("{:?}", o.status)));
                a
            });
            return;
        };
        let mut state: (bool, Vec<usize>) = (false, vec![]);
        for (k, s) in steps.iter().enumerate() {
            let same = s["same"].as_bool().unwrap_or(false);
            out.lockstep("call returns what it returns alone", &Ok(s["want"].as_str().unwrap_or("").to_string()), &Oc::Ok(s["got"].as_str().unwrap_or("").to_string()), |a, b| a == b && same, || attrs(k));
            state.0 |= h[k] == 8 || h[k] == 9 || h[k] == 11 || h[k] == 15;
            state.1.push(h[k]);
            out.state(&(state.0, { let mut z: Vec<usize> = state.1.iter().filter(|a| **a < 5 || **a >= 10).map(|a| [0, 1, 2, 0, 3, 9, 9, 9, 9, 9, 1, 1, 9, 4, 4, 1, 5, 6][*a]).collect(); z.sort(); z.dedup(); z }));
        }
        if out.want_sample() && has_fault && h.len() >= 2 && h[0] == 8 {
            out.sample(json!({"history": h.iter().map(|a| ACTIONS[*a]).collect::<Vec<_>>()}));
        }
    }
    fn describe(&self) -> Value {
        json!({"actions": ACTIONS, "depth": self.depth, "state": "(lock poisoned?, set of cached zones)"})
    }
}

/// Two calls of the same convenience wrapper in a row, in this process: the second answer must be what the core
/// gives alone whatever the first call left behind (in the provider or anywhere else). The receivers are chosen
/// to collide under plausible wrong memo keys: same zone and same UTC day but different local days of different
/// length, same local date in zones with different rules, same instant in different calendars, zones that
/// share their rules under different names. The whole space runs on one thread, in order, so that the first call
/// of a pair is really the last thing the process did before the second.
struct WrapperPairs {
    receivers: Vec<(i128, &'static str, &'static str)>,
}

type WrapFn = fn(&ZonedDateTime) -> String;
type CoreFn = fn(&ZonedDateTime, &FsTzdbProvider) -> String;

fn shown<T: std::fmt::Debug>(r: temporal_rs::TemporalResult<T>) -> String {
    format!("{:?}", r.map_err(|e| e.kind()))
}

fn wrapper_table() -> Vec<(&'static str, WrapFn, CoreFn)> {
    let d = || Duration::new(0.into(), 0.into(), 0.into(), 1.into(), 5.into(), 0.into(), 0.into(), 0.into(), 0.into(), 0.into()).unwrap();
    let _ = d;
    vec![
        ("hours_in_day", |z| shown(z.hours_in_day()), |z, p| shown(z.hours_in_day_with_provider(p))),
        ("start_of_day", |z| shown(z.start_of_day().map(|x| x.epoch_nanoseconds().as_i128())), |z, p| shown(z.start_of_day_with_provider(p).map(|x| x.epoch_nanoseconds().as_i128()))),
        ("year", |z| shown(z.year()), |z, p| shown(z.year_with_provider(p))),
        ("month", |z| shown(z.month()), |z, p| shown(z.month_with_provider(p))),
        ("month_code", |z| shown(z.month_code()), |z, p| shown(z.month_code_with_provider(p))),
        ("day", |z| shown(z.day()), |z, p| shown(z.day_with_provider(p))),
        ("hour", |z| shown(z.hour()), |z, p| shown(z.hour_with_provider(p))),
        ("minute", |z| shown(z.minute()), |z, p| shown(z.minute_with_provider(p))),
        ("second", |z| shown(z.second()), |z, p| shown(z.second_with_provider(p))),
        ("offset", |z| shown(z.offset()), |z, p| shown(z.offset_with_provider(p))),
        ("offset_nanoseconds", |z| shown(z.offset_nanoseconds()), |z, p| shown(z.offset_nanoseconds_with_provider(p))),
        ("era_year", |z| shown(z.era_year()), |z, p| shown(z.era_year_with_provider(p))),
        ("day_of_week", |z| shown(z.day_of_week()), |z, p| shown(z.day_of_week_with_provider(p))),
        ("day_of_year", |z| shown(z.day_of_year()), |z, p| shown(z.day_of_year_with_provider(p))),
        ("week_of_year", |z| shown(z.week_of_year()), |z, p| shown(z.week_of_year_with_provider(p))),
        ("days_in_month", |z| shown(z.days_in_month()), |z, p| shown(z.days_in_month_with_provider(p))),
        ("days_in_year", |z| shown(z.days_in_year()), |z, p| shown(z.days_in_year_with_provider(p))),
        ("in_leap_year", |z| shown(z.in_leap_year()), |z, p| shown(z.in_leap_year_with_provider(p))),
        ("to_plain_date", |z| shown(z.to_plain_date()), |z, p| shown(z.to_plain_date_with_provider(p))),
        ("to_plain_time", |z| shown(z.to_plain_time()), |z, p| shown(z.to_plain_time_with_provider(p))),
        ("to_plain_datetime", |z| shown(z.to_plain_datetime()), |z, p| shown(z.to_plain_datetime_with_provider(p))),
        (
            "to_ixdtf_string",
            |z| shown(z.to_ixdtf_string(DisplayOffset::Auto, DisplayTimeZone::Auto, DisplayCalendar::Auto, ToStringRoundingOptions::default())),
            |z, p| shown(z.to_ixdtf_string_with_provider(DisplayOffset::Auto, DisplayTimeZone::Auto, DisplayCalendar::Auto, ToStringRoundingOptions::default(), p)),
        ),
        (
            "add(P1DT5H)",
            |z| shown(z.add(&Duration::new(0.into(), 0.into(), 0.into(), 1.into(), 5.into(), 0.into(), 0.into(), 0.into(), 0.into(), 0.into()).unwrap(), None).map(|x| x.epoch_nanoseconds().as_i128())),
            |z, p| shown(z.add_with_provider(&Duration::new(0.into(), 0.into(), 0.into(), 1.into(), 5.into(), 0.into(), 0.into(), 0.into(), 0.into(), 0.into()).unwrap(), None, p).map(|x| x.epoch_nanoseconds().as_i128())),
        ),
        (
            "with_plain_time(02:30)",
            |z| shown(z.with_plain_time(temporal_rs::PlainTime::try_new(2, 30, 0, 0, 0, 0).unwrap()).map(|x| x.epoch_nanoseconds().as_i128())),
            |z, p| shown(z.with_plain_time_and_provider(temporal_rs::PlainTime::try_new(2, 30, 0, 0, 0, 0).unwrap(), p).map(|x| x.epoch_nanoseconds().as_i128())),
        ),
        (
            "Duration::round(relativeTo)",
            |z| {
                let mut o = RoundingOptions::default();
                o.largest_unit = Some(Unit::Day);
                shown(Duration::new(0.into(), 0.into(), 0.into(), 0.into(), 49.into(), 0.into(), 0.into(), 0.into(), 0.into(), 0.into()).unwrap().round(o, Some(RelativeTo::ZonedDateTime(z.clone()))))
            },
            |z, p| {
                let mut o = RoundingOptions::default();
                o.largest_unit = Some(Unit::Day);
                shown(Duration::new(0.into(), 0.into(), 0.into(), 0.into(), 49.into(), 0.into(), 0.into(), 0.into(), 0.into(), 0.into()).unwrap().round_with_provider(o, Some(RelativeTo::ZonedDateTime(z.clone())), p))
            },
        ),
    ]
}

impl WrapperPairs {
    fn new() -> Self {
        let mut receivers = vec![];
        // 2024-03-10 (New York / Toronto spring forward, a 23-hour local day) and 2024-11-03 (25 hours)
        let h = 3_600_000_000_000i128;
        for (base, offs) in [(1_710_028_800_000_000_000i128, [3i128, 12, 27, 30]), (1_730_592_000_000_000_000, [3, 5, 6, 29])] {
            for o in offs {
                for zone in ["America/New_York", "America/Toronto", "Europe/London"] {
                    receivers.push((base + o * h + 1_002_003, zone, "iso8601"));
                }
            }
        }
        // Lord Howe's half-hour change (2024-04-06T15:00Z), and the same instants in other calendars
        for o in [-2i128, 0, 1, 10] {
            receivers.push((1_712_415_600_000_000_000 + o * h, "Australia/Lord_Howe", "iso8601"));
        }
        receivers.push((1_710_028_800_000_000_000 + 12 * h + 1_002_003, "America/New_York", "japanese"));
        receivers.push((1_710_028_800_000_000_000 + 12 * h + 1_002_003, "America/New_York", "hebrew"));
        receivers.push((1_710_028_800_000_000_000 + 12 * h + 1_002_003, "+05:30", "iso8601"));
        receivers.push((1_710_028_800_000_000_000 + 12 * h + 1_002_003, "-04:00", "iso8601"));
        WrapperPairs { receivers }
    }
}

impl Space for WrapperPairs {
    fn name(&self) -> String {
        "c20.wrapper_pair_histories".into()
    }
    fn len(&self) -> u64 {
        (self.receivers.len() * self.receivers.len()) as u64
    }
    fn block(&self) -> u64 {
        self.len()
    }
    fn eval(&self, i: u64, out: &mut Out) {
        let n = self.receivers.len();
        let (a, b) = (self.receivers[i as usize / n], self.receivers[i as usize % n]);
        let mk = |r: (i128, &str, &str)| ZonedDateTime::try_new(r.0, r.2.parse::<Calendar>().unwrap(), crate::imp::zone_of(r.1).expect("zone")).unwrap();
        let (za, zb) = (mk(a), mk(b));
        let p = FsTzdbProvider::default();
        if a != b {
            out.nontrivial += 1;
        }
        for (name, w, c) in wrapper_table() {
            let first = call_inf(|| w(&za));
            let second = call_inf(|| w(&zb));
            let alone = c(&zb, &p);
            let _ = first;
            out.lockstep("second call of a wrapper returns what the core returns alone", &Ok(alone), &second, |x, y| x == y, || vec![("wrapper", name.to_string()), ("first_receiver", format!("{a:?}")), ("second_receiver", format!("{b:?}"))]);
        }
    }
    fn describe(&self) -> Value {
        json!({"receivers": self.receivers.len(), "ordered_pairs": self.len(), "wrappers": wrapper_table().len(), "threads": 1})
    }
}

/// Worker process: the related pairs of zone names (shard `k` of `n`) through the SHARED provider of the convenience
/// API - a, b, b, a - every answer next to the core's with a fresh provider. Prints one JSON line.
pub fn names_worker(k: usize, n: usize) {
    std::panic::set_hook(Box::new(|_| {}));
    let names = crate::checks::c15::zone_names();
    let pairs = crate::checks::c15::name_pairs(&names, false);
    let ts = [-2_208_988_800_000_000_000i128, 1_593_561_600_000_000_000];
    let mut bad = vec![];
    let mut calls = 0u64;
    for (idx, (a, b)) in pairs.iter().enumerate() {
        if idx % n != k {
            continue;
        }
        for (step, (z, t)) in [(*a, ts[0]), (*b, ts[0]), (*b, ts[1]), (*a, ts[1])].into_iter().enumerate() {
            let name = &names[z as usize];
            let zd = ZonedDateTime::try_new(t, Calendar::default(), TimeZone::IanaIdentifier(name.clone())).unwrap();
            let got = std::panic::catch_unwind(|| format!("{:?}", zd.offset_nanoseconds().map_err(|e| e.kind()))).unwrap_or_else(|_| "panic".into());
            let want = format!("{:?}", zd.offset_nanoseconds_with_provider(&FsTzdbProvider::default()).map_err(|e| e.kind()));
            calls += 1;
            if got != want {
                bad.push(json!({"first": names[*a as usize], "second": names[*b as usize], "step": step, "zone": name, "got": got, "want": want}));
            }
        }
    }
    println!("{}", json!({"calls": calls, "bad": bad}));
}

/// Names through the shared provider: 16 worker processes, each with its own process-wide provider.
struct SharedNames;

impl Space for SharedNames {
    fn name(&self) -> String {
        "c20.shared_provider_name_pairs".into()
    }
    fn len(&self) -> u64 {
        16
    }
    fn block(&self) -> u64 {
        1
    }
    fn eval(&self, i: u64, out: &mut Out) {
        let exe = std::env::current_exe().expect("exe");
        let res = std::process::Command::new(exe).arg("c20names").arg(i.to_string()).arg("16").output();
        let parsed: Option<Value> = res.ok().and_then(|o| String::from_utf8_lossy(&o.stdout).lines().last().and_then(|l| serde_json::from_str(l).ok()));
        let Some(v) = parsed else {
            out.transitions += 1;
            out.fail("worker_died", vec![("shard", i.to_string())]);
            return;
        };
        out.nontrivial += 1;
        let calls = v["calls"].as_u64().unwrap_or(0);
        let bad = v["bad"].as_array().cloned().unwrap_or_default();
        out.transitions += calls.saturating_sub(bad.len() as u64);
        for b in bad {
            out.lockstep("call through the shared provider returns what it returns alone", &Ok(b["want"].as_str().unwrap_or("").to_string()), &Oc::Ok(b["got"].as_str().unwrap_or("").to_string()), |x, y| x == y, || vec![("first", b["first"].as_str().unwrap_or("").to_string()), ("second", b["second"].as_str().unwrap_or("").to_string()), ("step", b["step"].to_string()), ("zone", b["zone"].as_str().unwrap_or("").to_string())]);
        }
    }
    fn describe(&self) -> Value {
        json!({"worker_processes": 16, "pairs": "the related ordered pairs of zone names of c15.name_pair_histories", "queries_per_pair": 4})
    }
}

struct Loom {
    results: Vec<Value>,
}
impl Space for Loom {
    fn name(&self) -> String {
        "c20.loom_schedules".into()
    }
    fn len(&self) -> u64 {
        self.results.len() as u64
    }
    fn block(&self) -> u64 {
        1
    }
    fn eval(&self, i: u64, out: &mut Out) {
        let r = &self.results[i as usize];
        let name = r["harness"].as_str().unwrap_or("?").to_string();
        out.nontrivial += 1;
        let schedules = r["schedules"].as_u64().unwrap_or(0);
        out.transitions += schedules;
        out.count("loom_schedules", schedules);
        let attrs = || vec![("harness", name.clone()), ("schedules", schedules.to_string()), ("threads", r["threads"].to_string()), ("preemption_bound", r["preemption_bound"].to_string())];
        if let Some(p) = r["loom_panic"].as_str() {
            out.fail("loom_reported", {
                let mut a = attrs();
                a.push(("loom_message", p.to_string()));
                a
            });
        } else if let Some(m) = r["mismatch"].as_str() {
            out.fail("result_depends_on_schedule", {
                let mut a = attrs();
                a.push(("mismatch", m.to_string()));
                a
            });
        }
        // vacuity guard: more than one completion order must have been observed
        out.law("threads collided (more than one completion order)", r["distinct_completion_orders"].as_u64().unwrap_or(0) > 1 || r["loom_panic"].is_string(), attrs);
        out.sample(r.clone());
    }
}

pub fn run(env: &Env) -> i32 {
    let mut rep = Report::new(
        env,
        "model_checking",
        "schedules: every interleaving of the real convenience wrappers at their synchronisation points under loom (2-4 threads, 1-3 calls each, zones forced to collide and to differ, an erroring call), up to the stated preemption bounds; histories: every sequence of 13 actions (ok calls on 4 zones from the main or a spawned thread, a zone named in another letter case, 3 erroring calls, a panic while holding the provider lock from the main or a spawned thread, and such a panic while another thread is parked on the lock) up to depth 3 (quick) / 4 (thorough), each in its own process; non-trivial = histories containing a failing or panicking call; pairs: 25 wrappers called twice in a row on every ordered pair of 34 receivers chosen to collide under wrong memo keys, the second answer against the core alone",
    );
    rep.assumptions.push("loom explores sequentially consistent interleavings at loom synchronisation points; the wrappers use one mutex and a lazily initialised static, nothing weaker. The sequential reference is the core method with a fresh FsTzdbProvider".into());
    let loom_json = std::env::var("TMC_LOOM_JSON").ok().and_then(|p| std::fs::read_to_string(p).ok()).and_then(|t| serde_json::from_str::<Value>(&t).ok());
    match loom_json {
        Some(Value::Array(results)) => {
            rep.extra.insert("loom".into(), Value::Array(results.clone()));
            rep.run(&Loom { results });
        }
        _ => {
            if env.replay.is_none() {
                eprintln!("MACHINERY: no loom results (TMC_LOOM_JSON); run through ./run.sh C20");
                return 2;
            }
        }
    }
    rep.run(&Histories { depth: env.tier.pick(3, 4) });
    rep.run(&WrapperPairs::new());
    rep.run(&SharedNames);
    // audit: no other synchronisation primitives / unsafe Send-Sync in the crate that loom would not see
    let mut other_sync = vec![];
    for f in walk("/repo/src") {
        if f.ends_with("builtins/mod.rs") {
            continue;
        }
        if let Ok(t) = std::fs::read_to_string(&f) {
            for (n, l) in t.lines().enumerate() {
                if (l.contains("std::sync") || l.contains("core::sync") || l.contains("unsafe impl Send") || l.contains("unsafe impl Sync") || l.contains("static mut")) && !l.trim_start().starts_with("//") {
                    other_sync.push(format!("{f}:{}", n + 1));
                }
            }
        }
    }
    rep.extra.insert("other_sync_uses_outside_builtins_mod".into(), json!(other_sync));
    rep.finish()
}

fn walk(dir: &str) -> Vec<String> {
    let mut v = vec![];
    if let Ok(rd) = std::fs::read_dir(dir) {
        for e in rd.flatten() {
            let p = e.path();
            if p.is_dir() {
                v.extend(walk(&p.to_string_lossy()));
            } else if p.extension().map(|x| x == "rs").unwrap_or(false) {
                v.push(p.to_string_lossy().to_string());
            }
        }
    }
    v
}

//! C16 — non-ISO calendar fields describe the same day as the ISO date.
//! No external reference: round-trip, bound, successor and identity laws on every (calendar, day).

use crate::engine::*;
use serde_json::json;
use std::str::FromStr;
use temporal_rs::error::ErrorKind;
use temporal_rs::options::ArithmeticOverflow;
use temporal_rs::partial::PartialDate;
use temporal_rs::{Calendar, PlainDate, TinyAsciiStr};
use tmc_ref::r1::*;

/// Calendar identifiers (BCP-47) with their cost class.
pub const CALENDARS: [(&str, u8); 18] = [
    ("iso8601", 0),
    ("gregory", 0),
    ("buddhist", 0),
    ("coptic", 0),
    ("ethiopic", 0),
    ("ethioaa", 0),
    ("hebrew", 0),
    ("indian", 0),
    ("islamic-civil", 0),
    ("islamic-tbla", 0),
    ("japanese", 0),
    ("japanext", 0),
    ("persian", 0),
    ("roc", 0),
    ("chinese", 1),
    ("dangi", 1),
    ("islamic", 2),
    ("islamic-umalqura", 2),
];

/// Era aliases of the intl-era-monthcode proposal: (calendar, canonical era, aliases).
const ERA_ALIASES: [(&str, &str, &[&str]); 24] = [
    ("buddhist", "buddhist", &["be"]),
    ("coptic", "coptic", &[]),
    ("coptic", "coptic-inverse", &[]),
    ("ethiopic", "ethiopic", &["incar"]),
    ("ethiopic", "ethioaa", &["ethiopic-amete-alem", "mundi"]),
    ("ethioaa", "ethioaa", &["ethiopic-amete-alem", "mundi"]),
    ("gregory", "gregory", &["ce", "ad"]),
    ("gregory", "gregory-inverse", &["bce", "bc"]),
    ("hebrew", "hebrew", &["am"]),
    ("indian", "indian", &["saka"]),
    ("islamic", "islamic", &["ah"]),
    ("islamic-civil", "islamic-civil", &["islamicc", "ah"]),
    ("islamic-tbla", "islamic-tbla", &["ah"]),
    ("islamic-umalqura", "islamic-umalqura", &["ah"]),
    ("japanese", "japanese", &["gregory", "ce", "ad"]),
    ("japanese", "japanese-inverse", &["gregory-inverse", "bce", "bc"]),
    ("japanese", "meiji", &[]),
    ("japanese", "taisho", &[]),
    ("japanese", "showa", &[]),
    ("japanese", "heisei", &[]),
    ("japanese", "reiwa", &[]),
    ("persian", "persian", &["ap"]),
    ("roc", "roc", &["minguo"]),
    ("roc", "roc-inverse", &["before-roc"]),
];

fn days_for(class: u8, tier: Tier) -> Vec<i64> {
    let mut v: Vec<i64> = vec![];
    let range = |a: (i64, u8, u8), b: (i64, u8, u8)| days_from_civil(a.0, a.1, a.2)..=days_from_civil(b.0, b.1, b.2);
    match class {
        0 => {
            v.extend(match tier {
                Tier::Quick => range((1900, 1, 1), (2100, 12, 31)),
                Tier::Thorough => range((1582, 10, 1), (2400, 12, 31)),
            });
            // era boundaries +-40 (quick) / +-400 (thorough) days
            let w = tier.pick(40, 400);
            for (y, m, d) in [(1868, 9, 8), (1912, 7, 30), (1926, 12, 25), (1989, 1, 8), (2019, 5, 1), (1, 1, 1), (284, 8, 29), (8, 8, 27), (622, 7, 16), (1912, 1, 1), (-543, 1, 1), (0, 1, 1), (-5500, 8, 28)] {
                let c = days_from_civil(y, m, d);
                v.extend(c - w..=c + w);
            }
            // first and last day of every month of sampled years over the whole range
            let step = tier.pick(9973, 997);
            let mut y = -271_821i64;
            while y <= 275_760 {
                for m in 1..=12u8 {
                    for d in [1, days_in_month(y, m)] {
                        if date_in_limits(y, m, d) {
                            v.push(days_from_civil(y, m, d));
                        }
                    }
                }
                y += step;
            }
            v.extend(MIN_DAY..MIN_DAY + 40);
            v.extend(MAX_DAY - 40..=MAX_DAY);
        }
        1 => {
            v.extend(match tier {
                Tier::Quick => range((1990, 1, 1), (2040, 12, 31)),
                Tier::Thorough => range((1900, 1, 1), (2100, 12, 31)),
            });
            // every leap month code M01L..M12L occurs: the first occurrence of each after the year 1000 in the
            // chinese and in the dangi calendar (found by `tmc leapscan`), and the dangi M12L of 1890; +-20 days
            for (y, m, d) in [(1051, 3, 5), (1002, 3, 24), (1010, 4, 25), (1018, 5, 27), (1007, 6, 24), (1015, 7, 26), (1004, 9, 5), (1251, 10, 4), (1107, 10, 30), (1289, 11, 23), (1012, 12, 30), (1404, 2, 1), (1029, 4, 29), (1010, 5, 23), (1012, 11, 4), (1032, 1, 4), (1890, 2, 1)] {
                let c = days_from_civil(y, m, d);
                v.extend(c - 20..=c + 20);
            }
        }
        _ => {
            v.extend(match tier {
                Tier::Quick => range((2015, 1, 1), (2030, 12, 31)),
                Tier::Thorough => range((1990, 1, 1), (2040, 12, 31)),
            });
            if tier == Tier::Thorough {
                for y in 1300..=2100 {
                    for m in 1..=12u8 {
                        v.push(days_from_civil(y, m, 1));
                    }
                }
            }
        }
    }
    v.sort();
    v.dedup();
    v
}

type Fields = (i32, u8, String, u8, Option<String>, Option<i32>, u16, u16, u16, u16, bool);

fn fields(d: &PlainDate) -> Fields {
    (d.year(), d.month(), d.month_code().as_str().to_string(), d.day(), d.era().map(|e| e.to_string()), d.era_year(), d.day_of_year(), d.days_in_month(), d.days_in_year(), d.months_in_year(), d.in_leap_year())
}

fn has_leap_months(cal: &str) -> bool {
    matches!(cal, "hebrew" | "chinese" | "dangi")
}

struct CalSweep {
    items: Vec<(usize, i64)>,
}

impl Space for CalSweep {
    fn name(&self) -> String {
        "c16.calendar_days".into()
    }
    fn len(&self) -> u64 {
        self.items.len() as u64
    }
    fn block(&self) -> u64 {
        16
    }
    fn eval(&self, i: u64, out: &mut Out) {
        let (ci, day) = self.items[i as usize];
        let (cal_id, class) = CALENDARS[ci];
        let cal = Calendar::from_str(cal_id).expect("calendar");
        let (y, m, d) = civil_from_days(day);
        let region = if day < MIN_DAY + 400 || day > MAX_DAY - 400 {
            "range_end"
        } else if y < 1 {
            "before_year_1"
        } else if y < 1900 {
            "historic"
        } else {
            "modern"
        };
        let attrs = |extra: Vec<(&'static str, String)>| {
            let mut a = vec![("calendar", cal_id.to_string()), ("iso", format!("{y:+05}-{m:02}-{d:02}")), ("region", region.to_string())];
            a.extend(extra);
            a
        };
        // 1. a date of that calendar from the ISO day; changing the calendar keeps the ISO date
        let got = call(|| PlainDate::try_new(y as i32, m, d, Calendar::default())?.with_calendar(cal.clone()));
        if !out.lockstep("with_calendar keeps the ISO date", &Ok((y, m, d)), &got, |a, b| (b.iso_year() as i64, b.iso_month(), b.iso_day()) == *a, || attrs(vec![])) {
            return;
        }
        let Oc::Ok(date) = got else { unreachable!() };
        let f = match call_inf(|| fields(&date)) {
            Oc::Ok(f) => f,
            other => {
                out.lockstep("calendar field getters", &Ok(()), &other.map(|_| ()), |_, _| true, || attrs(vec![]));
                return;
            }
        };
        let (cy, cm, code, cd, era, era_year, doy, dim, diy, miy, leap) = f.clone();
        if cd == 1 || cd as u16 == dim || era.is_some() {
            out.nontrivial += 1;
        }
        let fa = || attrs(vec![("fields", format!("{f:?}"))]);
        // 2. bounds
        out.law("1 <= day <= days_in_month", cd >= 1 && cd as u16 <= dim, fa);
        out.law("1 <= month <= months_in_year", cm >= 1 && cm as u16 <= miy, fa);
        out.law("1 <= day_of_year <= days_in_year", doy >= 1 && doy <= diy, fa);
        // 8a. the arithmetic year and (era, eraYear) name the same year
        if let (Some(e), Some(ey)) = (&era, era_year) {
            let expect: Option<i64> = match (cal_id, e.as_str()) {
                ("japanese", _) | ("japanext", _) => Some(y),
                (_, "gregory-inverse") | (_, "roc-inverse") | (_, "coptic-inverse") | (_, "ethiopic-inverse") | (_, "bce") => Some(1 - ey as i64),
                ("ethiopic", "ethioaa") => Some(ey as i64 - 5500),
                _ => Some(ey as i64),
            };
            if let Some(x) = expect {
                let e2 = e.clone();
                out.law("year agrees with (era, eraYear)", cy as i64 == x, || attrs(vec![("fields", format!("{f:?}")), ("era_name", e2.clone())]));
            }
        }
        // 8b. the year starts with day 1 of month 1
        out.law("day_of_year = 1 <=> month 1, day 1", (doy == 1) == (cm == 1 && cd == 1), fa);
        // 8. month <-> month code
        let code_num: u8 = code[1..3].parse().unwrap_or(0);
        let code_leap = code.ends_with('L');
        if has_leap_months(cal_id) {
            // ordinal month: the code number, or one more from the leap month of the year onwards
            let ok = code_num >= 1 && if !leap { !code_leap && cm == code_num } else if code_leap { cm == code_num + 1 } else { cm == code_num || cm == code_num + 1 };
            out.law("month code consistent with month (leap-month calendar)", ok, fa);
        } else {
            out.law("month code = M{month}", !code_leap && code_num == cm, fa);
        }
        // 9. leap flag
        let common_len = match cal_id {
            "hebrew" => 355, // 353..355 common, 383..385 leap
            "chinese" | "dangi" => 355,
            "islamic" | "islamic-civil" | "islamic-tbla" | "islamic-umalqura" => 354,
            _ => 365,
        };
        if class != 2 {
            // (the observational islamic calendars have irregular year lengths outside their tabulated range)
            out.law("in_leap_year <=> a longer year", leap == (diy > common_len) || (has_leap_months(cal_id) && leap == (miy == 13)), fa);
        }
        if has_leap_months(cal_id) {
            out.law("months_in_year = 13 <=> leap", (miy == 13) == leap, fa);
        }
        // 3-5. rebuild from fields
        let mc = temporal_rs::MonthCode::from_str(&code).expect("month code");
        // the month-day of the date: same calendar, month code and day
        {
            let got = call(|| date.to_plain_month_day().map(|md| (md.calendar().identifier().to_string(), md.month_code().as_str().to_string())));
            out.lockstep("to_plain_month_day keeps calendar and month code", &Ok((cal_id.to_string(), code.clone())), &got, |a, b| a == b, || attrs(vec![("fields", format!("{f:?}")), ("iso_calendar", (cal_id == "iso8601").to_string())]));
        }
        // the year-month of the date: same calendar, same year, month and month code
        {
            let got = call(|| date.to_plain_year_month().map(|ym| (ym.calendar().identifier().to_string(), ym.year(), ym.month(), ym.month_code().as_str().to_string())));
            // the hidden reference date is the first of the calendar month: when that lies in an ISO month before
            // the first representable year-month (-271821-04), there is no such year-month
            let first_of_month = tmc_ref::r1::days_from_civil(y, m, d) - (cd as i64 - 1);
            if first_of_month < tmc_ref::r1::days_from_civil(-271_821, 4, 1) {
                out.lockstep("to_plain_year_month of a month that starts before the first representable year-month", &Err::<(), _>(ErrorKind::Range), &got.map(|_| ()), |_, _| true, || attrs(vec![("fields", format!("{f:?}"))]));
            } else {
                out.lockstep("to_plain_year_month keeps calendar, year, month and month code", &Ok((cal_id.to_string(), cy, cm, code.clone())), &got, |a, b| a == b, || attrs(vec![("fields", format!("{f:?}"))]));
            }
        }
        for (ovn, ov) in [("constrain", Some(ArithmeticOverflow::Constrain)), ("reject", Some(ArithmeticOverflow::Reject))] {
            let mk = || {
                let mut p = PartialDate::default();
                p.calendar = cal.clone();
                p.day = Some(cd);
                p
            };
            let same = |a: &(i64, u8, u8), b: &PlainDate| (b.iso_year() as i64, b.iso_month(), b.iso_day()) == *a;
            let mut p = mk();
            p.year = Some(cy);
            p.month_code = Some(mc);
            let got = call(|| PlainDate::from_partial(p, ov));
            out.lockstep("rebuild from (year, monthCode, day)", &Ok((y, m, d)), &got, same, || attrs(vec![("fields", format!("{f:?}")), ("overflow", ovn.into())]));
            let mut p = mk();
            p.year = Some(cy);
            p.month = Some(cm);
            let got = call(|| PlainDate::from_partial(p, ov));
            out.lockstep("rebuild from (year, month, day)", &Ok((y, m, d)), &got, same, || attrs(vec![("fields", format!("{f:?}")), ("overflow", ovn.into())]));
            if let (Some(e), Some(ey)) = (&era, era_year) {
                let mut names: Vec<String> = vec![e.clone()];
                for (c, canon, aliases) in ERA_ALIASES {
                    if c == cal_id && canon == e {
                        names.extend(aliases.iter().map(|s| s.to_string()));
                    }
                }
                for (k, en) in names.iter().enumerate() {
                    let mut p = mk();
                    p.era = TinyAsciiStr::<19>::try_from_utf8(en.as_bytes()).ok();
                    p.era_year = Some(ey);
                    p.month_code = Some(mc);
                    let got = call(|| PlainDate::from_partial(p, ov));
                    out.lockstep(if k == 0 { "rebuild from (era, eraYear, monthCode, day)" } else { "rebuild from (era alias, eraYear, monthCode, day)" }, &Ok((y, m, d)), &got, same, || attrs(vec![("fields", format!("{f:?}")), ("overflow", ovn.into()), ("era_name", en.clone())]));
                }
            }
        }
        // 6. the same routes through with(): the receiver supplies what the record leaves out
        for (ovn, ov) in [("constrain", Some(ArithmeticOverflow::Constrain)), ("reject", Some(ArithmeticOverflow::Reject))] {
            let same = |a: &(i64, u8, u8), b: &PlainDate| (b.iso_year() as i64, b.iso_month(), b.iso_day()) == *a;
            let wa = |receiver: String| attrs(vec![("fields", format!("{f:?}")), ("overflow", ovn.into()), ("receiver", receiver), ("era_name", era.clone().unwrap_or_else(|| "none".into()))]);
            // both month and monthCode, as the getters report them
            let mut p = PartialDate::default();
            p.calendar = cal.clone();
            p.day = Some(cd);
            p.year = Some(cy);
            p.month = Some(cm);
            p.month_code = Some(mc);
            if let (Some(e), Some(ey)) = (&era, era_year) {
                p.era = TinyAsciiStr::<19>::try_from_utf8(e.as_bytes()).ok();
                p.era_year = Some(ey);
            }
            let got = call(|| PlainDate::from_partial(p, ov));
            out.lockstep("rebuild from every field the getters report", &Ok((y, m, d)), &got, same, || wa("none".into()));
            // ... and a year that disagrees with (era, eraYear) is refused
            if let (Some(e), Some(ey)) = (&era, era_year) {
                for wrong in [cy - 1, cy + 1] {
                    let mut p = PartialDate::default();
                    p.calendar = cal.clone();
                    p.day = Some(cd);
                    p.year = Some(wrong);
                    p.month_code = Some(mc);
                    p.era = TinyAsciiStr::<19>::try_from_utf8(e.as_bytes()).ok();
                    p.era_year = Some(ey);
                    let got = call(|| PlainDate::from_partial(p, ov));
                    out.lockstep("a year next to a disagreeing (era, eraYear) is refused", &Err::<(i64, u8, u8), _>(ErrorKind::Range), &got, same, || wa("none".into()));
                }
            }
            // with() of its own fields is the identity
            let got = call(|| date.with(PartialDate::new().with_day(Some(cd)), ov));
            out.lockstep("with({day: own}) is the identity", &Ok((y, m, d)), &got, same, || wa("self".into()));
            let got = call(|| date.with(PartialDate::new().with_month_code(Some(mc)), ov));
            out.lockstep("with({monthCode: own}) is the identity", &Ok((y, m, d)), &got, same, || wa("self".into()));
            // from other days of the same calendar year (the 1st of this month, and the days 40 and 200 days away
            // when they are in the same calendar year): with({monthCode, day}) leads back here
            for delta in [-(cd as i64 - 1), -200, -40, 40, 200] {
                if delta == 0 || day + delta < MIN_DAY || day + delta > MAX_DAY {
                    continue;
                }
                let (oy, om, od) = civil_from_days(day + delta);
                let Oc::Ok(other) = call(|| PlainDate::try_new(oy as i32, om, od, cal.clone())) else { continue };
                let Oc::Ok((other_year, other_era)) = call_inf(|| (other.year(), other.era().map(|e| e.to_string()))) else { continue };
                if other_year != cy || other_era != era {
                    continue;
                }
                let got = call(|| other.with(PartialDate::new().with_month_code(Some(mc)).with_day(Some(cd)), ov));
                out.lockstep("other.with({monthCode, day}) within the calendar year", &Ok((y, m, d)), &got, same, || wa(format!("{delta:+}d")));
            }
        }
        // 6a. one day beyond either end of the range is refused, whatever the calendar
        if (day == MAX_DAY && (cd as u16) < dim) || (day == MIN_DAY && cd > 1) {
            let beyond = if day == MAX_DAY { cd + 1 } else { cd - 1 };
            for (ovn, ov) in [("constrain", Some(ArithmeticOverflow::Constrain)), ("reject", Some(ArithmeticOverflow::Reject))] {
                let mut p = PartialDate::default();
                p.calendar = cal.clone();
                p.day = Some(beyond);
                p.month_code = Some(mc);
                if let (Some(e), Some(ey)) = (&era, era_year) {
                    p.era = TinyAsciiStr::<19>::try_from_utf8(e.as_bytes()).ok();
                    p.era_year = Some(ey);
                } else {
                    p.year = Some(cy);
                }
                let got = call(|| PlainDate::from_partial(p.clone(), ov));
                out.lockstep("a date one day beyond the range is refused", &Err::<(), _>(ErrorKind::Range), &got.map(|_| ()), |_, _| true, || attrs(vec![("fields", format!("{f:?}")), ("overflow", ovn.into()), ("beyond_day", beyond.to_string())]));
                let got = call(|| date.with(PartialDate::new().with_day(Some(beyond)), ov));
                out.lockstep("with() to one day beyond the range is refused", &Err::<(), _>(ErrorKind::Range), &got.map(|_| ()), |_, _| true, || attrs(vec![("fields", format!("{f:?}")), ("overflow", ovn.into()), ("beyond_day", beyond.to_string())]));
            }
        }
        // 6b. changing the calendar of a value that already has a calendar keeps its ISO date (and time, and
        // instant), for the date, the date-time and the zoned date-time
        for target_id in ["iso8601", CALENDARS[(ci + 1) % CALENDARS.len()].0, "hebrew", "roc"] {
            let target = Calendar::from_str(target_id).expect("calendar");
            let ta = || attrs(vec![("fields", format!("{f:?}")), ("target_calendar", target_id.to_string())]);
            let got = call(|| date.with_calendar(target.clone()));
            out.lockstep("PlainDate::with_calendar keeps the ISO date", &Ok((y, m, d)), &got, |a, b| (b.iso_year() as i64, b.iso_month(), b.iso_day()) == *a && b.calendar().identifier() == target.identifier(), ta);
            if day > MIN_DAY {
                let got = call(|| temporal_rs::PlainDateTime::try_new(y as i32, m, d, 12, 34, 56, 789, 12, 345, cal.clone())?.with_calendar(target.clone()));
                out.lockstep("PlainDateTime::with_calendar keeps the ISO date and time", &Ok((y, m, d)), &got, |a, b| (b.iso_year() as i64, b.iso_month(), b.iso_day()) == *a && (b.hour(), b.minute(), b.second(), b.millisecond(), b.microsecond(), b.nanosecond()) == (12, 34, 56, 789, 12, 345) && b.calendar().identifier() == target.identifier(), ta);
            }
            let ns = day as i128 * tmc_ref::r1::NS_PER_DAY + 45_296_789_012_345;
            if ns.abs() <= tmc_ref::r1::MAX_INSTANT_NS {
                let got = call(|| temporal_rs::ZonedDateTime::try_new(ns, cal.clone(), temporal_rs::TimeZone::try_from_str("+05:30")?)?.with_calendar(target.clone()));
                out.lockstep("ZonedDateTime::with_calendar keeps the instant", &Ok(ns), &got, |a, b| b.epoch_nanoseconds().as_i128() == *a && b.calendar().identifier() == target.identifier(), ta);
            }
        }
        // 7. successor law: the next ISO day is the next calendar day
        if day < MAX_DAY {
            let (ny, nm, nd) = civil_from_days(day + 1);
            if let Oc::Ok(next) = call(|| PlainDate::try_new(ny as i32, nm, nd, cal.clone())) {
                if let Oc::Ok(g) = call_inf(|| fields(&next)) {
                    let (ny2, nm2, _, nd2, nera, ney, ndoy, _, _, _, _) = g.clone();
                    let same_era = nera == era;
                    let ok = if nd2 == cd + 1 {
                        nm2 == cm && ny2 == cy && ndoy == doy + 1
                    } else if nd2 == 1 && cd as u16 == dim {
                        (nm2 == cm + 1 && ny2 == cy && ndoy == doy + 1) || (nm2 == 1 && cm as u16 == miy && (ny2 == cy + 1 || (cy == -1 && ny2 == 1) || !same_era) && ndoy == 1)
                    } else {
                        // an era change inside a month (japanese) keeps month/day running
                        false
                    };
                    let era_ok = if same_era {
                        match (era_year, ney) {
                            (Some(a), Some(b)) => b == a || b == a + 1 || b == a - 1,
                            _ => true,
                        }
                    } else {
                        true
                    };
                    out.law("consecutive ISO days are consecutive calendar days", ok && era_ok, || attrs(vec![("fields", format!("{f:?}")), ("next_fields", format!("{g:?}"))]));
                }
            }
        }
        let _ = class;
        if out.want_sample() && era.is_some() && cd == 1 {
            out.sample(json!({"calendar": cal_id, "iso": format!("{y}-{m}-{d}"), "fields": format!("{f:?}")}));
        }
    }
    fn describe(&self) -> serde_json::Value {
        let mut per: std::collections::BTreeMap<&str, u64> = Default::default();
        for (ci, _) in &self.items {
            *per.entry(CALENDARS[*ci].0).or_insert(0) += 1;
        }
        json!({"days_per_calendar": per})
    }
}

/// Identifiers: recognised case-insensitively, canonical identifier reported, fixed point.
struct Identifiers;
impl Space for Identifiers {
    fn name(&self) -> String {
        "c16.identifiers".into()
    }
    fn len(&self) -> u64 {
        CALENDARS.len() as u64 + 6
    }
    fn eval(&self, i: u64, out: &mut Out) {
        out.nontrivial += 1;
        let extra = [("gregorian", None), ("julian", None), ("", None), ("iso8601x", None), ("iso-8601", None), ("hebrew ", None)];
        let (id, canon): (&str, Option<&str>) = if (i as usize) < CALENDARS.len() { (CALENDARS[i as usize].0, Some(CALENDARS[i as usize].0)) } else { extra[i as usize - CALENDARS.len()] };
        let alt: String = id.chars().enumerate().map(|(k, c)| if k % 2 == 0 { c.to_ascii_uppercase() } else { c }).collect();
        for v in [id.to_string(), id.to_ascii_uppercase(), alt] {
            let attrs = || vec![("identifier", v.clone())];
            let model = canon.map(|c| c.to_string()).ok_or(ErrorKind::Range);
            let got = call(|| Calendar::from_str(&v).map(|c| c.identifier().to_string()));
            out.lockstep("Calendar::from_str(..).identifier()", &model, &got, |a, b| a == b, attrs);
            let got = call(|| Calendar::from_utf8(v.as_bytes()).map(|c| c.identifier().to_string()));
            out.lockstep("Calendar::from_utf8(..).identifier()", &model, &got, |a, b| a == b, attrs);
            if let Oc::Ok(c) = &got {
                let again = call(|| Calendar::from_str(c).map(|x| x.identifier().to_string()));
                out.lockstep("identifier is a fixed point", &Ok(c.clone()), &again, |a, b| a == b, attrs);
            }
        }
        if out.want_sample() {
            out.sample(json!({"identifier": id, "canonical": canon}));
        }
    }
}

pub fn spaces(env: &Env) -> Vec<Box<dyn Space>> {
    let mut items = vec![];
    for (ci, (_, class)) in CALENDARS.iter().enumerate() {
        for d in days_for(*class, env.tier) {
            items.push((ci, d));
        }
    }
    vec![Box::new(Identifiers), Box::new(CalSweep { items })]
}

pub fn run(env: &Env) -> i32 {
    let mut rep = Report::new(
        env,
        "exploration",
        "sweep: every calendar identifier the crate accepts x ISO days (arithmetic calendars: every day of a multi-decade window, +-40/400 days around every era boundary, month ends of sampled years over the whole range, both range ends; lunisolar/astronomical calendars on narrower windows because of their cost); a case is non-trivial when it is a month start/end or carries an era",
    );
    rep.assumptions.push("no external calendar reference: the oracle is the set of laws in the property (rebuild from fields incl. every era alias of the intl-era-monthcode table, bounds, successor, identity of the ISO date, identifier canonicalisation)".into());
    rep.cap_s = match env.tier {
        Tier::Quick => 40.0,
        Tier::Thorough => 1500.0,
    };
    for s in spaces(env) {
        rep.run(s.as_ref());
    }
    rep.finish()
}

// included by c19_ffi.rs

const F_CALS: [&str; 6] = ["iso8601", "gregory", "japanese", "hebrew", "chinese", "ethiopic"];
// (2020-06-01 lies in the chinese leap month M04L, 2024-02-20 in the hebrew leap month M05L)
const F_DATES: [(i32, u8, u8); 7] = [(2021, 3, 4), (2020, 2, 29), (1969, 12, 31), (2019, 1, 31), (275_760, 9, 13), (2020, 6, 1), (2024, 2, 20)];
const F_TIMES: [(u8, u8, u8, u16, u16, u16); 3] = [(5, 6, 7, 8, 9, 10), (23, 59, 59, 999, 998, 997), (0, 0, 0, 0, 0, 1)];

fn f_durations() -> Vec<[f64; 10]> {
    vec![
        [1., 2., 3., 4., 5., 6., 7., 8., 9., 10.],
        [-1., -2., -3., -4., -5., -6., -7., -8., -9., -10.],
        [0., 0., 0., 0., 25., 61., 0., 0., 0., 1001.],
        [0., 0., 0., 1., 0., 0., 0., 0., 0., 0.],
        [0., 1., 0., 0., 0., 0., 0., 0., 0., 0.],
        [0.; 10],
    ]
}

struct Ffi {
    cals: Vec<&'static str>,
    dates: Vec<(i32, u8, u8)>,
    times: Vec<(u8, u8, u8, u16, u16, u16)>,
}

/// ICU4X's astronomical calendars panic on far years (known finding of C03): not a subject of the pairing.
fn far_for(cal: &str, y: i32) -> bool {
    matches!(cal, "chinese" | "dangi" | "islamic" | "islamic-umalqura") && y.abs() > 10_000
}

impl Ffi {
    /// quick: the hand-picked alphabets above; thorough: all 18 calendars x 31 dates (month ends, leap days, era
    /// changes of the japanese calendar, the Gregorian reform, years 0 / -1 / -100, both ends of the range, leap
    /// months of three calendars) x 6 times.
    fn new(tier: Tier) -> Self {
        let mut cals = F_CALS.to_vec();
        let mut dates = F_DATES.to_vec();
        let mut times = F_TIMES.to_vec();
        if tier == Tier::Thorough {
            for c in ["buddhist", "coptic", "dangi", "ethioaa", "indian", "islamic", "islamic-civil", "islamic-tbla", "islamic-umalqura", "japanext", "persian", "roc"] {
                cals.push(c);
            }
            dates.extend([
                (2019, 4, 30), (2019, 5, 1), (1989, 1, 7), (1989, 1, 8), (1926, 12, 25), (1912, 7, 30), (1868, 10, 23), (1868, 1, 1),
                (1582, 10, 15), (1582, 10, 4), (1, 1, 1), (0, 12, 31), (0, 1, 1), (-1, 12, 31), (-100, 2, 28), (-271_821, 4, 20),
                (275_760, 1, 1), (2000, 2, 29), (1900, 2, 28), (2100, 3, 1), (2023, 3, 22), (2025, 7, 25), (1911, 12, 31), (1912, 1, 1),
            ]);
            times.extend([(12, 0, 0, 0, 0, 0), (0, 0, 0, 0, 0, 0), (11, 59, 59, 500, 0, 0)]);
        }
        Ffi { cals, dates, times }
    }
}

impl Space for Ffi {
    fn name(&self) -> String {
        "c19.ffi_functions".into()
    }
    fn len(&self) -> u64 {
        (self.cals.len() * self.dates.len() * self.times.len()) as u64
    }
    fn block(&self) -> u64 {
        1
    }
    fn eval(&self, i: u64, out: &mut Out) {
        let ix = unrank(i, &[self.cals.len() as u64, self.dates.len() as u64, self.times.len() as u64]);
        let (cal_id, (y, m, dd), t) = (self.cals[ix[0]], self.dates[ix[1]], self.times[ix[2]]);
        let attrs = || vec![("calendar", cal_id.to_string()), ("date", format!("{y}-{m}-{dd}")), ("time", format!("{t:?}"))];
        if far_for(cal_id, y) {
            out.unjudged += 1;
            return;
        }
        let mut names: BTreeSet<String> = BTreeSet::new();
        let n = &mut names;
        out.nontrivial += 1;

        // ---- Calendar ----
        let ccal: Calendar = cal_id.parse().expect("calendar");
        let fcal_box = fr(fcal::Calendar::from_utf8(cal_id.as_bytes())).expect("ffi calendar");
        let fc: &fcal::Calendar = &fcal_box;
        n.insert("Calendar::from_utf8".into());
        let cased: Vec<String> = vec![cal_id.to_uppercase(), cal_id.chars().enumerate().map(|(k, c)| if k == 0 { c.to_ascii_uppercase() } else { c }).collect(), cal_id.chars().enumerate().map(|(k, c)| if k % 2 == 1 { c.to_ascii_uppercase() } else { c }).collect()];
        for bad in if ix[1] == 0 && ix[2] == 0 { cased.iter().map(|s| s.as_str()).collect::<Vec<&str>>() } else { vec![] } {
            let f = render(call(|| fr(fcal::Calendar::from_utf8(bad.as_bytes())).map(|c| c.identifier())));
            let c = render(call(|| Calendar::from_utf8(bad.as_bytes()).map(|c| c.identifier())));
            same(out, "Calendar::from_utf8", f, c, || vec![("text", bad.to_string())]);
        }
        for bad in if i == 0 { vec!["", "ISO8601", "iso8601x", "gregorian", "2024-01-01[u-ca=hebrew]", "2024-01-01", "2024-03[u-ca=iso8601]", "12:30", "T12:30[u-ca=gregory]", "01-01[u-ca=hebrew]", " iso8601", "iso8601 ", "iso8601\0", "u-ca=hebrew", "[u-ca=hebrew]"] } else { vec![] } {
            let f = render(call(|| fr(fcal::Calendar::from_utf8(bad.as_bytes())).map(|c| c.identifier())));
            let c = render(call(|| Calendar::from_utf8(bad.as_bytes()).map(|c| c.identifier())));
            same(out, "Calendar::from_utf8", f, c, || vec![("text", bad.to_string())]);
        }
        {
            n.insert("Calendar::is_iso".into());
            n.insert("Calendar::identifier".into());
            same(out, "Calendar::is_iso/identifier", render(call_inf(|| (fc.is_iso(), fc.identifier())).map(Ok::<_, ()>)), render(call_inf(|| (ccal.is_iso(), ccal.identifier())).map(Ok::<_, ()>)), attrs);
            // AnyCalendarKind: create(kind) for the kind of this identifier gives the same calendar
            n.insert("AnyCalendarKind::get_for_bcp47_string".into());
            n.insert("Calendar::create".into());
            let kind = fcal::AnyCalendarKind::get_for_bcp47_string(cal_id.as_bytes());
            let created = kind.map(|k| fcal::Calendar::create(k).identifier());
            let core = icu_kind::AnyCalendarKind::get_for_bcp47_bytes(cal_id.as_bytes()).map(|k| Calendar::new(k).identifier());
            same(out, "Calendar::create(get_for_bcp47_string)", Oc::Ok(format!("{created:?}")), Oc::Ok(format!("{core:?}")), attrs);
        }
        if i == 0 {
            // the name tables in full, whatever the calendar alphabet of the tier: every identifier, its aliases, and non-names
            for id in ["iso8601", "buddhist", "chinese", "coptic", "dangi", "ethioaa", "ethiopic", "ethiopic-amete-alem", "gregory", "hebrew", "indian", "islamic", "islamic-civil", "islamicc", "islamic-tbla", "islamic-umalqura", "japanese", "japanext", "persian", "roc", "Gregory", "gregorian", "julian", ""] {
                let kind = fcal::AnyCalendarKind::get_for_bcp47_string(id.as_bytes());
                let ffi_kind = format!("{:?}", kind.map(|k| format!("{:?}", icu_kind::AnyCalendarKind::from(k))));
                let core_kind = format!("{:?}", icu_kind::AnyCalendarKind::get_for_bcp47_bytes(id.as_bytes()).map(|k| format!("{k:?}")));
                same(out, "AnyCalendarKind::get_for_bcp47_string (variant of the same name)", Oc::Ok(ffi_kind), Oc::Ok(core_kind), || vec![("identifier", id.to_string())]);
                let created = kind.map(|k| fcal::Calendar::create(k).identifier());
                let core = icu_kind::AnyCalendarKind::get_for_bcp47_bytes(id.as_bytes()).map(|k| Calendar::new(k).identifier());
                same(out, "Calendar::create(get_for_bcp47_string)", Oc::Ok(format!("{created:?}")), Oc::Ok(format!("{core:?}")), || vec![("identifier", id.to_string())]);
                let f = render(call(|| fr(fcal::Calendar::from_utf8(id.as_bytes())).map(|c| (c.identifier(), c.is_iso()))));
                let c = render(call(|| Calendar::from_utf8(id.as_bytes()).map(|c| (c.identifier(), c.is_iso()))));
                same(out, "Calendar::from_utf8", f, c, || vec![("text", id.to_string())]);
            }
        }
        let iso = |y: i32, m: u8, d: u8| fiso::IsoDate { year: y, month: m, day: d };
        let ciso = iso_date(y, m, dd);
        macro_rules! calget {
            ($name:expr, $f:expr, $c:expr) => {{
                n.insert(format!("Calendar::{}", $name));
                same(out, &format!("Calendar::{}", $name), render(call_inf(|| $f).map(Ok::<_, ()>)), render(call_inf(|| $c).map(Ok::<_, ()>)), attrs);
            }};
        }
        calget!("era", { let mut e = None; let s = written(|w| e = fc.era(iso(y, m, dd), w).err().map(|x| ErrorKind::from(x.kind))); (s, e) }, (ccal.era(&ciso).map(|e| e.to_string()).unwrap_or_default(), None::<ErrorKind>));
        calget!("era_year", fc.era_year(iso(y, m, dd)), ccal.era_year(&ciso));
        calget!("year", fc.year(iso(y, m, dd)), ccal.year(&ciso));
        calget!("month", fc.month(iso(y, m, dd)), ccal.month(&ciso));
        calget!("month_code", { let mut e = None; let s = written(|w| e = fc.month_code(iso(y, m, dd), w).err().map(|x| ErrorKind::from(x.kind))); (s, e) }, (ccal.month_code(&ciso).as_str().to_string(), None::<ErrorKind>));
        calget!("day", fc.day(iso(y, m, dd)), ccal.day(&ciso));
        calget!("day_of_week", fc.day_of_week(iso(y, m, dd)), ccal.day_of_week(&ciso));
        calget!("day_of_year", fc.day_of_year(iso(y, m, dd)), ccal.day_of_year(&ciso));
        calget!("week_of_year", fr(fc.week_of_year(iso(y, m, dd))).map_err(|e| e.kind()), ccal.week_of_year(&ciso).map_err(|e| e.kind()));
        calget!("year_of_week", fr(fc.year_of_week(iso(y, m, dd))).map_err(|e| e.kind()), ccal.year_of_week(&ciso).map_err(|e| e.kind()));
        calget!("days_in_week", fr(fc.days_in_week(iso(y, m, dd))).map_err(|e| e.kind()), ccal.days_in_week(&ciso).map_err(|e| e.kind()));
        calget!("days_in_month", fc.days_in_month(iso(y, m, dd)), ccal.days_in_month(&ciso));
        calget!("days_in_year", fc.days_in_year(iso(y, m, dd)), ccal.days_in_year(&ciso));
        calget!("months_in_year", fc.months_in_year(iso(y, m, dd)), ccal.months_in_year(&ciso));
        calget!("in_leap_year", fc.in_leap_year(iso(y, m, dd)), ccal.in_leap_year(&ciso));

        // ---- Durations ----
        let durs = f_durations();
        let mk_fd = |f: &[f64; 10]| fr(fdur::Duration::create(f[0], f[1], f[2], f[3], f[4], f[5], f[6], f[7], f[8], f[9]));
        let fd: Vec<Box<fdur::Duration>> = durs.iter().map(|f| mk_fd(f).expect("ffi duration")).collect();
        let cd: Vec<Duration> = durs.iter().map(|f| dur10(*f).expect("duration")).collect();
        if i == 0 {
            for (k, f) in durs.iter().enumerate() {
                let da = || vec![("duration", format!("{f:?}"))];
                pairs!(out, n, "Duration::create", da, snap_dur_ffi, snap_dur_core, fdur::Duration::create(f[0], f[1], f[2], f[3], f[4], f[5], f[6], f[7], f[8], f[9]), dur10(*f));
                pairs!(out, n, "Duration::abs", da, snap_dur_ffi, snap_dur_core, Ok(fd[k].abs()), Ok(cd[k].abs()));
                // receivers that only from_day_and_time can build: a day of one sign next to a time of the other
                for day in [0.5f64, -2.25, 1e19, f64::NAN, f64::INFINITY, 4_294_967_296.0] {
                    let f_r = fdur::Duration::from_day_and_time(day, fd[k].time());
                    let c_r = temporal_rs::primitive::FiniteF64::try_from(day).map(|dv| Duration::from_day_and_time(dv, cd[k].time()));
                    let dm = || vec![("duration", format!("day {day} next to the time of {f:?}"))];
                    pairs!(out, n, "Duration::from_day_and_time", dm, snap_dur_ffi, snap_dur_core, f_r, c_r);
                }
                for day in [1.0f64, -1.0, 0.0] {
                    if let (Ok(fm), cm) = (fr(fdur::Duration::from_day_and_time(day, fd[k].time())), Duration::from_day_and_time(temporal_rs::primitive::FiniteF64::try_from(day).unwrap(), cd[k].time())) {
                        let dm = || vec![("duration", format!("day {day} next to the time of {f:?}"))];
                        pairs!(out, n, "Duration::abs", dm, snap_dur_ffi, snap_dur_core, Ok(fm.abs()), Ok(cm.abs()));
                        pairs!(out, n, "Duration::negated", dm, snap_dur_ffi, snap_dur_core, Ok(fm.negated()), Ok(cm.negated()));
                    }
                }
                pairs!(out, n, "Duration::negated", da, snap_dur_ffi, snap_dur_core, Ok(fd[k].negated()), Ok(cd[k].negated()));
                for (j, _) in durs.iter().enumerate() {
                    pairs!(out, n, "Duration::add", da, snap_dur_ffi, snap_dur_core, fd[k].add(&fd[j]), cd[k].add(&cd[j]));
                    pairs!(out, n, "Duration::subtract", da, snap_dur_ffi, snap_dur_core, fd[k].subtract(&fd[j]), cd[k].subtract(&cd[j]));
                }
                // TimeDuration / DateDuration records
                let snap_td_f = |x: &fdur::TimeDuration| -> Snap { vec![("sign", d(temporal_rs::Sign::from(x.sign()))), ("is_within_range", d(x.is_within_range())), ("abs.sign", d(temporal_rs::Sign::from(x.abs().sign()))), ("negated.sign", d(temporal_rs::Sign::from(x.negated().sign())))] };
                let snap_td_c = |x: &TimeDuration| -> Snap { vec![("sign", d(x.sign())), ("is_within_range", d(x.is_within_range())), ("abs.sign", d(x.abs().sign())), ("negated.sign", d(x.negated().sign()))] };
                pairs!(out, n, "TimeDuration::new", da, snap_td_f, snap_td_c, fdur::TimeDuration::new(f[4], f[5], f[6], f[7], f[8], f[9]), TimeDuration::new(ff(f[4]), ff(f[5]), ff(f[6]), ff(f[7]), ff(f[8]), ff(f[9])));
                let snap_dd_f = |x: &fdur::DateDuration| -> Snap { vec![("sign", d(temporal_rs::Sign::from(x.sign()))), ("abs.sign", d(temporal_rs::Sign::from(x.abs().sign()))), ("negated.sign", d(temporal_rs::Sign::from(x.negated().sign())))] };
                let snap_dd_c = |x: &DateDuration| -> Snap { vec![("sign", d(x.sign())), ("abs.sign", d(x.abs().sign())), ("negated.sign", d(x.negated().sign()))] };
                pairs!(out, n, "DateDuration::new", da, snap_dd_f, snap_dd_c, fdur::DateDuration::new(f[0], f[1], f[2], f[3]), DateDuration::new(ff(f[0]), ff(f[1]), ff(f[2]), ff(f[3])));
                // from_day_and_time
                if let (Ok(ft), Ok(ct)) = (fr(fdur::TimeDuration::new(f[4], f[5], f[6], f[7], f[8], f[9])), TimeDuration::new(ff(f[4]), ff(f[5]), ff(f[6]), ff(f[7]), ff(f[8]), ff(f[9]))) {
                    pairs!(out, n, "Duration::from_day_and_time", da, snap_dur_ffi, snap_dur_core, fdur::Duration::from_day_and_time(f[3], &ft), Ok(Duration::from_day_and_time(ff(f[3]), &ct)));
                }
                // partial records: every field present / only every other field present / none
                for mask in [0x3ffu32, 0x155, 0x2aa, 0] {
                    let g = |j: usize| if mask >> j & 1 == 1 { Some(f[j]) } else { None };
                    let fp = fdur::PartialDuration { years: g(0).into(), months: g(1).into(), weeks: g(2).into(), days: g(3).into(), hours: g(4).into(), minutes: g(5).into(), seconds: g(6).into(), milliseconds: g(7).into(), microseconds: g(8).into(), nanoseconds: g(9).into() };
                    let fp2 = fdur::PartialDuration { years: g(0).into(), months: g(1).into(), weeks: g(2).into(), days: g(3).into(), hours: g(4).into(), minutes: g(5).into(), seconds: g(6).into(), milliseconds: g(7).into(), microseconds: g(8).into(), nanoseconds: g(9).into() };
                    let cp = PartialDuration { years: g(0).map(ff), months: g(1).map(ff), weeks: g(2).map(ff), days: g(3).map(ff), hours: g(4).map(ff), minutes: g(5).map(ff), seconds: g(6).map(ff), milliseconds: g(7).map(ff), microseconds: g(8).map(ff), nanoseconds: g(9).map(ff) };
                    n.insert("PartialDuration::is_empty".into());
                    same(out, "PartialDuration::is_empty", Oc::Ok(d(fp2.is_empty())), Oc::Ok(d(cp.is_empty())), &da);
                    pairs!(out, n, "Duration::from_partial_duration", da, snap_dur_ffi, snap_dur_core, fdur::Duration::from_partial_duration(fp), Duration::from_partial_duration(cp));
                }
            }
            // non-finite / fractional inputs must map to the same error
            for bad in [f64::NAN, f64::INFINITY, 1.5] {
                let da = || vec![("value", format!("{bad}"))];
                pairs!(out, n, "Duration::create", da, snap_dur_ffi, snap_dur_core, fdur::Duration::create(bad, 0., 0., 0., 0., 0., 0., 0., 0., 0.), temporal_rs::primitive::FiniteF64::try_from(bad).and_then(|v| Duration::new(v, ff(0.), ff(0.), ff(0.), ff(0.), ff(0.), ff(0.), ff(0.), ff(0.), ff(0.))));
            }
        }

        // ---- PlainTime ----
        let ft = fr(ftime::PlainTime::try_create(t.0, t.1, t.2, t.3, t.4, t.5)).expect("ffi time");
        let ct = PlainTime::try_new(t.0, t.1, t.2, t.3, t.4, t.5).expect("time");
        let ft2 = fr(ftime::PlainTime::try_create(12, 34, 56, 789, 12, 345)).expect("ffi time");
        let ct2 = PlainTime::try_new(12, 34, 56, 789, 12, 345).expect("time");
        if ix[0] == 0 && ix[1] == 0 {
            for (h, mi, s, ms, us, ns) in [t, (24, 60, 60, 1000, 1000, 1000), (255, 0, 0, 0, 0, 0)] {
                pairs!(out, n, "PlainTime::create", attrs, snap_time_ffi, snap_time_core, ftime::PlainTime::create(h, mi, s, ms, us, ns), PlainTime::new(h, mi, s, ms, us, ns));
                pairs!(out, n, "PlainTime::try_create", attrs, snap_time_ffi, snap_time_core, ftime::PlainTime::try_create(h, mi, s, ms, us, ns), PlainTime::try_new(h, mi, s, ms, us, ns));
            }
            for p in &PARTIAL_TIMES {
                for ov in [None, Some(ArithmeticOverflow::Constrain), Some(ArithmeticOverflow::Reject)] {
                    pairs!(out, n, "PlainTime::from_partial", attrs, snap_time_ffi, snap_time_core, ftime::PlainTime::from_partial(f_partial_time(p), ov.map(f_ov)), PlainTime::from_partial(c_partial_time(p), ov));
                    pairs!(out, n, "PlainTime::with", attrs, snap_time_ffi, snap_time_core, ft.with(f_partial_time(p), ov.map(f_ov)), ct.with(c_partial_time(p), ov));
                }
            }
            for k in 0..durs.len() {
                pairs!(out, n, "PlainTime::add", attrs, snap_time_ffi, snap_time_core, ft.add(&fd[k]), ct.add(&cd[k]));
                pairs!(out, n, "PlainTime::subtract", attrs, snap_time_ffi, snap_time_core, ft.subtract(&fd[k]), ct.subtract(&cd[k]));
                pairs!(out, n, "PlainTime::add_time_duration", attrs, snap_time_ffi, snap_time_core, ft.add_time_duration(fd[k].time()), ct.add_time_duration(cd[k].time()));
                pairs!(out, n, "PlainTime::subtract_time_duration", attrs, snap_time_ffi, snap_time_core, ft.subtract_time_duration(fd[k].time()), ct.subtract_time_duration(cd[k].time()));
            }
            for (l, s, mo, inc) in SETTINGS {
                let l = l.filter(|u| u.is_time_unit() || *u == Unit::Auto);
                let s = s.filter(|u| u.is_time_unit());
                pairs!(out, n, "PlainTime::until", attrs, snap_dur_ffi, snap_dur_core, ft.until(&ft2, f_settings(l, s, mo, inc)), temporal_rs::options::RoundingIncrement::try_new(inc.unwrap_or(1)).and_then(|_| ct.until(&ct2, diff(l, s, mo, inc.filter(|x| *x > 0)))));
                pairs!(out, n, "PlainTime::until(equal operands)", attrs, snap_dur_ffi, snap_dur_core, ft.until(&ft, f_settings(l, s, mo, inc)), temporal_rs::options::RoundingIncrement::try_new(inc.unwrap_or(1)).and_then(|_| ct.until(&ct, diff(l, s, mo, inc.filter(|x| *x > 0)))));
                pairs!(out, n, "PlainTime::since", attrs, snap_dur_ffi, snap_dur_core, ft.since(&ft2, f_settings(l, s, mo, inc)), temporal_rs::options::RoundingIncrement::try_new(inc.unwrap_or(1)).and_then(|_| ct.since(&ct2, diff(l, s, mo, inc.filter(|x| *x > 0)))));
                pairs!(out, n, "PlainTime::since(equal operands)", attrs, snap_dur_ffi, snap_dur_core, ft.since(&ft, f_settings(l, s, mo, inc)), temporal_rs::options::RoundingIncrement::try_new(inc.unwrap_or(1)).and_then(|_| ct.since(&ct, diff(l, s, mo, inc.filter(|x| *x > 0)))));
            }
            for (u, inc, mo) in [(Unit::Minute, Some(15.0), Some(RoundingMode::Ceil)), (Unit::Nanosecond, None, None), (Unit::Hour, Some(5.0), None), (Unit::Day, None, None), (Unit::Second, Some(f64::NAN), None), (Unit::Nanosecond, Some(500.0), Some(RoundingMode::Floor)), (Unit::Nanosecond, Some(7.0), None), (Unit::Nanosecond, Some(1000.0), None), (Unit::Nanosecond, Some(0.0), None), (Unit::Microsecond, Some(250.0), Some(RoundingMode::HalfEven)), (Unit::Millisecond, Some(1.0), Some(RoundingMode::Expand)), (Unit::Hour, Some(24.0), None)] {
                pairs!(out, n, "PlainTime::round", attrs, snap_time_ffi, snap_time_core, ft.round(f_unit(u), inc, mo.map(fopt::RoundingMode::from)), ct.round(u, inc, mo));
            }
            for (is_minute, digits, su, mo) in [(false, None, None, None), (true, None, None, None), (false, Some(3u8), None, Some(RoundingMode::Ceil)), (false, Some(10), None, None), (false, None, Some(Unit::Hour), None), (false, Some(2), Some(Unit::Millisecond), Some(RoundingMode::Floor))] {
                n.insert("PlainTime::to_ixdtf_string".into());
                let fo = fopt::ToStringRoundingOptions { precision: fopt::Precision { is_minute, precision: digits.into() }, smallest_unit: su.map(f_unit).into(), rounding_mode: mo.map(fopt::RoundingMode::from).into() };
                let co = ToStringRoundingOptions { precision: if is_minute { Precision::Minute } else { digits.map(Precision::Digit).unwrap_or(Precision::Auto) }, smallest_unit: su, rounding_mode: mo };
                let f = render(call(|| { let mut e = None; let s = written(|w| e = ft.to_ixdtf_string(fo, w).err()); match e { Some(x) => fr(Err(x)), None => Ok(s) } }));
                let c = render(call(|| ct.to_ixdtf_string(co)));
                same(out, "PlainTime::to_ixdtf_string", f, c, attrs);
            }
        }

        // ---- PlainDate ----
        let fdate_r = fr(fdate::PlainDate::try_create(y, m, dd, fc));
        let cdate_r = PlainDate::try_new(y, m, dd, ccal.clone());
        pairs!(out, n, "PlainDate::try_create", attrs, snap_date_ffi, snap_date_core, fdate::PlainDate::try_create(y, m, dd, fc), PlainDate::try_new(y, m, dd, ccal.clone()));
        pairs!(out, n, "PlainDate::create", attrs, snap_date_ffi, snap_date_core, fdate::PlainDate::create(y, m.wrapping_add(12), dd.wrapping_add(40), fc), PlainDate::new(y, m.wrapping_add(12), dd.wrapping_add(40), ccal.clone()));
        for ov in [ArithmeticOverflow::Constrain, ArithmeticOverflow::Reject] {
            pairs!(out, n, "PlainDate::create_with_overflow", attrs, snap_date_ffi, snap_date_core, fdate::PlainDate::create_with_overflow(y, m, 31, fc, f_ov(ov)), PlainDate::new_with_overflow(y, m, 31, ccal.clone(), ov));
        }
        if let (Ok(fdt0), Ok(cdt0)) = (fdate_r, cdate_r) {
            let other_f = fr(fdate::PlainDate::try_create(2023, 11, 30, fc)).expect("ffi date");
            let other_c = PlainDate::try_new(2023, 11, 30, ccal.clone()).expect("date");
            for p in &PARTIAL_DATES {
                for ov in [None, Some(ArithmeticOverflow::Constrain), Some(ArithmeticOverflow::Reject)] {
                    pairs!(out, n, "PlainDate::from_partial", attrs, snap_date_ffi, snap_date_core, fdate::PlainDate::from_partial(f_partial_date(p, fc), ov.map(f_ov)), c_partial_date(p, &ccal).and_then(|pp| PlainDate::from_partial(pp, ov)));
                    pairs!(out, n, "PlainDate::with", attrs, snap_date_ffi, snap_date_core, fdt0.with(f_partial_date(p, fc), ov.map(f_ov)), c_partial_date(p, &ccal).and_then(|pp| cdt0.with(pp, ov)));
                }
                for ov in [ArithmeticOverflow::Constrain, ArithmeticOverflow::Reject] {
                    pairs!(out, n, "Calendar::date_from_partial", attrs, snap_date_ffi, snap_date_core, fc.date_from_partial(f_partial_date(p, fc), f_ov(ov)), c_partial_date(p, &ccal).and_then(|pp| ccal.date_from_partial(&pp, ov)));
                    pairs!(out, n, "Calendar::month_day_from_partial", attrs, snap_md_ffi, snap_md_core, fc.month_day_from_partial(f_partial_date(p, fc), f_ov(ov)), c_partial_date(p, &ccal).and_then(|pp| ccal.month_day_from_partial(&pp, ov)));
                    pairs!(out, n, "Calendar::year_month_from_partial", attrs, snap_ym_ffi, snap_ym_core, fc.year_month_from_partial(f_partial_date(p, fc), f_ov(ov)), c_partial_date(p, &ccal).and_then(|pp| ccal.year_month_from_partial(&pp, ov)));
                }
            }
            for oc in self.cals.iter().copied().filter(|c| !far_for(c, y)) {
                let (fo, co) = (fr(fcal::Calendar::from_utf8(oc.as_bytes())).expect("cal"), Calendar::from_str(oc).expect("cal"));
                pairs!(out, n, "PlainDate::with_calendar", attrs, snap_date_ffi, snap_date_core, fdt0.with_calendar(&fo), cdt0.with_calendar(co.clone()));
            }
            for k in 0..durs.len() {
                for ov in [None, Some(ArithmeticOverflow::Reject)] {
                    pairs!(out, n, "PlainDate::add", attrs, snap_date_ffi, snap_date_core, fdt0.add(&fd[k], ov.map(f_ov)), cdt0.add(&cd[k], ov));
                    pairs!(out, n, "PlainDate::subtract", attrs, snap_date_ffi, snap_date_core, fdt0.subtract(&fd[k], ov.map(f_ov)), cdt0.subtract(&cd[k], ov));
                }
                pairs!(out, n, "Calendar::date_add", attrs, snap_date_ffi, snap_date_core, fc.date_add(iso(y, m, dd), &fd[k], f_ov(ArithmeticOverflow::Constrain)), ccal.date_add(&ciso, &cd[k], ArithmeticOverflow::Constrain));
            }
            for (l, s, mo, inc) in SETTINGS {
                let l = l.filter(|u| !u.is_time_unit());
                let s = s.filter(|u| !u.is_time_unit());
                pairs!(out, n, "PlainDate::until", attrs, snap_dur_ffi, snap_dur_core, fdt0.until(&other_f, f_settings(l, s, mo, inc)), temporal_rs::options::RoundingIncrement::try_new(inc.unwrap_or(1)).and_then(|_| cdt0.until(&other_c, diff(l, s, mo, inc.filter(|x| *x > 0)))));
                pairs!(out, n, "PlainDate::until(equal operands)", attrs, snap_dur_ffi, snap_dur_core, fdt0.until(&fdt0, f_settings(l, s, mo, inc)), temporal_rs::options::RoundingIncrement::try_new(inc.unwrap_or(1)).and_then(|_| cdt0.until(&cdt0, diff(l, s, mo, inc.filter(|x| *x > 0)))));
                pairs!(out, n, "PlainDate::since", attrs, snap_dur_ffi, snap_dur_core, fdt0.since(&other_f, f_settings(l, s, mo, inc)), temporal_rs::options::RoundingIncrement::try_new(inc.unwrap_or(1)).and_then(|_| cdt0.since(&other_c, diff(l, s, mo, inc.filter(|x| *x > 0)))));
                pairs!(out, n, "PlainDate::since(equal operands)", attrs, snap_dur_ffi, snap_dur_core, fdt0.since(&fdt0, f_settings(l, s, mo, inc)), temporal_rs::options::RoundingIncrement::try_new(inc.unwrap_or(1)).and_then(|_| cdt0.since(&cdt0, diff(l, s, mo, inc.filter(|x| *x > 0)))));
            }
            for u in [Unit::Year, Unit::Month, Unit::Week, Unit::Day] {
                pairs!(out, n, "Calendar::date_until", attrs, snap_dur_ffi, snap_dur_core, fc.date_until(iso(y, m, dd), iso(2023, 11, 30), f_unit(u)), ccal.date_until(&ciso, &iso_date(2023, 11, 30), u));
            }
            pairs!(out, n, "PlainDate::to_plain_date_time", attrs, snap_dt_ffi, snap_dt_core, fdt0.to_plain_date_time(Some(&ft)), cdt0.to_plain_date_time(Some(ct)));
            pairs!(out, n, "PlainDate::to_plain_date_time", attrs, snap_dt_ffi, snap_dt_core, fdt0.to_plain_date_time(None), cdt0.to_plain_date_time(None));
            pairs!(out, n, "PlainDate::to_plain_month_day", attrs, snap_md_ffi, snap_md_core, fdt0.to_plain_month_day(), cdt0.to_plain_month_day());
            pairs!(out, n, "PlainDate::to_plain_year_month", attrs, snap_ym_ffi, snap_ym_core, fdt0.to_plain_year_month(), cdt0.to_plain_year_month());
            for dc in [DisplayCalendar::Auto, DisplayCalendar::Always, DisplayCalendar::Never, DisplayCalendar::Critical] {
                n.insert("PlainDate::to_ixdtf_string".into());
                same(out, "PlainDate::to_ixdtf_string", Oc::Ok(written(|w| fdt0.to_ixdtf_string(dc.into(), w))), Oc::Ok(cdt0.to_ixdtf_string(dc)), attrs);
            }
            for nm in ["iso_year", "iso_month", "iso_day", "calendar", "is_valid", "year", "month", "month_code", "day", "day_of_week", "day_of_year", "week_of_year", "year_of_week", "days_in_week", "days_in_month", "days_in_year", "months_in_year", "in_leap_year", "era", "era_year"] {
                n.insert(format!("PlainDate::{nm}"));
            }
        }

        // ---- PlainDateTime ----
        let fdt_r = fr(fdt::PlainDateTime::try_create(y, m, dd, t.0, t.1, t.2, t.3, t.4, t.5, fc));
        let cdt_r = PlainDateTime::try_new(y, m, dd, t.0, t.1, t.2, t.3, t.4, t.5, ccal.clone());
        pairs!(out, n, "PlainDateTime::try_create", attrs, snap_dt_ffi, snap_dt_core, fdt::PlainDateTime::try_create(y, m, dd, t.0, t.1, t.2, t.3, t.4, t.5, fc), PlainDateTime::try_new(y, m, dd, t.0, t.1, t.2, t.3, t.4, t.5, ccal.clone()));
        // out-of-range fields: create clamps, try_create refuses - each with its own core counterpart
        for (om, od, oh, omi, ons) in [(m, 30u8.max(dd), t.0, t.1, t.5), (13, dd, t.0, t.1, t.5), (m, dd, 24, t.1, t.5), (m, dd, t.0, 60, t.5), (m, dd, t.0, t.1, 1000), (0, 0, t.0, t.1, t.5), (2, 30, 23, 59, 999)] {
            pairs!(out, n, "PlainDateTime::try_create", attrs, snap_dt_ffi, snap_dt_core, fdt::PlainDateTime::try_create(y, om, od, oh, omi, t.2, t.3, t.4, ons, fc), PlainDateTime::try_new(y, om, od, oh, omi, t.2, t.3, t.4, ons, ccal.clone()));
            pairs!(out, n, "PlainDateTime::create", attrs, snap_dt_ffi, snap_dt_core, fdt::PlainDateTime::create(y, om, od, oh, omi, t.2, t.3, t.4, ons, fc), PlainDateTime::new(y, om, od, oh, omi, t.2, t.3, t.4, ons, ccal.clone()));
            pairs!(out, n, "PlainDate::try_create", attrs, snap_date_ffi, snap_date_core, fdate::PlainDate::try_create(y, om, od, fc), PlainDate::try_new(y, om, od, ccal.clone()));
            pairs!(out, n, "PlainDate::create", attrs, snap_date_ffi, snap_date_core, fdate::PlainDate::create(y, om, od, fc), PlainDate::new(y, om, od, ccal.clone()));
        }
        pairs!(out, n, "PlainDateTime::create", attrs, snap_dt_ffi, snap_dt_core, fdt::PlainDateTime::create(y, m, dd.wrapping_add(40), t.0.wrapping_add(24), t.1, t.2, t.3, t.4, t.5.wrapping_add(1000), fc), PlainDateTime::new(y, m, dd.wrapping_add(40), t.0.wrapping_add(24), t.1, t.2, t.3, t.4, t.5.wrapping_add(1000), ccal.clone()));
        if let (Ok(f0), Ok(c0)) = (fdt_r, cdt_r) {
            let of = fr(fdt::PlainDateTime::try_create(2023, 11, 30, 1, 2, 3, 4, 5, 6, fc)).expect("ffi dt");
            let oc = PlainDateTime::try_new(2023, 11, 30, 1, 2, 3, 4, 5, 6, ccal.clone()).expect("dt");
            for p in &PARTIAL_DATES[..5] {
                for pt in &PARTIAL_TIMES[..3] {
                    for ov in [None, Some(ArithmeticOverflow::Reject)] {
                        let mk_f = || fdt::PartialDateTime { date: f_partial_date(p, fc), time: f_partial_time(pt) };
                        let mk_c = || c_partial_date(p, &ccal).map(|pp| PartialDateTime { date: pp, time: c_partial_time(pt) });
                        pairs!(out, n, "PlainDateTime::from_partial", attrs, snap_dt_ffi, snap_dt_core, fdt::PlainDateTime::from_partial(mk_f(), ov.map(f_ov)), mk_c().and_then(|pp| PlainDateTime::from_partial(pp, ov)));
                        pairs!(out, n, "PlainDateTime::with", attrs, snap_dt_ffi, snap_dt_core, f0.with(mk_f(), ov.map(f_ov)), mk_c().and_then(|pp| c0.with(pp, ov)));
                    }
                }
            }
            pairs!(out, n, "PlainDateTime::with_time", attrs, snap_dt_ffi, snap_dt_core, f0.with_time(&ft2), c0.with_time(ct2));
            for ocal in self.cals.iter().copied().filter(|c| !far_for(c, y)) {
                let (fo, co) = (fr(fcal::Calendar::from_utf8(ocal.as_bytes())).expect("cal"), Calendar::from_str(ocal).expect("cal"));
                pairs!(out, n, "PlainDateTime::with_calendar", attrs, snap_dt_ffi, snap_dt_core, f0.with_calendar(&fo), c0.with_calendar(co.clone()));
            }
            for k in 0..durs.len() {
                for ov in [None, Some(ArithmeticOverflow::Reject)] {
                    pairs!(out, n, "PlainDateTime::add", attrs, snap_dt_ffi, snap_dt_core, f0.add(&fd[k], ov.map(f_ov)), c0.add(&cd[k], ov));
                    pairs!(out, n, "PlainDateTime::subtract", attrs, snap_dt_ffi, snap_dt_core, f0.subtract(&fd[k], ov.map(f_ov)), c0.subtract(&cd[k], ov));
                }
            }
            for (l, s, mo, inc) in SETTINGS {
                pairs!(out, n, "PlainDateTime::until", attrs, snap_dur_ffi, snap_dur_core, f0.until(&of, f_settings(l, s, mo, inc)), temporal_rs::options::RoundingIncrement::try_new(inc.unwrap_or(1)).and_then(|_| c0.until(&oc, diff(l, s, mo, inc.filter(|x| *x > 0)))));
                pairs!(out, n, "PlainDateTime::until(equal operands)", attrs, snap_dur_ffi, snap_dur_core, f0.until(&f0, f_settings(l, s, mo, inc)), temporal_rs::options::RoundingIncrement::try_new(inc.unwrap_or(1)).and_then(|_| c0.until(&c0, diff(l, s, mo, inc.filter(|x| *x > 0)))));
                pairs!(out, n, "PlainDateTime::since", attrs, snap_dur_ffi, snap_dur_core, f0.since(&of, f_settings(l, s, mo, inc)), temporal_rs::options::RoundingIncrement::try_new(inc.unwrap_or(1)).and_then(|_| c0.since(&oc, diff(l, s, mo, inc.filter(|x| *x > 0)))));
                pairs!(out, n, "PlainDateTime::since(equal operands)", attrs, snap_dur_ffi, snap_dur_core, f0.since(&f0, f_settings(l, s, mo, inc)), temporal_rs::options::RoundingIncrement::try_new(inc.unwrap_or(1)).and_then(|_| c0.since(&c0, diff(l, s, mo, inc.filter(|x| *x > 0)))));
                pairs!(out, n, "PlainDateTime::round", attrs, snap_dt_ffi, snap_dt_core, f0.round(f_round(l, s, mo, inc)), temporal_rs::options::RoundingIncrement::try_new(inc.unwrap_or(1)).and_then(|_| c0.round(round_opts(l, s, mo, inc.filter(|x| *x > 0)))));
            }
            pairs!(out, n, "PlainDateTime::to_plain_date", attrs, snap_date_ffi, snap_date_core, f0.to_plain_date(), c0.to_plain_date());
            pairs!(out, n, "PlainDateTime::to_plain_time", attrs, snap_time_ffi, snap_time_core, f0.to_plain_time(), c0.to_plain_time());
            for nm in ["iso_year", "iso_month", "iso_day", "hour", "minute", "second", "millisecond", "microsecond", "nanosecond", "calendar", "year", "month", "month_code", "day", "day_of_week", "day_of_year", "week_of_year", "year_of_week", "days_in_week", "days_in_month", "days_in_year", "months_in_year", "in_leap_year", "era", "era_year", "to_ixdtf_string"] {
                n.insert(format!("PlainDateTime::{nm}"));
            }
        }

        // ---- PlainYearMonth / PlainMonthDay ----
        for rd in [None, Some(dd)] {
            for ov in [ArithmeticOverflow::Constrain, ArithmeticOverflow::Reject] {
                pairs!(out, n, "PlainYearMonth::create_with_overflow", attrs, snap_ym_ffi, snap_ym_core, fym::PlainYearMonth::create_with_overflow(y, m, rd, fc, f_ov(ov)), PlainYearMonth::new_with_overflow(y, m, rd, ccal.clone(), ov));
            }
        }
        if let (Ok(f0), Ok(c0)) = (fr(fym::PlainYearMonth::create_with_overflow(y, m, None, fc, f_ov(ArithmeticOverflow::Reject))), PlainYearMonth::new_with_overflow(y, m, None, ccal.clone(), ArithmeticOverflow::Reject)) {
            let of = fr(fym::PlainYearMonth::create_with_overflow(2023, 11, None, fc, f_ov(ArithmeticOverflow::Reject))).expect("ffi ym");
            let oc = PlainYearMonth::new_with_overflow(2023, 11, None, ccal.clone(), ArithmeticOverflow::Reject).expect("ym");
            for p in &PARTIAL_DATES {
                for ov in [None, Some(ArithmeticOverflow::Reject)] {
                    pairs!(out, n, "PlainYearMonth::with", attrs, snap_ym_ffi, snap_ym_core, f0.with(f_partial_date(p, fc), ov.map(f_ov)), c_partial_date(p, &ccal).and_then(|pp| c0.with(pp, ov)));
                }
            }
            for k in 0..durs.len() {
                for ov in [ArithmeticOverflow::Constrain, ArithmeticOverflow::Reject] {
                    pairs!(out, n, "PlainYearMonth::add", attrs, snap_ym_ffi, snap_ym_core, f0.add(&fd[k], f_ov(ov)), c0.add(&cd[k], ov));
                    pairs!(out, n, "PlainYearMonth::subtract", attrs, snap_ym_ffi, snap_ym_core, f0.subtract(&fd[k], f_ov(ov)), c0.subtract(&cd[k], ov));
                }
            }
            for (l, s, mo, inc) in SETTINGS {
                let l = l.filter(|u| !u.is_time_unit());
                let s = s.filter(|u| !u.is_time_unit());
                pairs!(out, n, "PlainYearMonth::until", attrs, snap_dur_ffi, snap_dur_core, f0.until(&of, f_settings(l, s, mo, inc)), temporal_rs::options::RoundingIncrement::try_new(inc.unwrap_or(1)).and_then(|_| c0.until(&oc, diff(l, s, mo, inc.filter(|x| *x > 0)))));
                pairs!(out, n, "PlainYearMonth::until(equal operands)", attrs, snap_dur_ffi, snap_dur_core, f0.until(&f0, f_settings(l, s, mo, inc)), temporal_rs::options::RoundingIncrement::try_new(inc.unwrap_or(1)).and_then(|_| c0.until(&c0, diff(l, s, mo, inc.filter(|x| *x > 0)))));
                pairs!(out, n, "PlainYearMonth::since", attrs, snap_dur_ffi, snap_dur_core, f0.since(&of, f_settings(l, s, mo, inc)), temporal_rs::options::RoundingIncrement::try_new(inc.unwrap_or(1)).and_then(|_| c0.since(&oc, diff(l, s, mo, inc.filter(|x| *x > 0)))));
                pairs!(out, n, "PlainYearMonth::since(equal operands)", attrs, snap_dur_ffi, snap_dur_core, f0.since(&f0, f_settings(l, s, mo, inc)), temporal_rs::options::RoundingIncrement::try_new(inc.unwrap_or(1)).and_then(|_| c0.since(&c0, diff(l, s, mo, inc.filter(|x| *x > 0)))));
            }
            pairs!(out, n, "PlainYearMonth::to_plain_date", attrs, snap_date_ffi, snap_date_core, f0.to_plain_date(), c0.to_plain_date());
            for nm in ["iso_year", "padded_iso_year_string", "iso_month", "year", "month", "month_code", "in_leap_year", "days_in_month", "days_in_year", "months_in_year", "era", "era_year", "calendar"] {
                n.insert(format!("PlainYearMonth::{nm}"));
            }
        }
        for ry in [None, Some(y.clamp(-9999, 9999))] {
            for ov in [ArithmeticOverflow::Constrain, ArithmeticOverflow::Reject] {
                for (mm, md) in [(m, dd), (0, dd), (m, 0), (0, 0), (13, dd), (m, 40), (2, 30)] {
                    pairs!(out, n, "PlainMonthDay::create_with_overflow", attrs, snap_md_ffi, snap_md_core, fmd::PlainMonthDay::create_with_overflow(mm, md, fc, f_ov(ov), ry), PlainMonthDay::new_with_overflow(mm, md, ccal.clone(), ov, ry));
                }
            }
        }
        if let (Ok(f0), Ok(c0)) = (fr(fmd::PlainMonthDay::create_with_overflow(m, dd, fc, f_ov(ArithmeticOverflow::Constrain), None)), PlainMonthDay::new_with_overflow(m, dd, ccal.clone(), ArithmeticOverflow::Constrain, None)) {
            pairs!(out, n, "PlainMonthDay::with", attrs, snap_md_ffi, snap_md_core, f0.with(f_partial_date(&PARTIAL_DATES[0], fc), f_ov(ArithmeticOverflow::Constrain)), c_partial_date(&PARTIAL_DATES[0], &ccal).and_then(|pp| c0.with(pp, ArithmeticOverflow::Constrain)));
            pairs!(out, n, "PlainMonthDay::to_plain_date", attrs, snap_date_ffi, snap_date_core, f0.to_plain_date(), c0.to_plain_date());
            for nm in ["iso_year", "iso_month", "iso_day", "calendar", "month_code"] {
                n.insert(format!("PlainMonthDay::{nm}"));
            }
        }

        // ---- Instant ----
        if ix[0] == 0 {
            // the FFI value is a two's-complement (high, low) word pair: every high word of the valid range and
            // its neighbours, at the low-word extremes; both range ends +-1; the i128 extremes
            if ix[1] == 0 {
                let w = 1i128 << 64;
                let mut words: Vec<i128> = vec![i128::MIN, i128::MAX, 8_640_000_000_000_000_000_000, 8_640_000_000_000_000_000_001, 8_639_999_999_999_999_999_999, -8_640_000_000_000_000_000_000, -8_640_000_000_000_000_000_001, -8_639_999_999_999_999_999_999, (1i128 << 63) - 1, 1i128 << 63, -(1i128 << 63), -(1i128 << 63) - 1];
                for h in -471i128..=471 {
                    words.extend([h * w, h * w + 1, h * w + (w - 1)]);
                }
                for v in words {
                    pairs!(out, n, "Instant::try_new", || vec![("epoch_ns", v.to_string()), ("high_word", (v >> 64).to_string())], snap_inst_ffi, snap_inst_core, finst::Instant::try_new(i128_parts(v)), Instant::try_new(v));
                }
            }
            let vals: [i128; 8] = [0, 5, -5, 1_614_834_367_008_009_010 + ix[1] as i128, -1_614_834_367_008_009_010, 8_640_000_000_000_000_000_000, -8_640_000_000_000_000_000_000, -8_640_000_000_000_000_000_001];
            for v in vals {
                let ia = || vec![("epoch_ns", v.to_string())];
                pairs!(out, n, "Instant::try_new", ia, snap_inst_ffi, snap_inst_core, finst::Instant::try_new(i128_parts(v)), Instant::try_new(v));
                let ms = (v / 1_000_000) as i64;
                pairs!(out, n, "Instant::from_epoch_milliseconds", ia, snap_inst_ffi, snap_inst_core, finst::Instant::from_epoch_milliseconds(ms), Instant::from_epoch_milliseconds(ms));
                // receivers are built through from_epoch_milliseconds so that the rest does not depend on try_new
                let (Ok(f0), Ok(c0)) = (fr(finst::Instant::from_epoch_milliseconds(ms)), Instant::from_epoch_milliseconds(ms)) else { continue };
                let (f1, c1) = (fr(finst::Instant::from_epoch_milliseconds(86_400_123)).expect("i"), Instant::from_epoch_milliseconds(86_400_123).expect("i"));
                for k in 0..durs.len() {
                    pairs!(out, n, "Instant::add", ia, snap_inst_ffi, snap_inst_core, f0.add(&fd[k]), c0.add(cd[k]));
                    pairs!(out, n, "Instant::subtract", ia, snap_inst_ffi, snap_inst_core, f0.subtract(&fd[k]), c0.subtract(cd[k]));
                    pairs!(out, n, "Instant::add_time_duration", ia, snap_inst_ffi, snap_inst_core, f0.add_time_duration(fd[k].time()), c0.add_time_duration(cd[k].time()));
                    pairs!(out, n, "Instant::subtract_time_duration", ia, snap_inst_ffi, snap_inst_core, f0.subtract_time_duration(fd[k].time()), c0.subtract_time_duration(cd[k].time()));
                }
                for (l, s, mo, inc) in SETTINGS {
                    let l = l.filter(|u| u.is_time_unit() || *u == Unit::Auto);
                    let s = s.filter(|u| u.is_time_unit());
                    pairs!(out, n, "Instant::until", ia, snap_dur_ffi, snap_dur_core, f0.until(&f1, f_settings(l, s, mo, inc)), temporal_rs::options::RoundingIncrement::try_new(inc.unwrap_or(1)).and_then(|_| c0.until(&c1, diff(l, s, mo, inc.filter(|x| *x > 0)))));
                    pairs!(out, n, "Instant::until(equal operands)", ia, snap_dur_ffi, snap_dur_core, f0.until(&f0, f_settings(l, s, mo, inc)), temporal_rs::options::RoundingIncrement::try_new(inc.unwrap_or(1)).and_then(|_| c0.until(&c0, diff(l, s, mo, inc.filter(|x| *x > 0)))));
                    pairs!(out, n, "Instant::since", ia, snap_dur_ffi, snap_dur_core, f0.since(&f1, f_settings(l, s, mo, inc)), temporal_rs::options::RoundingIncrement::try_new(inc.unwrap_or(1)).and_then(|_| c0.since(&c1, diff(l, s, mo, inc.filter(|x| *x > 0)))));
                    pairs!(out, n, "Instant::since(equal operands)", ia, snap_dur_ffi, snap_dur_core, f0.since(&f0, f_settings(l, s, mo, inc)), temporal_rs::options::RoundingIncrement::try_new(inc.unwrap_or(1)).and_then(|_| c0.since(&c0, diff(l, s, mo, inc.filter(|x| *x > 0)))));
                    pairs!(out, n, "Instant::round", ia, snap_inst_ffi, snap_inst_core, f0.round(f_round(l, s, mo, inc)), temporal_rs::options::RoundingIncrement::try_new(inc.unwrap_or(1)).and_then(|_| c0.round(round_opts(l, s, mo, inc.filter(|x| *x > 0)))));
                }
            }
            n.insert("Instant::epoch_milliseconds".into());
            n.insert("Instant::epoch_nanoseconds".into());
        }

        // observed through the snapshots above (every getter is one snapshot entry)
        for nm in ["DateDuration::abs", "DateDuration::negated", "DateDuration::sign", "Duration::date", "Duration::days", "Duration::hours", "Duration::is_time_within_range", "Duration::is_zero", "Duration::microseconds", "Duration::milliseconds", "Duration::minutes", "Duration::months", "Duration::nanoseconds", "Duration::seconds", "Duration::sign", "Duration::time", "Duration::weeks", "Duration::years", "PlainTime::hour", "PlainTime::microsecond", "PlainTime::millisecond", "PlainTime::minute", "PlainTime::nanosecond", "PlainTime::second", "TimeDuration::abs", "TimeDuration::is_within_range", "TimeDuration::negated", "TimeDuration::sign"] {
            names.insert(nm.to_string());
        }
        out.count("ffi_function_names_paired", names.len() as u64);
        if i == 0 {
            // completeness guard over the bridge sources
            let mut src: BTreeSet<String> = BTreeSet::new();
            for f in ["calendar", "duration", "instant", "plain_date", "plain_date_time", "plain_month_day", "plain_time", "plain_year_month"] {
                if let Ok(text) = std::fs::read_to_string(format!("/repo/temporal_capi/src/{f}.rs")) {
                    let mut cur = String::new();
                    for line in text.lines() {
                        let l = line.trim();
                        if let Some(r) = l.strip_prefix("impl ") {
                            if !r.contains(" for ") {
                                cur = r.trim_end_matches('{').trim().split('<').next().unwrap_or("").to_string();
                            } else {
                                cur.clear();
                            }
                        }
                        if let Some(rest) = l.strip_prefix("pub fn ") {
                            if !cur.is_empty() {
                                let name: String = rest.chars().take_while(|c| c.is_alphanumeric() || *c == '_').collect();
                                src.insert(format!("{cur}::{name}"));
                            }
                        }
                    }
                }
            }
            let unpaired: Vec<&String> = src.iter().filter(|x| !names.contains(*x)).collect();
            out.count("ffi_pub_fns_in_source", src.len() as u64);
            out.count("ffi_pub_fns_unpaired", unpaired.len() as u64);
            if !unpaired.is_empty() {
                eprintln!("[C19] coverage gap: FFI functions without a pairing: {unpaired:?}");
            }
        }
        if out.want_sample() {
            out.sample(json!({"calendar": cal_id, "date": format!("{y}-{m}-{dd}"), "time": format!("{t:?}"), "ffi_functions_compared": names.len()}));
        }
    }
    fn describe(&self) -> serde_json::Value {
        json!({"calendars": self.cals, "dates": self.dates.len(), "times": self.times.len(), "durations": 6, "difference_settings": SETTINGS.len()})
    }
}

/// Every variant of every converted enum maps to the variant of the same name.
struct Enums;
impl Space for Enums {
    fn name(&self) -> String {
        "c19.ffi_enums".into()
    }
    fn len(&self) -> u64 {
        1
    }
    fn eval(&self, _i: u64, out: &mut Out) {
        macro_rules! en {
            ($tyname:expr, $ffi:path, $core:ty, [$($v:ident),+]) => {{
                $(
                    out.nontrivial += 1;
                    let got: $core = { use $ffi as E; E::$v }.into();
                    let want = <$core>::$v;
                    let back: $ffi = want.into();
                    let back2: $core = back.into();
                    out.lockstep(concat!("enum ", $tyname), &Ok(format!("{:?}", want)), &Oc::Ok(format!("{:?}", got)), |a: &String, b: &String| a == b && format!("{:?}", back2) == *a && a == stringify!($v), || vec![("variant", stringify!($v).to_string())]);
                )+
            }};
        }
        use temporal_rs::options as o;
        en!("ArithmeticOverflow", fopt::ArithmeticOverflow, o::ArithmeticOverflow, [Constrain, Reject]);
        en!("Disambiguation", fopt::Disambiguation, o::Disambiguation, [Compatible, Earlier, Later, Reject]);
        en!("DisplayCalendar", fopt::DisplayCalendar, o::DisplayCalendar, [Auto, Always, Never, Critical]);
        en!("DisplayOffset", fopt::DisplayOffset, o::DisplayOffset, [Auto, Never]);
        en!("DisplayTimeZone", fopt::DisplayTimeZone, o::DisplayTimeZone, [Auto, Never, Critical]);
        en!("DurationOverflow", fopt::DurationOverflow, o::DurationOverflow, [Constrain, Balance]);
        en!("OffsetDisambiguation", fopt::OffsetDisambiguation, o::OffsetDisambiguation, [Use, Prefer, Ignore, Reject]);
        en!("RoundingMode", fopt::RoundingMode, o::RoundingMode, [Ceil, Floor, Expand, Trunc, HalfCeil, HalfFloor, HalfExpand, HalfTrunc, HalfEven]);
        en!("Unit", fopt::Unit, o::Unit, [Auto, Nanosecond, Microsecond, Millisecond, Second, Minute, Hour, Day, Week, Month, Year]);
        en!("UnsignedRoundingMode", fopt::UnsignedRoundingMode, o::UnsignedRoundingMode, [Infinity, Zero, HalfInfinity, HalfZero, HalfEven]);
        en!("ErrorKind", ferr::ErrorKind, ErrorKind, [Generic, Type, Range, Syntax, Assert]);
        en!("Sign", fdur::Sign, temporal_rs::Sign, [Positive, Zero, Negative]);
        // declared discriminants
        out.law("Unit discriminants", fopt::Unit::Auto as i32 == 0 && fopt::Unit::Nanosecond as i32 == 1 && fopt::Unit::Year as i32 == 10 && fopt::Unit::Day as i32 == o::Unit::Day as i32, Vec::new);
        out.law("Sign discriminants", fdur::Sign::Positive as i32 == 1 && fdur::Sign::Zero as i32 == 0 && fdur::Sign::Negative as i32 == -1, Vec::new);
        // AnyCalendarKind: every variant round-trips through its BCP-47 identifier via Calendar::create
        use fcal::AnyCalendarKind as K;
        for (k, name) in [(K::Buddhist, "Buddhist"), (K::Chinese, "Chinese"), (K::Coptic, "Coptic"), (K::Dangi, "Dangi"), (K::Ethiopian, "Ethiopian"), (K::EthiopianAmeteAlem, "EthiopianAmeteAlem"), (K::Gregorian, "Gregorian"), (K::Hebrew, "Hebrew"), (K::Indian, "Indian"), (K::IslamicCivil, "IslamicCivil"), (K::IslamicObservational, "IslamicObservational"), (K::IslamicTabular, "IslamicTabular"), (K::IslamicUmmAlQura, "IslamicUmmAlQura"), (K::Iso, "Iso"), (K::Japanese, "Japanese"), (K::JapaneseExtended, "JapaneseExtended"), (K::Persian, "Persian"), (K::Roc, "Roc")] {
            out.nontrivial += 1;
            let core: icu_kind::AnyCalendarKind = k.into();
            out.lockstep("enum AnyCalendarKind", &Ok(name.to_string()), &Oc::Ok(format!("{core:?}")), |a, b| a == b, || vec![("variant", name.to_string())]);
        }
        // option structs: every present/absent combination maps field to field
        for mask in 0..16u32 {
            let l = if mask & 1 != 0 { Some(Unit::Hour) } else { None };
            let s = if mask & 2 != 0 { Some(Unit::Minute) } else { None };
            let m = if mask & 4 != 0 { Some(RoundingMode::HalfEven) } else { None };
            let inc = if mask & 8 != 0 { Some(15u32) } else { None };
            let ds: Result<o::DifferenceSettings, _> = f_settings(l, s, m, inc).try_into().map_err(|_: ferr::TemporalError| ());
            let ro: Result<o::RoundingOptions, _> = f_round(l, s, m, inc).try_into().map_err(|_: ferr::TemporalError| ());
            let want = format!("{:?}", (l, s, m, inc));
            let got_ds = ds.map(|x| format!("{:?}", (x.largest_unit, x.smallest_unit, x.rounding_mode, x.increment.map(|i| i.get()))));
            let got_ro = ro.map(|x| format!("{:?}", (x.largest_unit, x.smallest_unit, x.rounding_mode, x.increment.map(|i| i.get()))));
            out.law("DifferenceSettings conversion", got_ds == Ok(want.clone()), || vec![("mask", mask.to_string())]);
            out.law("RoundingOptions conversion", got_ro == Ok(want.clone()), || vec![("mask", mask.to_string())]);
        }
        for (is_minute, digits) in [(false, None), (true, None), (true, Some(3u8)), (false, Some(0)), (false, Some(9)), (false, Some(200))] {
            let p: Precision = fopt::Precision { is_minute, precision: digits.into() }.into();
            let want = if is_minute { Precision::Minute } else { digits.map(Precision::Digit).unwrap_or(Precision::Auto) };
            out.law("Precision conversion", p == want, || vec![("is_minute", is_minute.to_string()), ("digits", format!("{digits:?}"))]);
        }
        // IsoDate / IsoTime / IsoDateTime structs map field to field
        let fd_ = fiso::IsoDate { year: 2021, month: 3, day: 4 };
        let cd_: temporal_rs::iso::IsoDate = fd_.into();
        out.law("IsoDate conversion", (cd_.year, cd_.month, cd_.day) == (2021, 3, 4), Vec::new);
        let ftm = fiso::IsoTime { hour: 5, minute: 6, second: 7, millisecond: 8, microsecond: 9, nanosecond: 10 };
        let ctm: temporal_rs::iso::IsoTime = ftm.into();
        out.law("IsoTime conversion", (ctm.hour, ctm.minute, ctm.second, ctm.millisecond, ctm.microsecond, ctm.nanosecond) == (5, 6, 7, 8, 9, 10), Vec::new);
        let fdtm = fiso::IsoDateTime { date: fiso::IsoDate { year: 2021, month: 3, day: 4 }, time: fiso::IsoTime { hour: 5, minute: 6, second: 7, millisecond: 8, microsecond: 9, nanosecond: 10 } };
        let cdtm: temporal_rs::iso::IsoDateTime = fdtm.into();
        out.law("IsoDateTime conversion", cdtm.date.day == 4 && cdtm.time.nanosecond == 10 && cdtm.time.hour == 5, Vec::new);
        out.sample(json!({"enums": 13, "option_structs": ["DifferenceSettings", "RoundingOptions", "Precision", "IsoDate", "IsoTime", "IsoDateTime"]}));
    }
}

pub fn spaces(tier: Tier) -> Vec<Box<dyn Space>> {
    vec![Box::new(Ffi::new(tier)), Box::new(Enums)]
}

//! Explorer engine: indexed spaces enumerated completely and in parallel, lock-step comparison
//! helpers, known-finding matcher, replay files, evidence files.

use serde_json::{json, Value};
use std::collections::{BTreeMap, HashSet};
use std::panic::{catch_unwind, AssertUnwindSafe};
use std::sync::atomic::{AtomicBool, AtomicU64, Ordering};
use std::time::Instant as WallInstant;
use temporal_rs::error::ErrorKind;
use temporal_rs::TemporalResult;

#[derive(Debug, Clone, Copy, PartialEq, Eq)]
pub enum Tier {
    Quick,
    Thorough,
}

impl Tier {
    pub fn name(&self) -> &'static str {
        match self {
            Tier::Quick => "quick",
            Tier::Thorough => "thorough",
        }
    }
    pub fn pick<T>(&self, q: T, t: T) -> T {
        match self {
            Tier::Quick => q,
            Tier::Thorough => t,
        }
    }
}

// ------------------------------------------------------------------------------------------------
// Panic capture

thread_local! {
    static LAST_PANIC: std::cell::RefCell<String> = const { std::cell::RefCell::new(String::new()) };
}

pub fn install_panic_hook() {
    std::panic::set_hook(Box::new(|info| {
        let loc = info
            .location()
            .map(|l| {
                let f = l.file();
                // keep the path relative to the crate so that it is stable
                let f = f.rsplit_once("/src/").map(|(_, b)| b).unwrap_or(f);
                format!("{}:{}", f, l.line())
            })
            .unwrap_or_default();
        let msg = if let Some(s) = info.payload().downcast_ref::<&str>() {
            s.to_string()
        } else if let Some(s) = info.payload().downcast_ref::<String>() {
            s.clone()
        } else {
            "<non-string panic>".to_string()
        };
        LAST_PANIC.with(|p| *p.borrow_mut() = format!("{loc}: {}", msg.replace('\n', " ")));
    }));
}

/// Outcome of one implementation call.
#[derive(Debug, Clone, PartialEq)]
pub enum Oc<T> {
    Ok(T),
    Err(ErrorKind, String),
    Panic(String),
}

impl<T> Oc<T> {
    pub fn ok(&self) -> Option<&T> {
        match self {
            Oc::Ok(v) => Some(v),
            _ => None,
        }
    }
    pub fn is_ok(&self) -> bool {
        matches!(self, Oc::Ok(_))
    }
    pub fn is_panic(&self) -> bool {
        matches!(self, Oc::Panic(_))
    }
    pub fn kind(&self) -> Option<ErrorKind> {
        match self {
            Oc::Err(k, _) => Some(*k),
            _ => None,
        }
    }
    pub fn is_range_err(&self) -> bool {
        matches!(self, Oc::Err(ErrorKind::Range, _))
    }
    pub fn describe(&self) -> String
    where
        T: std::fmt::Debug,
    {
        match self {
            Oc::Ok(v) => format!("Ok({v:?})"),
            Oc::Err(k, m) => format!("Err({k:?}: {m})"),
            Oc::Panic(m) => format!("PANIC({m})"),
        }
    }
    pub fn map<U>(self, f: impl FnOnce(T) -> U) -> Oc<U> {
        match self {
            Oc::Ok(v) => Oc::Ok(f(v)),
            Oc::Err(k, m) => Oc::Err(k, m),
            Oc::Panic(m) => Oc::Panic(m),
        }
    }
}

/// Run a fallible implementation call under catch_unwind.
pub fn call<T>(f: impl FnOnce() -> TemporalResult<T>) -> Oc<T> {
    match catch_unwind(AssertUnwindSafe(f)) {
        Ok(Ok(v)) => Oc::Ok(v),
        Ok(Err(e)) => Oc::Err(e.kind(), e.message().to_string()),
        Err(_) => Oc::Panic(LAST_PANIC.with(|p| p.borrow().clone())),
    }
}

/// Run an infallible implementation call under catch_unwind.
pub fn call_inf<T>(f: impl FnOnce() -> T) -> Oc<T> {
    match catch_unwind(AssertUnwindSafe(f)) {
        Ok(v) => Oc::Ok(v),
        Err(_) => Oc::Panic(LAST_PANIC.with(|p| p.borrow().clone())),
    }
}

/// The location part ("file.rs:123") of a captured panic message.
pub fn panic_site(msg: &str) -> String {
    msg.split(": ").next().unwrap_or("").to_string()
}

// ------------------------------------------------------------------------------------------------
// Known findings

#[derive(Debug, Clone)]
pub struct Finding {
    pub id: String,
    pub props: Vec<String>,
    pub what: String,
    pub matcher: Vec<(String, Vec<String>, bool)>, // key, alternatives, is_prefix
}

pub fn load_findings(path: &str, prop: &str) -> Vec<Finding> {
    let Ok(text) = std::fs::read_to_string(path) else {
        return vec![];
    };
    let v: Value = serde_json::from_str(&text).expect("known_findings.json is not valid JSON");
    let mut out = vec![];
    for f in v["findings"].as_array().cloned().unwrap_or_default() {
        if f["status"].as_str() != Some("open") {
            continue;
        }
        let props: Vec<String> = f["property"]
            .as_array()
            .map(|a| a.iter().filter_map(|x| x.as_str().map(String::from)).collect())
            .unwrap_or_default();
        // C02 and C03 re-run the other checks' spaces with a reduced oracle: every recorded finding can surface there
        if !props.iter().any(|p| p == prop) && prop != "C02" && prop != "C03" {
            continue;
        }
        let mut matcher = vec![];
        for (k, val) in f["match"].as_object().expect("finding.match must be an object") {
            match val {
                Value::String(s) => matcher.push((k.clone(), vec![s.clone()], false)),
                Value::Array(a) => matcher.push((
                    k.clone(),
                    a.iter().filter_map(|x| x.as_str().map(String::from)).collect(),
                    false,
                )),
                Value::Object(o) => {
                    // {"prefix": "..."} or {"prefix": ["...", "..."]}
                    let ps: Vec<String> = match o.get("prefix") {
                        Some(Value::String(p)) => vec![p.clone()],
                        Some(Value::Array(a)) => a.iter().filter_map(|x| x.as_str().map(String::from)).collect(),
                        _ => panic!("match object needs prefix"),
                    };
                    matcher.push((k.clone(), ps, true));
                }
                _ => panic!("bad matcher in finding {}", f["id"]),
            }
        }
        out.push(Finding {
            id: f["id"].as_str().unwrap_or("?").to_string(),
            props,
            what: f["what"].as_str().unwrap_or("").to_string(),
            matcher,
        });
    }
    out
}

#[derive(Debug, Clone)]
pub struct Fail {
    pub space: String,
    pub index: u64,
    pub symptom: String,
    pub attrs: Vec<(String, String)>,
}

impl Fail {
    fn get(&self, key: &str) -> Option<&str> {
        match key {
            "space" => Some(&self.space),
            "symptom" => Some(&self.symptom),
            _ => self.attrs.iter().find(|(k, _)| k == key).map(|(_, v)| v.as_str()),
        }
    }
    pub fn matches(&self, f: &Finding) -> bool {
        f.matcher.iter().all(|(k, alts, prefix)| match self.get(k) {
            None => false,
            Some(v) => {
                if *prefix {
                    alts.iter().any(|a| v.starts_with(a.as_str()))
                } else {
                    alts.iter().any(|a| a == v)
                }
            }
        })
    }
    pub fn to_json(&self) -> Value {
        let mut m = serde_json::Map::new();
        m.insert("space".into(), json!(self.space));
        m.insert("index".into(), json!(self.index));
        m.insert("symptom".into(), json!(self.symptom));
        for (k, v) in &self.attrs {
            m.insert(k.clone(), json!(v));
        }
        Value::Object(m)
    }
    pub fn brief(&self) -> String {
        let a: Vec<String> = self.attrs.iter().map(|(k, v)| format!("{k}={v}")).collect();
        format!("{}#{} {} [{}]", self.space, self.index, self.symptom, a.join(" "))
    }
}

// ------------------------------------------------------------------------------------------------
// Environment, per-thread accumulator

pub struct Env {
    pub prop: String,
    pub tier: Tier,
    pub seed: u64,
    pub findings: Vec<Finding>,
    pub threads: usize,
    pub profile: &'static str,
    pub replay: Option<(String, u64)>,
    pub verif_dir: String,
    pub mode: Mode,
}

/// What is judged. `Full`: the property's own oracle. `Monitor`: only validity of returned values
/// (C02). `PanicOnly`: only panics / Assert errors (C03).
#[derive(Debug, Clone, Copy, PartialEq, Eq)]
pub enum Mode {
    Full,
    Monitor,
    PanicOnly,
}

static MODE_OVERRIDE_FULL: std::sync::atomic::AtomicBool = std::sync::atomic::AtomicBool::new(false);

const UNMATCHED_CAP: usize = 200;

pub struct Out<'e> {
    pub env: &'e Env,
    pub space: String,
    pub index: u64,
    pub evals: u64,
    pub transitions: u64,
    pub nontrivial: u64,
    pub unjudged: u64,
    pub selfchecks: u64,
    pub states: HashSet<u64>,
    pub known: BTreeMap<String, (u64, Fail)>,
    pub unmatched: Vec<Fail>,
    pub unmatched_count: u64,
    pub unmatched_classes: BTreeMap<String, (u64, String)>,
    pub fail_cases: u64,
    last_fail_index: u64,
    pub samples: Vec<Value>,
    pub verbose: bool,
    pub counters: BTreeMap<&'static str, u64>,
}

impl<'e> Out<'e> {
    pub fn new(env: &'e Env, space: &str) -> Self {
        Out {
            env,
            space: space.to_string(),
            index: 0,
            evals: 0,
            transitions: 0,
            nontrivial: 0,
            unjudged: 0,
            selfchecks: 0,
            states: HashSet::new(),
            known: BTreeMap::new(),
            unmatched: vec![],
            unmatched_count: 0,
            unmatched_classes: BTreeMap::new(),
            fail_cases: 0,
            last_fail_index: u64::MAX,
            samples: vec![],
            verbose: false,
            counters: BTreeMap::new(),
        }
    }

    /// Start case `i`: sets the current index (also published to the watchdog).
    pub fn begin(&mut self, i: u64) {
        self.index = i;
        self.evals += 1;
        WORKER_ID.with(|w| WORKER_CUR[w.get()].store(i, Ordering::Relaxed));
    }

    pub fn count(&mut self, key: &'static str, n: u64) {
        *self.counters.entry(key).or_insert(0) += n;
    }

    pub fn state<H: std::hash::Hash>(&mut self, h: &H) {
        use std::hash::Hasher;
        let mut s = std::collections::hash_map::DefaultHasher::new();
        h.hash(&mut s);
        self.states.insert(s.finish());
    }

    /// Record a failing transition of the current case.
    pub fn fail(&mut self, symptom: &str, attrs: Vec<(&str, String)>) {
        let f = Fail {
            space: self.space.clone(),
            index: self.index,
            symptom: symptom.to_string(),
            attrs: attrs.into_iter().map(|(k, v)| (k.to_string(), v)).collect(),
        };
        if self.verbose {
            println!("  FAIL {}", f.brief());
        }
        if self.last_fail_index != self.index {
            self.fail_cases += 1;
            self.last_fail_index = self.index;
        }
        for fi in &self.env.findings {
            if f.matches(fi) {
                let e = self.known.entry(fi.id.clone()).or_insert_with(|| (0, f.clone()));
                e.0 += 1;
                if f.index < e.1.index {
                    e.1 = f;
                }
                return;
            }
        }
        self.unmatched_count += 1;
        let mut class = format!("{} | {} | {}", self.space, f.get("op").unwrap_or(""), f.symptom);
        // triage aid: TMC_CLASS_KEYS=attr1,attr2 refines the class histogram by those attributes
        if let Ok(keys) = std::env::var("TMC_CLASS_KEYS") {
            for k in keys.split(',') {
                class.push_str(&format!(" | {k}={}", f.get(k).unwrap_or("-")));
            }
        }
        let e = self.unmatched_classes.entry(class).or_insert_with(|| (0, f.brief()));
        e.0 += 1;
        // keep the first few of every class so that each class gets a replay file
        if e.0 <= 3 && self.unmatched.len() < UNMATCHED_CAP {
            self.unmatched.push(f);
        }
    }

    pub fn note(&self, f: impl FnOnce() -> String) {
        if self.verbose {
            println!("  {}", f());
        }
    }

    pub fn want_sample(&self) -> bool {
        self.samples.len() < 2
    }
    pub fn sample(&mut self, v: Value) {
        if self.samples.len() < 2 {
            self.samples.push(v);
        }
    }

    /// The judging mode in force: the run's mode, or `Full` while a space that carries its own
    /// complete oracle runs inside an aggregating check (C02 / C03).
    pub fn mode(&self) -> Mode {
        if MODE_OVERRIDE_FULL.load(std::sync::atomic::Ordering::Relaxed) {
            Mode::Full
        } else {
            self.env.mode
        }
    }

    /// Lock-step comparison of one transition. The model says `Ok(m)` or `Err(kind)`; the
    /// implementation outcome must be the same value (per `eq`) or an error of the same kind.
    pub fn lockstep<M: std::fmt::Debug, T: std::fmt::Debug>(
        &mut self,
        op: &str,
        model: &Result<M, ErrorKind>,
        got: &Oc<T>,
        eq: impl Fn(&M, &T) -> bool,
        attrs: impl Fn() -> Vec<(&'static str, String)>,
    ) -> bool {
        self.transitions += 1;
        let sym: Option<String> = match (model, got) {
            (_, Oc::Panic(m)) => Some(format!("panic@{}", panic_site(m))),
            (_, Oc::Err(ErrorKind::Assert, _)) => Some("err_kind:Assert".to_string()),
            (Ok(m), Oc::Ok(v)) => {
                if self.mode() != Mode::Full || eq(m, v) {
                    None
                } else {
                    Some("value≠model".to_string())
                }
            }
            (Ok(_), Oc::Err(k, _)) => {
                if self.mode() == Mode::PanicOnly {
                    None
                } else {
                    Some(format!("err:{k:?}≠ok"))
                }
            }
            (Err(k), Oc::Ok(_)) => {
                if self.mode() == Mode::PanicOnly {
                    None
                } else {
                    Some(format!("ok≠err:{k:?}"))
                }
            }
            (Err(k), Oc::Err(k2, _)) => {
                if k == k2 || self.mode() == Mode::PanicOnly {
                    None
                } else {
                    Some(format!("err_kind:{k2:?}≠{k:?}"))
                }
            }
        };
        if self.verbose {
            println!("  {op}: model={model:?} impl={}", got.describe());
        }
        match sym {
            None => true,
            Some(s) => {
                let mut a = attrs();
                a.insert(0, ("op", op.to_string()));
                a.push(("model", format!("{model:?}")));
                a.push(("impl", got.describe()));
                self.fail(&s, a);
                false
            }
        }
    }

    /// A law that needs no expected value: `holds` must be true.
    pub fn law(&mut self, name: &str, holds: bool, attrs: impl FnOnce() -> Vec<(&'static str, String)>) -> bool {
        self.transitions += 1;
        if self.mode() != Mode::Full {
            return true;
        }
        if !holds {
            let mut a = attrs();
            a.insert(0, ("op", name.to_string()));
            self.fail(&format!("law:{name}"), a);
        }
        holds
    }

    fn merge(&mut self, o: Out<'e>) {
        self.evals += o.evals;
        self.transitions += o.transitions;
        self.nontrivial += o.nontrivial;
        self.unjudged += o.unjudged;
        self.selfchecks += o.selfchecks;
        self.fail_cases += o.fail_cases;
        self.states.extend(o.states);
        for (k, (n, w)) in o.known {
            let e = self.known.entry(k).or_insert_with(|| (0, w.clone()));
            e.0 += n;
            if w.index < e.1.index {
                e.1 = w;
            }
        }
        self.unmatched_count += o.unmatched_count;
        self.unmatched.extend(o.unmatched);
        for (k, (n, w)) in o.unmatched_classes {
            let e = self.unmatched_classes.entry(k).or_insert_with(|| (0, w));
            e.0 += n;
        }
        self.samples.extend(o.samples);
        for (k, n) in o.counters {
            *self.counters.entry(k).or_insert(0) += n;
        }
    }
}

// ------------------------------------------------------------------------------------------------
// Watchdog: every worker publishes the index it is working on; a case that does not finish within
// HANG_S seconds is reported as a hang (C03: "loops without bound") and ends the run with exit 1.

pub static WORKER_CUR: [AtomicU64; 128] = [const { AtomicU64::new(u64::MAX) }; 128];
thread_local! {
    static WORKER_ID: std::cell::Cell<usize> = const { std::cell::Cell::new(127) };
}
pub fn hang_seconds() -> u64 {
    std::env::var("TMC_HANG_S").ok().and_then(|s| s.parse().ok()).unwrap_or(60)
}

// ------------------------------------------------------------------------------------------------
// Spaces

pub trait Space: Sync {
    fn name(&self) -> String;
    fn len(&self) -> u64;
    /// Evaluate case `i` (out.index is already set).
    fn eval(&self, i: u64, out: &mut Out);
    /// Scheduling granularity.
    fn block(&self) -> u64 {
        256
    }
    /// Evaluate the contiguous block lo..hi (range walks override this to step an odometer).
    fn eval_range(&self, lo: u64, hi: u64, out: &mut Out) {
        for i in lo..hi {
            out.begin(i);
            self.eval(i, out);
        }
    }
    fn describe(&self) -> Value {
        json!({})
    }
    /// Judge this space with its complete oracle even inside an aggregating check (C02 / C03).
    fn full_oracle(&self) -> bool {
        false
    }
}

/// Mixed-radix decoding of an index into a product of alphabets: first radix varies fastest.
pub fn unrank(mut i: u64, radices: &[u64]) -> Vec<usize> {
    let mut v = Vec::with_capacity(radices.len());
    for r in radices {
        v.push((i % r) as usize);
        i /= r;
    }
    v
}

pub fn product(radices: &[u64]) -> u64 {
    radices.iter().product()
}

pub struct SpaceSummary {
    pub name: String,
    pub len: u64,
    pub covered: u64,
    pub evals: u64,
    pub transitions: u64,
    pub nontrivial: u64,
    pub unjudged: u64,
    pub selfchecks: u64,
    pub states: u64,
    pub fail_cases: u64,
    pub wall_s: f64,
    pub capped: bool,
    pub describe: Value,
    pub counters: BTreeMap<&'static str, u64>,
}

pub struct Report<'e> {
    pub env: &'e Env,
    pub spaces: Vec<SpaceSummary>,
    pub known: BTreeMap<String, (u64, Fail)>,
    pub unmatched: Vec<Fail>,
    pub unmatched_count: u64,
    pub unmatched_classes: BTreeMap<String, (u64, String)>,
    pub samples: Vec<Value>,
    pub all_states: HashSet<u64>,
    pub start: WallInstant,
    pub level: &'static str,
    pub rule: String,
    pub assumptions: Vec<String>,
    pub extra: serde_json::Map<String, Value>,
    pub replay_hits: u64,
    pub machinery_errors: Vec<String>,
    pub cap_s: f64,
}

impl<'e> Report<'e> {
    pub fn new(env: &'e Env, level: &'static str, rule: &str) -> Self {
        Report {
            env,
            spaces: vec![],
            known: BTreeMap::new(),
            unmatched: vec![],
            unmatched_count: 0,
            unmatched_classes: BTreeMap::new(),
            samples: vec![],
            all_states: HashSet::new(),
            start: WallInstant::now(),
            level,
            rule: rule.to_string(),
            assumptions: vec![],
            extra: serde_json::Map::new(),
            replay_hits: 0,
            machinery_errors: vec![],
            cap_s: 3600.0,
        }
    }

    pub fn tier(&self) -> Tier {
        self.env.tier
    }

    /// Enumerate a space completely (all indices), in parallel.
    pub fn run(&mut self, space: &dyn Space) {
        let name = space.name();
        let len = space.len();
        MODE_OVERRIDE_FULL.store(space.full_oracle(), std::sync::atomic::Ordering::Relaxed);
        if let Some((rs, ri)) = &self.env.replay {
            if *rs != name {
                return;
            }
            println!("replaying {name} index {ri} (space size {len})");
            if *ri >= len {
                println!("index out of range for this space/tier");
                return;
            }
            let mut out = Out::new(self.env, &name);
            out.verbose = true;
            {
                let (hs, nm, ix) = (hang_seconds(), name.clone(), *ri);
                std::thread::spawn(move || {
                    std::thread::sleep(std::time::Duration::from_secs(hs));
                    println!("replay result: case {nm}#{ix} did not finish within {hs} s (hang)");
                    std::process::exit(1);
                });
            }
            space.eval_range(*ri, *ri + 1, &mut out);
            println!(
                "replay result: {} failing transition(s), {} matched a known finding",
                out.unmatched_count + out.known.values().map(|x| x.0).sum::<u64>(),
                out.known.values().map(|x| x.0).sum::<u64>()
            );
            self.replay_hits += 1;
            self.unmatched_count += out.unmatched_count;
            return;
        }
        let t0 = WallInstant::now();
        let next = AtomicU64::new(0);
        let stop = AtomicBool::new(false);
        let covered = AtomicU64::new(0);
        let block = space.block().max(1);
        let threads = self.env.threads.min(((len + block - 1) / block).max(1) as usize).max(1);
        let cap = self.cap_s;
        let env = self.env;
        let done = std::sync::atomic::AtomicUsize::new(0);
        let mut outs: Vec<Out> = std::thread::scope(|s| {
            // watchdog
            {
                let done = &done;
                let name = &name;
                let hang_s = hang_seconds();
                s.spawn(move || {
                    let mut last: Vec<(u64, WallInstant)> = (0..threads).map(|_| (u64::MAX, WallInstant::now())).collect();
                    while done.load(Ordering::Relaxed) < threads {
                        std::thread::sleep(std::time::Duration::from_millis(250));
                        for t in 0..threads {
                            let c = WORKER_CUR[t].load(Ordering::Relaxed);
                            if c != last[t].0 {
                                last[t] = (c, WallInstant::now());
                            } else if c != u64::MAX && last[t].1.elapsed().as_secs() >= hang_s {
                                report_hang(env, name, c, hang_s);
                            }
                        }
                    }
                });
            }
            let hs: Vec<_> = (0..threads)
                .map(|tid| {
                    let next = &next;
                    let stop = &stop;
                    let covered = &covered;
                    let name = &name;
                    let done = &done;
                    std::thread::Builder::new()
                        .stack_size(64 << 20)
                        .spawn_scoped(s, move || {
                            WORKER_ID.with(|w| w.set(tid));
                            WORKER_CUR[tid].store(u64::MAX, Ordering::Relaxed);
                            let mut out = Out::new(env, name);
                            loop {
                                if stop.load(Ordering::Relaxed) {
                                    break;
                                }
                                let lo = next.fetch_add(block, Ordering::Relaxed);
                                if lo >= len {
                                    break;
                                }
                                let hi = (lo + block).min(len);
                                // a panic here is a harness bug (implementation calls are wrapped by `call`)
                                if catch_unwind(AssertUnwindSafe(|| space.eval_range(lo, hi, &mut out))).is_err() {
                                    eprintln!(
                                        "MACHINERY-ERROR: harness panicked in space {} at index {}: {}",
                                        name,
                                        out.index,
                                        LAST_PANIC.with(|p| p.borrow().clone())
                                    );
                                    std::process::exit(2);
                                }
                                covered.fetch_add(hi - lo, Ordering::Relaxed);
                                if t0.elapsed().as_secs_f64() > cap {
                                    stop.store(true, Ordering::Relaxed);
                                }
                            }
                            WORKER_CUR[tid].store(u64::MAX, Ordering::Relaxed);
                            done.fetch_add(1, Ordering::Relaxed);
                            out
                        })
                        .expect("spawn")
                })
                .collect();
            hs.into_iter().map(|h| h.join().expect("engine worker panicked")).collect()
        });
        let mut total = Out::new(self.env, &name);
        for o in outs.drain(..) {
            total.merge(o);
        }
        total.unmatched.sort_by_key(|f| f.index);
        total.unmatched.truncate(UNMATCHED_CAP);
        let cov = covered.load(Ordering::Relaxed);
        let summ = SpaceSummary {
            name: name.clone(),
            len,
            covered: cov,
            evals: total.evals,
            transitions: total.transitions,
            nontrivial: total.nontrivial,
            unjudged: total.unjudged,
            selfchecks: total.selfchecks,
            states: total.states.len() as u64,
            fail_cases: total.fail_cases,
            wall_s: t0.elapsed().as_secs_f64(),
            capped: cov < len,
            describe: space.describe(),
            counters: total.counters.clone(),
        };
        eprintln!(
            "[{}] space {:<34} size {:>11} covered {:>11} transitions {:>12} nontrivial {:>10} failing-cases {:>8} unmatched {:>6} {:.1}s{}",
            self.env.prop,
            summ.name,
            summ.len,
            summ.covered,
            summ.transitions,
            summ.nontrivial,
            summ.fail_cases,
            total.unmatched_count,
            summ.wall_s,
            if summ.capped { " CAPPED" } else { "" }
        );
        self.spaces.push(summ);
        self.all_states.extend(total.states);
        for (k, (n, w)) in total.known {
            let e = self.known.entry(k).or_insert_with(|| (0, w.clone()));
            e.0 += n;
        }
        self.unmatched_count += total.unmatched_count;
        for (k, (n, w)) in std::mem::take(&mut total.unmatched_classes) {
            let e = self.unmatched_classes.entry(k).or_insert_with(|| (0, w));
            e.0 += n;
        }
        // re-execute each unmatched failure once before believing it
        for f in total.unmatched {
            if self.unmatched.len() >= 400 {
                break;
            }
            let mut o2 = Out::new(self.env, &name);
            space.eval_range(f.index, f.index + 1, &mut o2);
            let reproduced = o2.unmatched.iter().any(|g| g.symptom == f.symptom);
            if reproduced {
                self.unmatched.push(f);
            } else {
                self.machinery_errors.push(format!("non-reproducing failure: {}", f.brief()));
            }
        }
        // samples: first two + seed-rotated
        let mut s = total.samples;
        if !s.is_empty() {
            let k = (self.env.seed as usize) % s.len();
            s.rotate_left(k);
            s.truncate(2);
            for x in s {
                self.samples.push(json!({"space": name, "case": x}));
            }
        }
    }

    pub fn finish(mut self) -> i32 {
        if self.env.replay.is_some() {
            if self.replay_hits == 0 {
                println!("replay: no space of that name in this property/tier");
                return 2;
            }
            return if self.unmatched_count > 0 { 1 } else { 0 };
        }
        let evals: u64 = self.spaces.iter().map(|s| s.evals).sum();
        let transitions: u64 = self.spaces.iter().map(|s| s.transitions).sum();
        let nontrivial: u64 = self.spaces.iter().map(|s| s.nontrivial).sum();
        let unjudged: u64 = self.spaces.iter().map(|s| s.unjudged).sum();
        let selfchecks: u64 = self.spaces.iter().map(|s| s.selfchecks).sum();
        let fail_cases: u64 = self.spaces.iter().map(|s| s.fail_cases).sum();
        let capped = self.spaces.iter().any(|s| s.capped);
        let states = (self.all_states.len() as u64).max(1);
        let masked: u64 = self.known.values().map(|x| x.0).sum();
        let spaces: Vec<Value> = self
            .spaces
            .iter()
            .map(|s| {
                json!({"name": s.name, "size": s.len, "covered": s.covered, "evaluations": s.evals,
                   "transitions": s.transitions, "distinct_nontrivial": s.nontrivial, "unjudged": s.unjudged,
                   "oracle_selfchecks": s.selfchecks, "distinct_states": s.states,
                   "failing_cases": s.fail_cases,
                   "masked_fraction_of_nontrivial": if s.nontrivial > 0 { (s.fail_cases as f64 / s.nontrivial as f64).min(1.0) } else { 0.0 },
                   "wall_s": (s.wall_s * 100.0).round() / 100.0, "capped": s.capped, "alphabet": s.describe,
                   "counters": s.counters})
            })
            .collect();
        let known: Vec<Value> = self
            .known
            .iter()
            .map(|(k, (n, w))| json!({"finding": k, "failing_transitions": n, "witness": w.to_json()}))
            .collect();
        let mut cov = serde_json::Map::new();
        cov.insert("evaluations".into(), json!(evals.max(transitions)));
        cov.insert("distinct_nontrivial".into(), json!(nontrivial));
        cov.insert("rule".into(), json!(self.rule));
        if self.samples.is_empty() {
            self.samples.push(json!("no sample recorded"));
        }
        cov.insert("samples".into(), json!(self.samples));
        cov.insert("states".into(), json!(states));
        cov.insert("transitions".into(), json!(transitions.max(1)));
        cov.insert("traces_validated_against_impl".into(), json!(transitions));
        cov.insert(
            "explanation".into(),
            json!("every transition is one execution of the real implementation compared with the reference model; states = distinct canonical values hashed by the check"),
        );
        cov.insert("exhaustive".into(), json!(!capped && self.extra.get("exhaustive").and_then(|v| v.as_bool()).unwrap_or(false)));
        cov.insert("unjudged".into(), json!(unjudged));
        cov.insert("oracle_selfchecks".into(), json!(selfchecks));
        cov.insert("failing_cases".into(), json!(fail_cases));
        cov.insert("failing_transitions_under_known_findings".into(), json!(masked));
        cov.insert("known_findings".into(), json!(known));
        cov.insert("spaces".into(), json!(spaces));
        cov.insert("profile".into(), json!(self.env.profile));
        cov.insert("caps_hit".into(), json!(capped));
        for (k, v) in self.extra.iter() {
            if k != "exhaustive" {
                cov.insert(k.clone(), v.clone());
            }
        }
        let violations = self.unmatched_count;
        let ev = json!({
            "property_id": self.env.prop,
            "tier": self.env.tier.name(),
            "seed": self.env.seed,
            "level": self.level,
            "coverage": Value::Object(cov),
            "assumptions": self.assumptions,
            "wall_s": (self.start.elapsed().as_secs_f64() * 100.0).round() / 100.0,
            "violations": violations,
        });
        let evdir = format!("{}/evidence", self.env.verif_dir);
        let _ = std::fs::create_dir_all(&evdir);
        let suffix = if self.env.profile == "checked" { String::new() } else { format!(".{}", self.env.profile) };
        let evpath = format!("{}/{}{}.json", evdir, self.env.prop, suffix);
        std::fs::write(&evpath, serde_json::to_string_pretty(&ev).unwrap()).expect("write evidence");

        for (k, (n, w)) in &self.known {
            let what = self.env.findings.iter().find(|f| &f.id == k).map(|f| f.what.clone()).unwrap_or_default();
            println!("KNOWN-FINDING: property={} {}: {} ({} failing transitions, e.g. {})", self.env.prop, k, what, n, w.brief());
        }
        for m in &self.machinery_errors {
            eprintln!("MACHINERY-ERROR: {m}");
        }
        let mut code = 0;
        if !self.unmatched.is_empty() {
            let rdir = format!("{}/replays", self.env.verif_dir);
            let _ = std::fs::create_dir_all(&rdir);
            // one replay file per distinct (space, symptom, op) class, at most 12
            let mut seen = HashSet::new();
            for f in &self.unmatched {
                let op = f.get("op").unwrap_or("").to_string();
                let key = (f.space.clone(), f.symptom.clone(), op);
                if !seen.insert(key) || seen.len() > 12 {
                    continue;
                }
                use std::hash::{Hash, Hasher};
                let mut h = std::collections::hash_map::DefaultHasher::new();
                f.space.hash(&mut h);
                f.index.hash(&mut h);
                f.symptom.hash(&mut h);
                let path = format!("{}/{}-{:08x}.json", rdir, self.env.prop, h.finish() as u32);
                let body = json!({"property": self.env.prop, "tier": self.env.tier.name(), "profile": self.env.profile,
                    "space": f.space, "index": f.index, "failure": f.to_json()});
                std::fs::write(&path, serde_json::to_string_pretty(&body).unwrap()).expect("write replay");
                println!("VIOLATION property={} replay={}", self.env.prop, path);
                println!("  {}", f.brief());
            }
            println!("({} unmatched failing transitions in total; classes:)", self.unmatched_count);
            for (k, (n, w)) in &self.unmatched_classes {
                println!("  {n:>10}  {k}\n              e.g. {w}");
            }
            code = 1;
        } else if self.unmatched_count > 0 || !self.machinery_errors.is_empty() {
            code = 3; // failures that did not reproduce: machinery error, not a verdict
        }
        eprintln!(
            "[{}] {} tier={} profile={} transitions={} nontrivial={} known-finding-transitions={} violations={} wall={:.1}s -> exit {}",
            self.env.prop,
            self.level,
            self.env.tier.name(),
            self.env.profile,
            transitions,
            nontrivial,
            masked,
            violations,
            self.start.elapsed().as_secs_f64(),
            code
        );
        code
    }
}

/// A case did not finish: report it as a violation ("loops without bound") and end the process.
fn report_hang(env: &Env, space: &str, index: u64, hang_s: u64) -> ! {
    if env.replay.is_some() {
        println!("replay result: case {space}#{index} did not finish within {hang_s} s (hang)");
        std::process::exit(1);
    }
    let rdir = format!("{}/replays", env.verif_dir);
    let _ = std::fs::create_dir_all(&rdir);
    let path = format!("{}/{}-hang-{}.json", rdir, env.prop, index);
    let body = json!({"property": env.prop, "tier": env.tier.name(), "profile": env.profile, "space": space, "index": index,
        "failure": {"symptom": "hang", "hang_s": hang_s}});
    let _ = std::fs::write(&path, serde_json::to_string_pretty(&body).unwrap());
    let ev = json!({
        "property_id": env.prop, "tier": env.tier.name(), "seed": env.seed, "level": "exploration",
        "coverage": {"evaluations": 1, "distinct_nontrivial": 2, "rule": "run aborted by the watchdog: a case did not terminate", "samples": [{"space": space, "index": index, "symptom": "hang"}], "exhaustive": false},
        "wall_s": hang_s as f64, "violations": 1});
    let _ = std::fs::write(format!("{}/evidence/{}.json", env.verif_dir, env.prop), serde_json::to_string_pretty(&ev).unwrap());
    println!("VIOLATION property={} replay={}", env.prop, path);
    println!("  {space}#{index} hang: the case did not finish within {hang_s} s (unbounded or runaway loop)");
    std::process::exit(1);
}

//! Small constructors for implementation-side values.

use temporal_rs::iso::{IsoDate, IsoTime};
use temporal_rs::options::{DifferenceSettings, RoundingIncrement, RoundingMode, RoundingOptions, Unit};
use temporal_rs::primitive::FiniteF64;
use temporal_rs::{Calendar, Duration, PlainDate, TemporalResult};

pub fn ff(v: f64) -> FiniteF64 {
    FiniteF64::try_from(v).expect("finite")
}

/// Duration from ten integral fields (given as f64 so that values above 2^63 are expressible).
#[allow(clippy::too_many_arguments)]
pub fn dur10(f: [f64; 10]) -> TemporalResult<Duration> {
    Duration::new(ff(f[0]), ff(f[1]), ff(f[2]), ff(f[3]), ff(f[4]), ff(f[5]), ff(f[6]), ff(f[7]), ff(f[8]), ff(f[9]))
}

pub fn date_dur(y: i64, m: i64, w: i64, d: i64) -> TemporalResult<Duration> {
    dur10([y as f64, m as f64, w as f64, d as f64, 0.0, 0.0, 0.0, 0.0, 0.0, 0.0])
}

pub fn dur_fields(d: &Duration) -> [f64; 10] {
    [
        d.years().as_inner(),
        d.months().as_inner(),
        d.weeks().as_inner(),
        d.days().as_inner(),
        d.hours().as_inner(),
        d.minutes().as_inner(),
        d.seconds().as_inner(),
        d.milliseconds().as_inner(),
        d.microseconds().as_inner(),
        d.nanoseconds().as_inner(),
    ]
}

pub fn diff(largest: Option<Unit>, smallest: Option<Unit>, mode: Option<RoundingMode>, inc: Option<u32>) -> DifferenceSettings {
    let mut s = DifferenceSettings::default();
    s.largest_unit = largest;
    s.smallest_unit = smallest;
    s.rounding_mode = mode;
    s.increment = inc.map(|i| RoundingIncrement::try_new(i).expect("increment"));
    s
}

pub fn round_opts(largest: Option<Unit>, smallest: Option<Unit>, mode: Option<RoundingMode>, inc: Option<u32>) -> RoundingOptions {
    let mut s = RoundingOptions::default();
    s.largest_unit = largest;
    s.smallest_unit = smallest;
    s.rounding_mode = mode;
    s.increment = inc.map(|i| RoundingIncrement::try_new(i).expect("increment"));
    s
}

pub fn iso_date(y: i32, m: u8, d: u8) -> IsoDate {
    let mut x = IsoDate::default();
    x.year = y;
    x.month = m;
    x.day = d;
    x
}

#[allow(clippy::too_many_arguments)]
pub fn iso_time(h: u8, mi: u8, s: u8, ms: u16, us: u16, ns: u16) -> IsoTime {
    let mut t = IsoTime::default();
    t.hour = h;
    t.minute = mi;
    t.second = s;
    t.millisecond = ms;
    t.microsecond = us;
    t.nanosecond = ns;
    t
}

pub fn pd(y: i64, m: u8, d: u8) -> TemporalResult<PlainDate> {
    PlainDate::try_new(y as i32, m, d, Calendar::default())
}

pub const ALL_MODES: [RoundingMode; 9] = [
    RoundingMode::Ceil,
    RoundingMode::Floor,
    RoundingMode::Expand,
    RoundingMode::Trunc,
    RoundingMode::HalfCeil,
    RoundingMode::HalfFloor,
    RoundingMode::HalfExpand,
    RoundingMode::HalfTrunc,
    RoundingMode::HalfEven,
];

pub const ALL_UNITS: [Unit; 10] = [
    Unit::Year,
    Unit::Month,
    Unit::Week,
    Unit::Day,
    Unit::Hour,
    Unit::Minute,
    Unit::Second,
    Unit::Millisecond,
    Unit::Microsecond,
    Unit::Nanosecond,
];

/// A time zone from its text without making the harness depend on the identifier parser being right: a name
/// that the parser refuses is wrapped as it is (the parser itself is judged by C11 / C12).
pub fn zone_of(text: &str) -> Option<temporal_rs::TimeZone> {
    match temporal_rs::TimeZone::try_from_str(text) {
        Ok(z) => Some(z),
        Err(_) if text.chars().next().is_some_and(|c| c.is_ascii_alphabetic()) => Some(temporal_rs::TimeZone::IanaIdentifier(text.to_string())),
        Err(_) => None,
    }
}

use crate::imp::*;
use std::time::Instant as W;
use temporal_rs::options::Unit;

pub fn bench() {
    let n = 2_000_000i64;
    let epoch = pd(1970, 1, 1).unwrap();
    macro_rules! t {
        ($name:expr, $body:expr) => {{
            let t0 = W::now();
            let mut acc = 0u64;
            for i in 0..n {
                acc = acc.wrapping_add($body(i) as u64);
            }
            println!("{:<28} {:>8.1} ns/op ({acc})", $name, t0.elapsed().as_nanos() as f64 / n as f64);
        }};
    }
    let date = |i: i64| {
        let (y, m, d) = tmc_ref::r1::civil_from_days(i - 1_000_000);
        pd(y, m, d).unwrap()
    };
    t!("civil_from_days+try_new", |i| date(i).iso_day());
    t!("  + year/month/day", |i| { let d = date(i); d.year() as i64 + d.month() as i64 + d.day() as i64 });
    t!("  + month_code", |i| date(i).month_code().as_str().len());
    t!("  + day_of_week", |i| date(i).day_of_week());
    t!("  + day_of_year", |i| date(i).day_of_year());
    t!("  + days_in_month/year", |i| { let d = date(i); d.days_in_month() + d.days_in_year() + d.months_in_year() });
    t!("  + in_leap_year", |i| date(i).in_leap_year());
    t!("  + week_of_year", |i| date(i).week_of_year().unwrap().unwrap());
    t!("  + year_of_week", |i| date(i).year_of_week().unwrap().unwrap());
    let one = date_dur(0, 0, 0, 1).unwrap();
    t!("  + add(P1D)", |i| date(i).add(&one, None).unwrap().iso_day());
    t!("date_dur(E)", |i| date_dur(0, 0, 0, i).unwrap().days().as_inner() as i64);
    t!("  + epoch.until(day)", |i| epoch.until(&date(i), diff(Some(Unit::Day), None, None, None)).unwrap().days().as_inner() as i64);
}

mod bench;
mod checks;
mod conv;
mod engine;
mod imp;
mod providers;

use engine::*;

fn usage() -> ! {
    eprintln!("usage: tmc check <C01..C20> [--tier quick|thorough] | tmc replay <file>");
    std::process::exit(2)
}

fn main() {
    let args: Vec<String> = std::env::args().collect();
    if args.get(1).map(|s| s.as_str()) == Some("c20hist") {
        checks::c20::worker(args.get(2).map(|s| s.as_str()).unwrap_or(""));
        return;
    }
    if args.get(1).map(|s| s.as_str()) == Some("r7dump") {
        checks::c15::r7dump(args.get(2).map(|s| s.as_str()).unwrap_or("/dev/stdout"));
        return;
    }
    if args.get(1).map(|s| s.as_str()) == Some("parse") {
        engine::install_panic_hook();
        for s in &args[2..] {
            println!("{s:?}");
            for g in checks::c12::GOALS {
                println!("  {:<11} model={:?}  impl={}", format!("{g:?}"), checks::c12::model(g, s), checks::c12::implementation(g, s).describe());
            }
        }
        return;
    }
    if args.get(1).map(|s| s.as_str()) == Some("bench") {
        bench::bench();
        return;
    }
    if args.len() < 3 {
        usage();
    }
    install_panic_hook();
    let verif_dir = std::env::var("VERIF_DIR").unwrap_or_else(|_| "/verif".to_string());
    let profile: &'static str = match option_env!("TMC_PROFILE") {
        Some("unchecked") => "unchecked",
        _ => {
            if cfg!(debug_assertions) {
                "checked"
            } else {
                "unchecked"
            }
        }
    };
    let seed = std::env::var("VERIF_SEED").ok().and_then(|s| s.parse::<u64>().ok()).unwrap_or(0);
    let threads = std::env::var("TMC_THREADS").ok().and_then(|s| s.parse().ok()).unwrap_or_else(|| {
        std::thread::available_parallelism().map(|n| n.get()).unwrap_or(8)
    });
    let mut tier = match std::env::var("VERIF_TIER").ok().as_deref() {
        Some("thorough") => Tier::Thorough,
        _ => Tier::Quick,
    };
    let mut mode = Mode::Full;
    let mut i = 3;
    while i < args.len() {
        match args[i].as_str() {
            "--tier" => {
                i += 1;
                tier = match args.get(i).map(|s| s.as_str()) {
                    Some("quick") => Tier::Quick,
                    Some("thorough") => Tier::Thorough,
                    _ => usage(),
                };
            }
            "--mode" => {
                i += 1;
                mode = match args.get(i).map(|s| s.as_str()) {
                    Some("full") => Mode::Full,
                    Some("monitor") => Mode::Monitor,
                    Some("panic") => Mode::PanicOnly,
                    _ => usage(),
                };
            }
            _ => usage(),
        }
        i += 1;
    }
    let (prop, replay) = match args[1].as_str() {
        "check" => (args[2].clone(), None),
        "replay" => {
            let text = std::fs::read_to_string(&args[2]).expect("cannot read replay file");
            let v: serde_json::Value = serde_json::from_str(&text).expect("replay file is not JSON");
            tier = if v["tier"].as_str() == Some("thorough") { Tier::Thorough } else { Tier::Quick };
            (
                v["property"].as_str().expect("property").to_string(),
                Some((v["space"].as_str().expect("space").to_string(), v["index"].as_u64().expect("index"))),
            )
        }
        _ => usage(),
    };
    let findings = load_findings(&format!("{verif_dir}/known_findings.json"), &prop);
    let env = Env { prop: prop.clone(), tier, seed, findings, threads, profile, replay, verif_dir, mode };
    let code = checks::dispatch(&env);
    std::process::exit(code);
}

mod bench;
mod checks;
mod conv;
mod engine;
mod imp;
mod providers;

use engine::*;

fn usage() -> ! {
    eprintln!("usage: tmc check <C01..C20> [--tier quick|thorough] | tmc replay <file>");
    std::process::exit(2)
}

fn main() {
    let args: Vec<String> = std::env::args().collect();
    if args.get(1).map(|s| s.as_str()) == Some("c20hist") {
        checks::c20::worker(args.get(2).map(|s| s.as_str()).unwrap_or(""));
        return;
    }
    if args.get(1).map(|s| s.as_str()) == Some("c20names") {
        checks::c20::names_worker(args.get(2).and_then(|s| s.parse().ok()).unwrap_or(0), args.get(3).and_then(|s| s.parse().ok()).unwrap_or(1));
        return;
    }
    if args.get(1).map(|s| s.as_str()) == Some("r7dump") {
        checks::c15::r7dump(args.get(2).map(|s| s.as_str()).unwrap_or("/dev/stdout"));
        return;
    }
    if args.get(1).map(|s| s.as_str()) == Some("parse") {
        engine::install_panic_hook();
        for s in &args[2..] {
            println!("{s:?}");
            for g in checks::c12::GOALS {
                println!("  {:<11} model={:?}  impl={}", format!("{g:?}"), checks::c12::model(g, s), checks::c12::implementation(g, s).describe());
            }
        }
        return;
    }
    if args.get(1).map(|s| s.as_str()) == Some("round") {
        // tmc round "y,mo,w,d,h,mi,s,ms,us,ns" Y-M-D largest smallest inc mode   (units 0..9, mode name)
        engine::install_panic_hook();
        let f: Vec<f64> = args[2].split(',').map(|x| x.parse().unwrap()).collect();
        let mut ff = [0f64; 10];
        ff.copy_from_slice(&f);
        let d: Vec<i64> = args[3].rsplitn(3, '-').map(|x| x.parse().unwrap()).collect();
        let (day, month, year) = (d[0], d[1], if args[3].starts_with('-') { -d[2].abs() } else { d[2] });
        let (l, sm, inc): (usize, usize, i64) = (args[4].parse().unwrap(), args[5].parse().unwrap(), args[6].parse().unwrap());
        let mode = *tmc_ref::r4::ALL_MODES.iter().find(|m| m.name() == args[7]).unwrap();
        let rel = tmc_ref::r2::Ymd::new(year, month as u8, day as u8);
        println!("model  = {:?}", tmc_ref::r5r::round_relative(&ff, rel, l, inc, sm, mode));
        let dur = imp::dur10(ff).unwrap();
        let pd = imp::pd(year, month as u8, day as u8).unwrap();
        let got = engine::call(|| dur.round_with_provider(imp::round_opts(Some(imp::ALL_UNITS[l]), Some(imp::ALL_UNITS[sm]), Some(conv::imode(mode)), Some(inc as u32)), Some(temporal_rs::options::RelativeTo::PlainDate(pd.clone())), &providers::ErrProvider));
        println!("impl   = {}", got.map(|d| format!("{:?}", conv::dur_i128(&d))).describe());
        for u in 0..10 {
            let t = engine::call(|| dur.total_with_provider(imp::ALL_UNITS[u], Some(temporal_rs::options::RelativeTo::PlainDate(pd.clone())), &providers::ErrProvider));
            println!("total[{u}] model={:?} impl={}", tmc_ref::r5r::total_relative(&ff, rel, u), t.map(|x| x.as_inner()).describe());
        }
        return;
    }
    if args.get(1).map(|s| s.as_str()) == Some("leapscan") {
        // first ISO day of every leap month code of the chinese and dangi calendars (alphabet selection for C16)
        use std::str::FromStr;
        for cal_id in ["chinese", "dangi"] {
            let cal = temporal_rs::Calendar::from_str(cal_id).unwrap();
            let mut seen: std::collections::BTreeMap<String, (i64, u8, u8)> = Default::default();
            let mut e = tmc_ref::r1::days_from_civil(1000, 1, 1);
            let end = tmc_ref::r1::days_from_civil(3000, 1, 1);
            while e < end {
                let (y, m, d) = tmc_ref::r1::civil_from_days(e);
                if let Ok(date) = temporal_rs::PlainDate::try_new(y as i32, m, d, cal.clone()) {
                    let code = date.month_code().as_str().to_string();
                    if code.ends_with('L') && !seen.contains_key(&code) {
                        seen.insert(code, (y, m, d));
                    }
                }
                e += 14;
            }
            println!("{cal_id}: {seen:?}");
        }
        return;
    }
    if args.get(1).map(|s| s.as_str()) == Some("bench") {
        bench::bench();
        return;
    }
    if args.len() < 3 {
        usage();
    }
    install_panic_hook();
    let verif_dir = std::env::var("VERIF_DIR").unwrap_or_else(|_| "/verif".to_string());
    let profile: &'static str = match option_env!("TMC_PROFILE") {
        Some("unchecked") => "unchecked",
        _ => {
            if cfg!(debug_assertions) {
                "checked"
            } else {
                "unchecked"
            }
        }
    };
    let seed = std::env::var("VERIF_SEED").ok().and_then(|s| s.parse::<u64>().ok()).unwrap_or(0);
    let threads = std::env::var("TMC_THREADS").ok().and_then(|s| s.parse().ok()).unwrap_or_else(|| {
        std::thread::available_parallelism().map(|n| n.get()).unwrap_or(8)
    });
    let mut tier = match std::env::var("VERIF_TIER").ok().as_deref() {
        Some("thorough") => Tier::Thorough,
        _ => Tier::Quick,
    };
    let mut mode = Mode::Full;
    let mut i = 3;
    while i < args.len() {
        match args[i].as_str() {
            "--tier" => {
                i += 1;
                tier = match args.get(i).map(|s| s.as_str()) {
                    Some("quick") => Tier::Quick,
                    Some("thorough") => Tier::Thorough,
                    _ => usage(),
                };
            }
            "--mode" => {
                i += 1;
                mode = match args.get(i).map(|s| s.as_str()) {
                    Some("full") => Mode::Full,
                    Some("monitor") => Mode::Monitor,
                    Some("panic") => Mode::PanicOnly,
                    _ => usage(),
                };
            }
            _ => usage(),
        }
        i += 1;
    }
    let (prop, replay) = match args[1].as_str() {
        "check" => (args[2].clone(), None),
        "replay" => {
            let text = std::fs::read_to_string(&args[2]).expect("cannot read replay file");
            let v: serde_json::Value = serde_json::from_str(&text).expect("replay file is not JSON");
            tier = if v["tier"].as_str() == Some("thorough") { Tier::Thorough } else { Tier::Quick };
            (
                v["property"].as_str().expect("property").to_string(),
                Some((v["space"].as_str().expect("space").to_string(), v["index"].as_u64().expect("index"))),
            )
        }
        _ => usage(),
    };
    // the aggregating checks judge the other checks' spaces with a reduced oracle
    if prop == "C02" && mode == Mode::Full {
        mode = Mode::Monitor;
    }
    if prop == "C03" && mode == Mode::Full {
        mode = Mode::PanicOnly;
    }
    let findings = load_findings(&format!("{verif_dir}/known_findings.json"), &prop);
    let env = Env { prop: prop.clone(), tier, seed, findings, threads, profile, replay, verif_dir, mode };
    let code = checks::dispatch(&env);
    std::process::exit(code);
}

//! Harness-owned time-zone environments.

use temporal_rs::iso::IsoDateTime;
use temporal_rs::provider::{TimeZoneOffset, TimeZoneProvider, TransitionDirection};
use temporal_rs::time::EpochNanoseconds;
use temporal_rs::{TemporalError, TemporalResult};

/// A provider that must never be consulted (fixed-offset zones): every answer is an error.
pub struct ErrProvider;

impl TimeZoneProvider for ErrProvider {
    fn check_identifier(&self, _: &str) -> bool {
        false
    }
    fn get_named_tz_epoch_nanoseconds(&self, _: &str, _: IsoDateTime) -> TemporalResult<Vec<EpochNanoseconds>> {
        Err(TemporalError::general("ErrProvider consulted"))
    }
    fn get_named_tz_offset_nanoseconds(&self, _: &str, _: i128) -> TemporalResult<TimeZoneOffset> {
        Err(TemporalError::general("ErrProvider consulted"))
    }
    fn get_named_tz_transition(&self, _: &str, _: i128, _: TransitionDirection) -> TemporalResult<Option<EpochNanoseconds>> {
        Err(TemporalError::general("ErrProvider consulted"))
    }
}

/// A provider that knows exactly one zone, "UTC", with offset 0 (Instant strings without a zone ask for it).
pub struct UtcProvider;

impl TimeZoneProvider for UtcProvider {
    fn check_identifier(&self, id: &str) -> bool {
        id.eq_ignore_ascii_case("UTC")
    }
    fn get_named_tz_epoch_nanoseconds(&self, id: &str, local: IsoDateTime) -> TemporalResult<Vec<EpochNanoseconds>> {
        if !self.check_identifier(id) {
            return Err(TemporalError::range().with_message("UtcProvider: unknown zone"));
        }
        Ok(vec![local.as_nanoseconds()?])
    }
    fn get_named_tz_offset_nanoseconds(&self, id: &str, _: i128) -> TemporalResult<TimeZoneOffset> {
        if !self.check_identifier(id) {
            return Err(TemporalError::range().with_message("UtcProvider: unknown zone"));
        }
        Ok(TimeZoneOffset { transition_epoch: None, offset: 0 })
    }
    fn get_named_tz_transition(&self, _: &str, _: i128, _: TransitionDirection) -> TemporalResult<Option<EpochNanoseconds>> {
        Ok(None)
    }
}

/// A harness-owned zone served straight from an R6 rule set: every zone answer is decided by the harness.
pub struct SynthProvider<'a> {
    pub name: &'a str,
    pub zone: &'a tmc_ref::r6::Zone,
}

fn local_ns(dt: &IsoDateTime) -> i128 {
    let d = tmc_ref::r1::days_from_civil(dt.date.year as i64, dt.date.month, dt.date.day) as i128;
    d * 86_400_000_000_000
        + dt.time.hour as i128 * 3_600_000_000_000
        + dt.time.minute as i128 * 60_000_000_000
        + dt.time.second as i128 * 1_000_000_000
        + dt.time.millisecond as i128 * 1_000_000
        + dt.time.microsecond as i128 * 1_000
        + dt.time.nanosecond as i128
}

impl TimeZoneProvider for SynthProvider<'_> {
    fn check_identifier(&self, id: &str) -> bool {
        id.eq_ignore_ascii_case(self.name)
    }
    fn get_named_tz_epoch_nanoseconds(&self, id: &str, local: IsoDateTime) -> TemporalResult<Vec<EpochNanoseconds>> {
        if !self.check_identifier(id) {
            return Err(TemporalError::range().with_message("SynthProvider: unknown zone"));
        }
        self.zone.candidates(local_ns(&local)).into_iter().map(EpochNanoseconds::try_from).collect()
    }
    fn get_named_tz_offset_nanoseconds(&self, id: &str, t: i128) -> TemporalResult<TimeZoneOffset> {
        if !self.check_identifier(id) {
            return Err(TemporalError::range().with_message("SynthProvider: unknown zone"));
        }
        Ok(TimeZoneOffset { transition_epoch: self.zone.last_transition(t).map(|x| (x / 1_000_000_000) as i64), offset: self.zone.offset_at(t) })
    }
    fn get_named_tz_transition(&self, id: &str, t: i128, dir: TransitionDirection) -> TemporalResult<Option<EpochNanoseconds>> {
        if !self.check_identifier(id) {
            return Err(TemporalError::range().with_message("SynthProvider: unknown zone"));
        }
        let r = match dir {
            TransitionDirection::Next => self.zone.next_transition(t),
            TransitionDirection::Previous => self.zone.prev_transition(t),
        };
        r.map(EpochNanoseconds::try_from).transpose()
    }
}

/// The same harness-owned zone through a provider that does not say where an offset period starts
/// (`transition_epoch: None`, which the provider interface allows).
pub struct SilentProvider<'a> {
    pub inner: SynthProvider<'a>,
}

impl TimeZoneProvider for SilentProvider<'_> {
    fn check_identifier(&self, id: &str) -> bool {
        self.inner.check_identifier(id)
    }
    fn get_named_tz_epoch_nanoseconds(&self, id: &str, local: IsoDateTime) -> TemporalResult<Vec<EpochNanoseconds>> {
        self.inner.get_named_tz_epoch_nanoseconds(id, local)
    }
    fn get_named_tz_offset_nanoseconds(&self, id: &str, t: i128) -> TemporalResult<TimeZoneOffset> {
        self.inner.get_named_tz_offset_nanoseconds(id, t).map(|o| TimeZoneOffset { transition_epoch: None, offset: o.offset })
    }
    fn get_named_tz_transition(&self, id: &str, t: i128, dir: TransitionDirection) -> TemporalResult<Option<EpochNanoseconds>> {
        self.inner.get_named_tz_transition(id, t, dir)
    }
}

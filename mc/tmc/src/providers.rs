//! Harness-owned time-zone environments.

use temporal_rs::iso::IsoDateTime;
use temporal_rs::provider::{TimeZoneOffset, TimeZoneProvider, TransitionDirection};
use temporal_rs::time::EpochNanoseconds;
use temporal_rs::{TemporalError, TemporalResult};

/// A provider that must never be consulted (fixed-offset zones): every answer is an error.
pub struct ErrProvider;

impl TimeZoneProvider for ErrProvider {
    fn check_identifier(&self, _: &str) -> bool {
        false
    }
    fn get_named_tz_epoch_nanoseconds(&self, _: &str, _: IsoDateTime) -> TemporalResult<Vec<EpochNanoseconds>> {
        Err(TemporalError::general("ErrProvider consulted"))
    }
    fn get_named_tz_offset_nanoseconds(&self, _: &str, _: i128) -> TemporalResult<TimeZoneOffset> {
        Err(TemporalError::general("ErrProvider consulted"))
    }
    fn get_named_tz_transition(&self, _: &str, _: i128, _: TransitionDirection) -> TemporalResult<Option<EpochNanoseconds>> {
        Err(TemporalError::general("ErrProvider consulted"))
    }
}

/// A provider that knows exactly one zone, "UTC", with offset 0 (Instant strings without a zone ask for it).
pub struct UtcProvider;

impl TimeZoneProvider for UtcProvider {
    fn check_identifier(&self, id: &str) -> bool {
        id.eq_ignore_ascii_case("UTC")
    }
    fn get_named_tz_epoch_nanoseconds(&self, id: &str, local: IsoDateTime) -> TemporalResult<Vec<EpochNanoseconds>> {
        if !self.check_identifier(id) {
            return Err(TemporalError::range().with_message("UtcProvider: unknown zone"));
        }
        Ok(vec![local.as_nanoseconds()?])
    }
    fn get_named_tz_offset_nanoseconds(&self, id: &str, _: i128) -> TemporalResult<TimeZoneOffset> {
        if !self.check_identifier(id) {
            return Err(TemporalError::range().with_message("UtcProvider: unknown zone"));
        }
        Ok(TimeZoneOffset { transition_epoch: None, offset: 0 })
    }
    fn get_named_tz_transition(&self, _: &str, _: i128, _: TransitionDirection) -> TemporalResult<Option<EpochNanoseconds>> {
        Ok(None)
    }
}

//! Harness-owned time-zone environments.

use temporal_rs::iso::IsoDateTime;
use temporal_rs::provider::{TimeZoneOffset, TimeZoneProvider, TransitionDirection};
use temporal_rs::time::EpochNanoseconds;
use temporal_rs::{TemporalError, TemporalResult};

/// A provider that must never be consulted (fixed-offset zones): every answer is an error.
pub struct ErrProvider;

impl TimeZoneProvider for ErrProvider {
    fn check_identifier(&self, _: &str) -> bool {
        false
    }
    fn get_named_tz_epoch_nanoseconds(&self, _: &str, _: IsoDateTime) -> TemporalResult<Vec<EpochNanoseconds>> {
        Err(TemporalError::general("ErrProvider consulted"))
    }
    fn get_named_tz_offset_nanoseconds(&self, _: &str, _: i128) -> TemporalResult<TimeZoneOffset> {
        Err(TemporalError::general("ErrProvider consulted"))
    }
    fn get_named_tz_transition(&self, _: &str, _: i128, _: TransitionDirection) -> TemporalResult<Option<EpochNanoseconds>> {
        Err(TemporalError::general("ErrProvider consulted"))
    }
}

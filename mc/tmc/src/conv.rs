//! Conversions between reference-model values and implementation values.

use temporal_rs::options::{RoundingMode, Unit};
use temporal_rs::{Calendar, Duration, PlainDateTime, PlainTime, TemporalResult};
use tmc_ref::r1;
use tmc_ref::r3::{self, TUnit};
use tmc_ref::r4::Mode;

pub fn imode(m: Mode) -> RoundingMode {
    match m {
        Mode::Ceil => RoundingMode::Ceil,
        Mode::Floor => RoundingMode::Floor,
        Mode::Expand => RoundingMode::Expand,
        Mode::Trunc => RoundingMode::Trunc,
        Mode::HalfCeil => RoundingMode::HalfCeil,
        Mode::HalfFloor => RoundingMode::HalfFloor,
        Mode::HalfExpand => RoundingMode::HalfExpand,
        Mode::HalfTrunc => RoundingMode::HalfTrunc,
        Mode::HalfEven => RoundingMode::HalfEven,
    }
}

/// Time units by R3 index (0 = day … 6 = nanosecond).
pub fn iunit(t: TUnit) -> Unit {
    [Unit::Day, Unit::Hour, Unit::Minute, Unit::Second, Unit::Millisecond, Unit::Microsecond, Unit::Nanosecond][t.0]
}
pub fn unit_name(t: TUnit) -> &'static str {
    ["day", "hour", "minute", "second", "millisecond", "microsecond", "nanosecond"][t.0]
}
pub fn unit_ns(t: TUnit) -> i128 {
    r3::UNIT_NS[t.0]
}
/// MaximumTemporalDurationRoundingIncrement for time units
pub fn unit_max(t: TUnit) -> u64 {
    [1, 24, 60, 60, 1000, 1000, 1000][t.0]
}

/// Split a time of day in ns into (h, m, s, ms, µs, ns).
pub fn tod_fields(t: i128) -> (u8, u8, u8, u16, u16, u16) {
    assert!((0..r3::NS_PER_DAY).contains(&t));
    let b = r3::balance(t, r3::T_HOUR);
    (b[1] as u8, b[2] as u8, b[3] as u8, b[4] as u16, b[5] as u16, b[6] as u16)
}

pub fn plain_time(t: i128) -> TemporalResult<PlainTime> {
    let f = tod_fields(t);
    PlainTime::try_new(f.0, f.1, f.2, f.3, f.4, f.5)
}

pub fn time_ns(t: &PlainTime) -> i128 {
    t.hour() as i128 * 3_600_000_000_000
        + t.minute() as i128 * 60_000_000_000
        + t.second() as i128 * 1_000_000_000
        + t.millisecond() as i128 * 1_000_000
        + t.microsecond() as i128 * 1_000
        + t.nanosecond() as i128
}

/// A date-time as (epoch day, time of day ns).
pub fn plain_date_time(day: i64, t: i128) -> TemporalResult<PlainDateTime> {
    let (y, m, d) = r1::civil_from_days(day);
    let f = tod_fields(t);
    PlainDateTime::try_new(y as i32, m, d, f.0, f.1, f.2, f.3, f.4, f.5, Calendar::default())
}

/// (epoch day, time-of-day ns) read from an implementation date-time through its getters.
pub fn dt_parts(p: &PlainDateTime) -> (i64, i128) {
    let day = r1::days_from_civil(p.year() as i64, p.month(), p.day());
    let t = p.hour() as i128 * 3_600_000_000_000
        + p.minute() as i128 * 60_000_000_000
        + p.second() as i128 * 1_000_000_000
        + p.millisecond() as i128 * 1_000_000
        + p.microsecond() as i128 * 1_000
        + p.nanosecond() as i128;
    (day, t)
}

/// Is the date-time (day, tod) inside the PlainDateTime limits?
pub fn dt_in_limits(day: i64, t: i128) -> bool {
    let ns = day as i128 * r3::NS_PER_DAY + t;
    ns > -r1::MAX_INSTANT_NS - r3::NS_PER_DAY && ns < r1::MAX_INSTANT_NS + r3::NS_PER_DAY
}

/// The ten fields of an implementation duration, as exact integers (fields are integral doubles).
pub fn dur_i128(d: &Duration) -> [i128; 10] {
    let f = crate::imp::dur_fields(d);
    let mut o = [0i128; 10];
    for i in 0..10 {
        o[i] = f[i] as i128;
    }
    o
}

/// Expected ten fields for a pure time duration balanced by R3 (days at index 3).
pub fn balanced_fields(total: i128, largest: TUnit) -> [f64; 10] {
    let b = r3::balance(total, largest);
    [0.0, 0.0, 0.0, b[0] as f64, b[1] as f64, b[2] as f64, b[3] as f64, b[4] as f64, b[5] as f64, b[6] as f64]
}

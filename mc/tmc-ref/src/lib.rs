//! Reference models for the temporal_rs model-checking harness. This crate deliberately has no
//! dependency on temporal_rs: the models are written from the specification text.

pub mod r1;
pub mod r2;
pub mod r3;
pub mod r4;
pub mod r9;
pub mod r5;
pub mod r10;
pub mod r6;
pub mod r7;
pub mod r8f;
pub mod r8p;
pub mod r5r;
pub mod r5z;

//! R6 — time-zone rule sets and the conversions defined over them, by brute force.
//! A zone = initial offset + sorted list of (transition instant, offset after). Offsets are whole
//! seconds (the provider interface carries seconds), instants are ns.

pub const NS: i128 = 1_000_000_000;
pub const NS_PER_DAY: i128 = 86_400 * NS;

#[derive(Debug, Clone, PartialEq, Eq)]
pub struct Zone {
    pub initial: i64,
    /// (instant in ns, offset in seconds after the instant), strictly increasing instants
    pub trans: Vec<(i128, i64)>,
}

#[derive(Debug, Clone, Copy, PartialEq, Eq, Hash)]
pub enum Disamb {
    Compatible,
    Earlier,
    Later,
    Reject,
}
pub const ALL_DISAMB: [Disamb; 4] = [Disamb::Compatible, Disamb::Earlier, Disamb::Later, Disamb::Reject];

#[derive(Debug, Clone, Copy, PartialEq, Eq, Hash)]
pub enum OffsetOpt {
    Use,
    Prefer,
    Ignore,
    Reject,
}
pub const ALL_OFFSET_OPT: [OffsetOpt; 4] = [OffsetOpt::Use, OffsetOpt::Prefer, OffsetOpt::Ignore, OffsetOpt::Reject];

/// How an offset came with the input.
#[derive(Debug, Clone, Copy, PartialEq, Eq)]
pub enum OffsetInput {
    /// no offset: wall-clock time
    Wall,
    /// `Z`: the exact UTC instant
    Exact,
    /// an explicit offset in ns; `minute_precision`: given without seconds (may match to the minute)
    Offset { ns: i128, minute_precision: bool },
}

impl Zone {
    pub fn fixed(offset_s: i64) -> Zone {
        Zone { initial: offset_s, trans: vec![] }
    }

    pub fn offset_at(&self, t: i128) -> i64 {
        let mut o = self.initial;
        for (ti, oi) in &self.trans {
            if *ti <= t {
                o = *oi;
            } else {
                break;
            }
        }
        o
    }

    /// The instant of the last transition at or before `t`.
    pub fn last_transition(&self, t: i128) -> Option<i128> {
        self.trans.iter().rev().find(|(ti, _)| *ti <= t).map(|x| x.0)
    }
    pub fn next_transition(&self, t: i128) -> Option<i128> {
        self.trans.iter().find(|(ti, _)| *ti > t).map(|x| x.0)
    }
    pub fn prev_transition(&self, t: i128) -> Option<i128> {
        self.trans.iter().rev().find(|(ti, _)| *ti < t).map(|x| x.0)
    }

    pub fn distinct_offsets(&self) -> Vec<i64> {
        let mut v = vec![self.initial];
        v.extend(self.trans.iter().map(|x| x.1));
        v.sort();
        v.dedup();
        v
    }

    /// Wall-clock reading of an instant (as ns on the local line).
    pub fn local_of(&self, t: i128) -> i128 {
        t + self.offset_at(t) as i128 * NS
    }

    /// All instants whose wall-clock reading is `local`, ascending (GetPossibleEpochNanoseconds).
    pub fn candidates(&self, local: i128) -> Vec<i128> {
        let mut v: Vec<i128> = self
            .distinct_offsets()
            .into_iter()
            .map(|o| (local - o as i128 * NS, o))
            .filter(|(t, o)| self.offset_at(*t) == *o)
            .map(|x| x.0)
            .collect();
        v.sort();
        v.dedup();
        v
    }

    /// Local-line coverage of the offset periods: [start + off, end + off) per period.
    fn local_intervals(&self) -> Vec<(i128, i128)> {
        let mut v = vec![];
        let mut start = i128::MIN / 4;
        let mut off = self.initial;
        for (t, o) in &self.trans {
            v.push((start + off as i128 * NS, *t + off as i128 * NS));
            start = *t;
            off = *o;
        }
        v.push((start + off as i128 * NS, i128::MAX / 4));
        v
    }

    /// For a skipped local time: (offset before the gap, offset after the gap), per the specification's
    /// definition (latest local time before / earliest after that exists).
    pub fn gap_offsets(&self, local: i128) -> Option<(i64, i64)> {
        if !self.candidates(local).is_empty() {
            return None;
        }
        let iv = self.local_intervals();
        let gs = iv.iter().map(|x| x.1).filter(|e| *e <= local).max()?;
        let ge = iv.iter().map(|x| x.0).filter(|s| *s > local).min()?;
        let before = self.candidates(gs - 1);
        let after = self.candidates(ge);
        Some((self.offset_at(*before.first()?), self.offset_at(*after.first()?)))
    }

    /// GetEpochNanosecondsFor(zone, local, disambiguation). Err(()) = RangeError.
    pub fn resolve(&self, local: i128, d: Disamb) -> Result<i128, ()> {
        let c = self.candidates(local);
        match c.len() {
            1 => Ok(c[0]),
            0 => {
                if d == Disamb::Reject {
                    return Err(());
                }
                let (ob, oa) = self.gap_offsets(local).ok_or(())?;
                let shift = (oa - ob) as i128 * NS;
                match d {
                    Disamb::Earlier => {
                        let p = self.candidates(local - shift);
                        p.first().copied().ok_or(())
                    }
                    _ => {
                        let p = self.candidates(local + shift);
                        p.last().copied().ok_or(())
                    }
                }
            }
            _ => match d {
                Disamb::Compatible | Disamb::Earlier => Ok(c[0]),
                Disamb::Later => Ok(*c.last().unwrap()),
                Disamb::Reject => Err(()),
            },
        }
    }

    /// InterpretISODateTimeOffset.
    pub fn interpret(&self, local: i128, input: OffsetInput, d: Disamb, opt: OffsetOpt) -> Result<i128, ()> {
        match input {
            OffsetInput::Wall => self.resolve(local, d),
            OffsetInput::Exact => Ok(local),
            OffsetInput::Offset { ns, minute_precision } => match opt {
                OffsetOpt::Ignore => self.resolve(local, d),
                OffsetOpt::Use => Ok(local - ns),
                OffsetOpt::Prefer | OffsetOpt::Reject => {
                    for c in self.candidates(local) {
                        let co = local - c;
                        if co == ns {
                            return Ok(c);
                        }
                        if minute_precision && crate::r4::round(co, 60 * NS, crate::r4::Mode::HalfExpand) == ns {
                            return Ok(c);
                        }
                    }
                    if opt == OffsetOpt::Reject {
                        Err(())
                    } else {
                        self.resolve(local, d)
                    }
                }
            },
        }
    }

    /// First instant of the local calendar day starting at local midnight `local_midnight` (ns on the
    /// local line, multiple of a day): min { t : local_of(t) >= local_midnight, local date(t) = that date }.
    pub fn start_of_day(&self, local_midnight: i128) -> Option<i128> {
        // candidates for every boundary: instants whose reading is inside the day
        let day_end = local_midnight + NS_PER_DAY;
        let mut best: Option<i128> = None;
        let mut consider = |t: i128| {
            let l = self.local_of(t);
            if l >= local_midnight && l < day_end {
                best = Some(best.map_or(t, |b: i128| b.min(t)));
            }
        };
        for c in self.candidates(local_midnight) {
            consider(c);
        }
        for (t, _) in &self.trans {
            consider(*t);
        }
        best
    }
}

#[cfg(test)]
mod tests {
    use super::*;
    #[test]
    fn gap_and_overlap() {
        // -5h until T, then -4h (spring forward at 02:00 local), back at T2
        let t1 = 1_000_000 * NS;
        let t2 = t1 + 180 * 86_400 * NS;
        let z = Zone { initial: -18_000, trans: vec![(t1, -14_400), (t2, -18_000)] };
        let gap_local = t1 - 18_000 * NS + 1_800 * NS; // 30 min into the gap
        assert!(z.candidates(gap_local).is_empty());
        assert_eq!(z.gap_offsets(gap_local), Some((-18_000, -14_400)));
        assert_eq!(z.resolve(gap_local, Disamb::Compatible), Ok(gap_local + 18_000 * NS));
        assert_eq!(z.resolve(gap_local, Disamb::Earlier), Ok(gap_local + 14_400 * NS));
        assert!(z.resolve(gap_local, Disamb::Reject).is_err());
        let ov_local = t2 - 18_000 * NS + 1_800 * NS; // in the repeated hour
        let c = z.candidates(ov_local);
        assert_eq!(c.len(), 2);
        assert_eq!(z.resolve(ov_local, Disamb::Compatible), Ok(c[0]));
        assert_eq!(z.resolve(ov_local, Disamb::Later), Ok(c[1]));
        assert_eq!(z.interpret(ov_local, OffsetInput::Offset { ns: -18_000 * NS, minute_precision: true }, Disamb::Compatible, OffsetOpt::Reject), Ok(c[1]));
        // start of day on the spring-forward day is local midnight resolved normally
        let midnight = (t1 - 18_000 * NS).div_euclid(NS_PER_DAY) * NS_PER_DAY;
        assert_eq!(z.start_of_day(midnight), Some(midnight + 18_000 * NS));
    }
}

// ---------------------------------------------------------------------------------------------
// Zoned arithmetic (AddZonedDateTime, DifferenceZonedDateTime, start of day, hours in day)

use crate::r1::{civil_from_days, MAX_INSTANT_NS};
use crate::r2::{add_iso_date, diff_iso_date, DUnit, DateDur, Dt, Overflow, Ymd};

fn split(l: i128) -> (i64, i128) {
    (l.div_euclid(NS_PER_DAY) as i64, l.rem_euclid(NS_PER_DAY))
}

impl Zone {
    /// AddZonedDateTime: date units on the wall clock (re-resolved `compatible`), time units on the exact timeline.
    pub fn add_zoned(&self, t: i128, date: DateDur, time_ns: i128, overflow: Overflow) -> Result<i128, ()> {
        let base = if date == DateDur::default() {
            t
        } else {
            let (day, tod) = split(self.local_of(t));
            let (y, m, d) = civil_from_days(day);
            let added = add_iso_date(Ymd::new(y, m, d), date, overflow).map_err(|_| ())?;
            if !Dt::new(added, tod).in_limits() {
                return Err(());
            }
            self.resolve(added.epoch_day() as i128 * NS_PER_DAY + tod, Disamb::Compatible)?
        };
        let r = base + time_ns;
        if r.abs() > MAX_INSTANT_NS {
            return Err(());
        }
        Ok(r)
    }

    /// DifferenceZonedDateTime(ns1, ns2, zone, largestUnit) for a date largest unit: (date part, time part in ns).
    pub fn diff_zoned(&self, t1: i128, t2: i128, largest: DUnit) -> Result<(DateDur, i128), ()> {
        if t1 == t2 {
            return Ok((DateDur::default(), 0));
        }
        let (sd, st) = split(self.local_of(t1));
        let (ed, et) = split(self.local_of(t2));
        // both instants read the same local date: the difference is the elapsed time (no day can be borrowed)
        if sd == ed {
            return Ok((DateDur::default(), t2 - t1));
        }
        let sign: i128 = if t2 - t1 < 0 { -1 } else { 1 };
        let max_corr = if sign == 1 { 2 } else { 1 };
        let mut corr: i128 = if (et - st).signum() == -sign { 1 } else { 0 };
        let mut found: Option<(i64, i128)> = None;
        while corr <= max_corr {
            let iday = ed - (corr * sign) as i64;
            let ins = self.resolve(iday as i128 * NS_PER_DAY + st, Disamb::Compatible)?;
            let time = t2 - ins;
            if time.signum() != -sign {
                found = Some((iday, time));
                break;
            }
            corr += 1;
        }
        let (iday, time) = found.ok_or(())?;
        let dd = diff_iso_date(Ymd::from_epoch_day(sd), Ymd::from_epoch_day(iday), largest);
        Ok((dd, time))
    }

    /// Do the instants whose local reading falls on the day starting at `local_midnight` form one
    /// uninterrupted stretch of the timeline? (Not when a forward change of about a day is reverted soon after.)
    pub fn date_is_contiguous(&self, local_midnight: i128) -> bool {
        let day_end = local_midnight + NS_PER_DAY;
        let mut parts: Vec<(i128, i128)> = vec![];
        for k in 0..=self.trans.len() {
            let start = if k == 0 { i128::MIN / 4 } else { self.trans[k - 1].0 };
            let end = if k == self.trans.len() { i128::MAX / 4 } else { self.trans[k].0 };
            let off = if k == 0 { self.initial } else { self.trans[k - 1].1 } as i128 * 1_000_000_000;
            let (a, b) = (start.max(local_midnight - off), end.min(day_end - off));
            if a < b {
                parts.push((a, b));
            }
        }
        parts.sort();
        parts.windows(2).all(|w| w[0].1 == w[1].0)
    }

    /// First instant of the local calendar day that contains `t`.
    pub fn start_of_day_of(&self, t: i128) -> Option<i128> {
        let (day, _) = split(self.local_of(t));
        self.start_of_day(day as i128 * NS_PER_DAY)
    }

    /// Real elapsed length of the local day containing `t`, in ns.
    pub fn day_length(&self, t: i128) -> Option<i128> {
        let (day, _) = split(self.local_of(t));
        let a = self.start_of_day(day as i128 * NS_PER_DAY)?;
        let b = self.start_of_day((day + 1) as i128 * NS_PER_DAY)?;
        Some(b - a)
    }
}

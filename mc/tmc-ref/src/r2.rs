//! R2 — ISO date arithmetic (AddISODate / DifferenceISODate / limits), over R1, in i64/i128.
//! Transcribed from the specification steps; no 32-bit intermediates.

use crate::r1::*;

#[derive(Debug, Clone, Copy, PartialEq, Eq, PartialOrd, Ord, Hash)]
pub struct Ymd {
    pub y: i64,
    pub m: u8,
    pub d: u8,
}

impl Ymd {
    pub fn new(y: i64, m: u8, d: u8) -> Self {
        Ymd { y, m, d }
    }
    pub fn epoch_day(&self) -> i64 {
        days_from_civil(self.y, self.m, self.d)
    }
    pub fn from_epoch_day(e: i64) -> Self {
        let (y, m, d) = civil_from_days(e);
        Ymd { y, m, d }
    }
    pub fn in_limits(&self) -> bool {
        date_in_limits(self.y, self.m, self.d)
    }
}

#[derive(Debug, Clone, Copy, PartialEq, Eq, Hash, Default)]
pub struct DateDur {
    pub years: i64,
    pub months: i64,
    pub weeks: i64,
    pub days: i64,
}

impl DateDur {
    pub fn neg(&self) -> Self {
        DateDur { years: -self.years, months: -self.months, weeks: -self.weeks, days: -self.days }
    }
    pub fn sign(&self) -> i32 {
        for v in [self.years, self.months, self.weeks, self.days] {
            if v != 0 {
                return v.signum() as i32;
            }
        }
        0
    }
    pub fn sign_uniform(&self) -> bool {
        let vs = [self.years, self.months, self.weeks, self.days];
        !(vs.iter().any(|v| *v > 0) && vs.iter().any(|v| *v < 0))
    }
}

#[derive(Debug, Clone, Copy, PartialEq, Eq)]
pub enum Overflow {
    Constrain,
    Reject,
}

#[derive(Debug, Clone, Copy, PartialEq, Eq)]
pub enum RErr {
    Range,
    Type,
}

/// BalanceISOYearMonth
pub fn balance_year_month(y: i64, m: i64) -> (i64, u8) {
    let y = y + (m - 1).div_euclid(12);
    let m = (m - 1).rem_euclid(12) + 1;
    (y, m as u8)
}

/// AddISODate(date, years, months, weeks, days, overflow) followed by the ISO date limit check.
pub fn add_iso_date(date: Ymd, dur: DateDur, overflow: Overflow) -> Result<Ymd, RErr> {
    let (iy, im) = balance_year_month(date.y + dur.years, date.m as i64 + dur.months);
    let dim = days_in_month(iy, im);
    let day = if date.d > dim {
        match overflow {
            Overflow::Constrain => dim,
            Overflow::Reject => return Err(RErr::Range),
        }
    } else {
        date.d
    };
    // the intermediate must itself be a representable date (the spec's RegulateISODate does not
    // range check, but an intermediate year outside the limits can never come back inside
    // with |days| ≤ the day limits that a valid Duration allows …) — we do not judge it here: the
    // final result is range checked, and callers treat "intermediate out of limits, final inside"
    // as unjudged through `add_iso_date_intermediate_in_limits`.
    let e = days_from_civil(iy, im, day) as i128 + dur.days as i128 + 7 * dur.weeks as i128;
    if e < MIN_DAY as i128 || e > MAX_DAY as i128 {
        return Err(RErr::Range);
    }
    Ok(Ymd::from_epoch_day(e as i64))
}

/// True when the year-month intermediate of AddISODate is itself inside the year limits (so that
/// implementations that range check the intermediate agree with the ones that do not).
pub fn add_intermediate_in_limits(date: Ymd, dur: DateDur) -> bool {
    let (iy, im) = balance_year_month(date.y + dur.years, date.m as i64 + dur.months);
    let d = date.d.min(days_in_month(iy, im));
    date_in_limits(iy, im, d)
}

fn cmp3(a: (i64, i64, i64), b: (i64, i64, i64)) -> i64 {
    match a.cmp(&b) {
        core::cmp::Ordering::Less => -1,
        core::cmp::Ordering::Equal => 0,
        core::cmp::Ordering::Greater => 1,
    }
}

/// ISODateSurpasses(sign, y1, m1, d1, isoDate2) — lexicographic comparison of the *unregulated* triple.
pub fn surpasses(sign: i64, y1: i64, m1: u8, d1: u8, two: Ymd) -> bool {
    sign * cmp3((y1, m1 as i64, d1 as i64), (two.y, two.m as i64, two.d as i64)) == 1
}

#[derive(Debug, Clone, Copy, PartialEq, Eq, Hash)]
pub enum DUnit {
    Day,
    Week,
    Month,
    Year,
}

/// CalendarDateUntil for the ISO calendar (the "surpasses" formulation), searching for the largest
/// non-surpassing count. The search starts from an estimate and then *verifies* the defining
/// property (count k does not surpass, k+sign does), so it equals the linear search of the spec.
pub fn diff_iso_date(one: Ymd, two: Ymd, largest: DUnit) -> DateDur {
    let sign = -cmp3(
        (one.y, one.m as i64, one.d as i64),
        (two.y, two.m as i64, two.d as i64),
    );
    if sign == 0 {
        return DateDur::default();
    }
    let mut years = 0i64;
    if largest == DUnit::Year {
        // largest k (in direction sign) with !surpasses(y1 + k)
        let mut k = two.y - one.y; // estimate, off by at most one
        while k != 0 && surpasses(sign, one.y + k, one.m, one.d, two) {
            k -= sign;
        }
        while !surpasses(sign, one.y + k + sign, one.m, one.d, two) {
            k += sign;
        }
        // k = 0 never surpasses (sign is the direction towards `two`)
        debug_assert!(k == 0 || !surpasses(sign, one.y + k, one.m, one.d, two));
        years = k;
    }
    let mut months = 0i64;
    if largest == DUnit::Year || largest == DUnit::Month {
        let sur = |k: i64| {
            let (iy, im) = balance_year_month(one.y + years, one.m as i64 + k);
            surpasses(sign, iy, im, one.d, two)
        };
        let mut k = (two.y - (one.y + years)) * 12 + (two.m as i64 - one.m as i64);
        while k != 0 && sur(k) {
            k -= sign;
        }
        while !sur(k + sign) {
            k += sign;
        }
        months = k;
    }
    let (iy, im) = balance_year_month(one.y + years, one.m as i64 + months);
    let cd = one.d.min(days_in_month(iy, im));
    let base = days_from_civil(iy, im, cd);
    let total = two.epoch_day() - base;
    let (weeks, days) = if largest == DUnit::Week {
        // largest k with !surpasses(base + 7k): truncating division
        (total / 7, total % 7)
    } else {
        (0, total)
    };
    DateDur { years, months, weeks, days }
}

/// Slow definitional version (pure linear search as in the specification text) used as a
/// self-check of `diff_iso_date` on small spans.
pub fn diff_iso_date_linear(one: Ymd, two: Ymd, largest: DUnit) -> DateDur {
    let sign = -cmp3(
        (one.y, one.m as i64, one.d as i64),
        (two.y, two.m as i64, two.d as i64),
    );
    if sign == 0 {
        return DateDur::default();
    }
    let mut years = 0;
    if largest == DUnit::Year {
        let mut c = sign;
        while !surpasses(sign, one.y + c, one.m, one.d, two) {
            years = c;
            c += sign;
        }
    }
    let mut months = 0;
    if largest == DUnit::Year || largest == DUnit::Month {
        let mut c = sign;
        let mut inter = balance_year_month(one.y + years, one.m as i64 + c);
        while !surpasses(sign, inter.0, inter.1, one.d, two) {
            months = c;
            c += sign;
            inter = balance_year_month(inter.0, inter.1 as i64 + sign);
        }
    }
    let (iy, im) = balance_year_month(one.y + years, one.m as i64 + months);
    let cd = one.d.min(days_in_month(iy, im));
    let base = days_from_civil(iy, im, cd);
    let mut weeks = 0;
    if largest == DUnit::Week {
        let mut c = sign;
        loop {
            let (y, m, d) = civil_from_days(base + 7 * c);
            if surpasses(sign, y, m, d, two) {
                break;
            }
            weeks = c;
            c += sign;
        }
    }
    let mut days = 0;
    let mut c = sign;
    loop {
        let (y, m, d) = civil_from_days(base + 7 * weeks + c);
        if surpasses(sign, y, m, d, two) {
            break;
        }
        days = c;
        c += sign;
    }
    DateDur { years, months, weeks, days }
}

#[cfg(test)]
mod tests {
    use super::*;
    #[test]
    fn basics() {
        let a = Ymd::new(2020, 1, 31);
        let b = Ymd::new(2020, 2, 29);
        assert_eq!(diff_iso_date(a, b, DUnit::Month), DateDur { years: 0, months: 0, weeks: 0, days: 29 });
        assert_eq!(
            add_iso_date(a, DateDur { months: 1, ..Default::default() }, Overflow::Constrain),
            Ok(b)
        );
        assert_eq!(
            add_iso_date(a, DateDur { months: 1, ..Default::default() }, Overflow::Reject),
            Err(RErr::Range)
        );
        for (x, y) in [((2019, 3, 31), (2021, 2, 28)), ((2021, 2, 28), (2019, 3, 31)), ((2020, 2, 29), (2024, 2, 29))] {
            let x = Ymd::new(x.0, x.1, x.2);
            let y = Ymd::new(y.0, y.1, y.2);
            for u in [DUnit::Day, DUnit::Week, DUnit::Month, DUnit::Year] {
                assert_eq!(diff_iso_date(x, y, u), diff_iso_date_linear(x, y, u));
            }
        }
    }
}

// ---------------------------------------------------------------------------------------------
// Date-times: (date, time-of-day ns)

pub const NS_PER_DAY: i128 = 86_400_000_000_000;

#[derive(Debug, Clone, Copy, PartialEq, Eq, PartialOrd, Ord, Hash)]
pub struct Dt {
    pub date: Ymd,
    pub tod: i128,
}

impl Dt {
    pub fn new(date: Ymd, tod: i128) -> Self {
        Dt { date, tod }
    }
    pub fn epoch_ns(&self) -> i128 {
        self.date.epoch_day() as i128 * NS_PER_DAY + self.tod
    }
    /// ISODateTimeWithinLimits: strictly between the instant limits widened by one day.
    pub fn in_limits(&self) -> bool {
        let ns = self.epoch_ns();
        ns > -(MAX_INSTANT_NS + NS_PER_DAY) && ns < MAX_INSTANT_NS + NS_PER_DAY
    }
}

/// AddDateTime: time part first with exact carry into days, then the date part as for plain dates.
pub fn add_date_time(dt: Dt, dur: DateDur, time_ns: i128, overflow: Overflow) -> Result<Dt, RErr> {
    let t = dt.tod + time_ns;
    let carry = t.div_euclid(NS_PER_DAY);
    let tod = t.rem_euclid(NS_PER_DAY);
    // AddISODate with days + carry; the date itself must be a representable date
    let (iy, im) = balance_year_month(dt.date.y + dur.years, dt.date.m as i64 + dur.months);
    let dim = days_in_month(iy, im);
    let day = if dt.date.d > dim {
        match overflow {
            Overflow::Constrain => dim,
            Overflow::Reject => return Err(RErr::Range),
        }
    } else {
        dt.date.d
    };
    let e = days_from_civil(iy, im, day) as i128 + dur.days as i128 + 7 * dur.weeks as i128 + carry;
    if e < MIN_DAY as i128 || e > MAX_DAY as i128 {
        return Err(RErr::Range);
    }
    let r = Dt { date: Ymd::from_epoch_day(e as i64), tod };
    if !r.in_limits() {
        return Err(RErr::Range);
    }
    Ok(r)
}

/// DifferenceISODateTime: returns the date part and the exact time part in ns.
/// `date_largest`: None when the largest unit is a time unit (then days are folded into the time part).
pub fn diff_date_time(a: Dt, b: Dt, date_largest: Option<DUnit>) -> (DateDur, i128) {
    let mut time = b.tod - a.tod;
    let time_sign = time.signum();
    let date_sign = (b.date.cmp(&a.date) as i8) as i128;
    let mut adjusted = b.date;
    if time_sign != 0 && time_sign == -date_sign {
        adjusted = Ymd::from_epoch_day(b.date.epoch_day() + time_sign as i64);
        time += -time_sign * NS_PER_DAY;
    }
    let dd = diff_iso_date(a.date, adjusted, date_largest.unwrap_or(DUnit::Day));
    if date_largest.is_none() {
        time += dd.days as i128 * NS_PER_DAY;
        return (DateDur::default(), time);
    }
    (dd, time)
}

//! R8 (recogniser half) — the Temporal ISO 8601 / RFC 9557 string grammar, one function per
//! production, as a non-deterministic recursive-descent recogniser: every production returns ALL
//! the positions at which it can end (with the value it denotes), so that alternatives and
//! optional parts are explored without any commitment order. A string matches a goal iff some
//! derivation consumes it completely. The type-specific rules of the property (no `Z` for plain
//! types, offset required for instants, zone annotation required for zoned values, critical
//! annotations, calendar restrictions of the short forms, time/month-day ambiguity) sit on top in
//! the `goal_*` functions.

use crate::r1::days_in_month;

#[derive(Clone, Copy, Debug, PartialEq, Eq, Hash)]
pub struct Time {
    pub h: u8,
    pub mi: u8,
    /// 0..=60 as written
    pub s: u8,
    pub frac_ns: u32,
    /// more than nine fractional digits (only ever produced in raw mode)
    pub long_frac: bool,
}

impl Time {
    /// nanoseconds since midnight (a leap second reads as second 59)
    pub fn ns_of_day(&self) -> i128 {
        (self.h as i128 * 3600 + self.mi as i128 * 60 + self.s.min(59) as i128) * 1_000_000_000 + self.frac_ns as i128
    }
}

#[derive(Clone, Copy, Debug, PartialEq, Eq, Hash)]
pub enum Off {
    Z,
    /// signed total in ns, whether a seconds element was written, and whether the sign was '-' (for -00:00)
    Num { ns: i64, has_seconds: bool, negative: bool, long_frac: bool },
}

#[derive(Clone, Debug, PartialEq, Eq, Hash)]
pub enum Tz {
    /// minutes east of UTC
    Offset(i32),
    Name(String),
}

#[derive(Clone, Debug, PartialEq, Eq, Hash)]
pub struct Ann {
    pub critical: bool,
    pub key: String,
    pub value: String,
}

#[derive(Clone, Debug, PartialEq, Eq, Hash, Default)]
pub struct Rec {
    pub date: Option<(i64, u8, u8)>,
    pub ym: Option<(i64, u8)>,
    pub md: Option<(u8, u8)>,
    pub time: Option<Time>,
    pub offset: Option<Off>,
    pub tz: Option<(bool, Tz)>,
    pub anns: Vec<Ann>,
}

type Alts<T> = Vec<(usize, T)>;

fn at(s: &[u8], i: usize) -> Option<u8> {
    s.get(i).copied()
}

fn digits(s: &[u8], i: usize, n: usize) -> Option<(usize, u32)> {
    let mut v = 0u32;
    for k in 0..n {
        let c = at(s, i + k)?;
        if !c.is_ascii_digit() {
            return None;
        }
        v = v * 10 + (c - b'0') as u32;
    }
    Some((i + n, v))
}

fn two(s: &[u8], i: usize, lo: u32, hi: u32) -> Option<(usize, u8)> {
    let (j, v) = digits(s, i, 2)?;
    if v < lo || v > hi {
        return None;
    }
    Some((j, v as u8))
}

/// DateYear ::: DecimalDigit{4} | ASCIISign DecimalDigit{6}   (-000000 is an early error)
fn date_year(s: &[u8], i: usize) -> Option<(usize, i64)> {
    match at(s, i)? {
        b'+' | b'-' => {
            let (j, v) = digits(s, i + 1, 6)?;
            if s[i] == b'-' && v == 0 {
                return None;
            }
            Some((j, if s[i] == b'-' { -(v as i64) } else { v as i64 }))
        }
        _ => digits(s, i, 4).map(|(j, v)| (j, v as i64)),
    }
}

/// Date ::: DateYear - DateMonth - DateDay | DateYear DateMonth DateDay  (IsValidISODate early error)
fn date(s: &[u8], i: usize) -> Alts<(i64, u8, u8)> {
    let mut out = vec![];
    if let Some((j, y)) = date_year(s, i) {
        // extended
        if at(s, j) == Some(b'-') {
            if let Some((k, m)) = two(s, j + 1, 1, 12) {
                if at(s, k) == Some(b'-') {
                    if let Some((l, d)) = two(s, k + 1, 1, 31) {
                        if d <= days_in_month(y, m) {
                            out.push((l, (y, m, d)));
                        }
                    }
                }
            }
        }
        // basic
        if let Some((k, m)) = two(s, j, 1, 12) {
            if let Some((l, d)) = two(s, k, 1, 31) {
                if d <= days_in_month(y, m) {
                    out.push((l, (y, m, d)));
                }
            }
        }
    }
    out
}

thread_local! {
    /// Longest fraction admitted. 9 is the grammar; the raw mode used to compare lexers admits more
    /// (the external lexer hands longer fractions to its caller, which must reject them).
    static MAX_FRAC: std::cell::Cell<usize> = const { std::cell::Cell::new(9) };
}

/// Run `f` with fractions of up to `n` digits admitted (marked `long_frac` beyond nine).
pub fn with_max_fraction<T>(n: usize, f: impl FnOnce() -> T) -> T {
    let old = MAX_FRAC.with(|c| c.replace(n));
    let r = f();
    MAX_FRAC.with(|c| c.set(old));
    r
}

/// TemporalDecimalFraction ::: [.,] DecimalDigit{1..9} — every admissible length is an alternative
fn fraction(s: &[u8], i: usize) -> Alts<(u32, bool)> {
    let mut out = vec![];
    let max = MAX_FRAC.with(|c| c.get());
    if matches!(at(s, i), Some(b'.') | Some(b',')) {
        let mut v = 0u32;
        for n in 1..=max {
            match at(s, i + n) {
                Some(c) if c.is_ascii_digit() => {
                    if n <= 9 {
                        v = v * 10 + (c - b'0') as u32;
                        out.push((i + n + 1, (v * 10u32.pow(9 - n as u32), false)));
                    } else {
                        out.push((i + n + 1, (v, true)));
                    }
                }
                _ => break,
            }
        }
    }
    out
}

/// Time ::: Hour | Hour : MinuteSecond | Hour MinuteSecond
///        | Hour : MinuteSecond : TimeSecond Fraction? | Hour MinuteSecond TimeSecond Fraction?
fn time(s: &[u8], i: usize) -> Alts<Time> {
    let mut out = vec![];
    let Some((j, h)) = two(s, i, 0, 23) else { return out };
    out.push((j, Time { h, mi: 0, s: 0, frac_ns: 0, long_frac: false }));
    // extended
    if at(s, j) == Some(b':') {
        if let Some((k, mi)) = two(s, j + 1, 0, 59) {
            out.push((k, Time { h, mi, s: 0, frac_ns: 0, long_frac: false }));
            if at(s, k) == Some(b':') {
                if let Some((l, sec)) = two(s, k + 1, 0, 60) {
                    out.push((l, Time { h, mi, s: sec, frac_ns: 0, long_frac: false }));
                    for (e, (f, long_frac)) in fraction(s, l) {
                        out.push((e, Time { h, mi, s: sec, frac_ns: f, long_frac }));
                    }
                }
            }
        }
    }
    // basic
    if let Some((k, mi)) = two(s, j, 0, 59) {
        out.push((k, Time { h, mi, s: 0, frac_ns: 0, long_frac: false }));
        if let Some((l, sec)) = two(s, k, 0, 60) {
            out.push((l, Time { h, mi, s: sec, frac_ns: 0, long_frac: false }));
            for (e, (f, long_frac)) in fraction(s, l) {
                out.push((e, Time { h, mi, s: sec, frac_ns: f, long_frac }));
            }
        }
    }
    out
}

/// UTCOffset[SubMinutePrecision]
pub fn utc_offset(s: &[u8], i: usize, sub_minute: bool) -> Alts<Off> {
    let mut out = vec![];
    let neg = match at(s, i) {
        Some(b'+') => false,
        Some(b'-') => true,
        _ => return out,
    };
    let Some((j, h)) = two(s, i + 1, 0, 23) else { return out };
    let mk = |h: u8, m: u8, sec: u8, f: (u32, bool), has_seconds: bool| {
        let total = (h as i64 * 3600 + m as i64 * 60 + sec as i64) * 1_000_000_000 + f.0 as i64;
        Off::Num { ns: if neg { -total } else { total }, has_seconds, negative: neg, long_frac: f.1 }
    };
    out.push((j, mk(h, 0, 0, (0, false), false)));
    if at(s, j) == Some(b':') {
        if let Some((k, m)) = two(s, j + 1, 0, 59) {
            out.push((k, mk(h, m, 0, (0, false), false)));
            if sub_minute && at(s, k) == Some(b':') {
                if let Some((l, sec)) = two(s, k + 1, 0, 59) {
                    out.push((l, mk(h, m, sec, (0, false), true)));
                    for (e, f) in fraction(s, l) {
                        out.push((e, mk(h, m, sec, f, true)));
                    }
                }
            }
        }
    }
    if let Some((k, m)) = two(s, j, 0, 59) {
        out.push((k, mk(h, m, 0, (0, false), false)));
        if sub_minute {
            if let Some((l, sec)) = two(s, k, 0, 59) {
                out.push((l, mk(h, m, sec, (0, false), true)));
                for (e, f) in fraction(s, l) {
                    out.push((e, mk(h, m, sec, f, true)));
                }
            }
        }
    }
    out
}

/// DateTimeUTCOffset[Z] ::: [+Z] UTCDesignator | UTCOffset[+SubMinutePrecision]
fn dt_offset(s: &[u8], i: usize, z: bool) -> Alts<Off> {
    let mut out = utc_offset(s, i, true);
    if z && matches!(at(s, i), Some(b'Z') | Some(b'z')) {
        out.push((i + 1, Off::Z));
    }
    out
}

fn is_tz_leading(c: u8) -> bool {
    c.is_ascii_alphabetic() || c == b'.' || c == b'_'
}
fn is_tz_char(c: u8) -> bool {
    is_tz_leading(c) || c.is_ascii_digit() || c == b'-' || c == b'+'
}

/// TimeZoneIANAName ::: Component (/ Component)*, whole-slice
pub fn is_iana_name(s: &[u8]) -> bool {
    if s.is_empty() {
        return false;
    }
    s.split(|c| *c == b'/').all(|comp| !comp.is_empty() && is_tz_leading(comp[0]) && comp.iter().all(|c| is_tz_char(*c)))
}

/// TimeZoneIdentifier ::: UTCOffset[~SubMinutePrecision] | TimeZoneIANAName, whole-slice
pub fn tz_identifier(s: &[u8]) -> Option<Tz> {
    for (e, o) in utc_offset(s, 0, false) {
        if e == s.len() {
            if let Off::Num { ns, .. } = o {
                return Some(Tz::Offset((ns / 60_000_000_000) as i32));
            }
        }
    }
    if is_iana_name(s) {
        return Some(Tz::Name(String::from_utf8_lossy(s).into_owned()));
    }
    None
}

/// TimeZoneAnnotation ::: [ !? TimeZoneIdentifier ]
fn tz_annotation(s: &[u8], i: usize) -> Alts<(bool, Tz)> {
    let mut out = vec![];
    if at(s, i) != Some(b'[') {
        return out;
    }
    let (critical, start) = if at(s, i + 1) == Some(b'!') { (true, i + 2) } else { (false, i + 1) };
    if let Some(len) = s[start.min(s.len())..].iter().position(|c| *c == b']') {
        if let Some(tz) = tz_identifier(&s[start..start + len]) {
            out.push((start + len + 1, (critical, tz)));
        }
    }
    out
}

/// Annotation ::: [ !? AnnotationKey = AnnotationValue ]
fn annotation(s: &[u8], i: usize) -> Option<(usize, Ann)> {
    if at(s, i) != Some(b'[') {
        return None;
    }
    let (critical, start) = if at(s, i + 1) == Some(b'!') { (true, i + 2) } else { (false, i + 1) };
    let close = start + s.get(start..)?.iter().position(|c| *c == b']')?;
    let body = &s[start..close];
    let eq = body.iter().position(|c| *c == b'=')?;
    let (key, value) = (&body[..eq], &body[eq + 1..]);
    let key_ok = !key.is_empty() && (key[0].is_ascii_lowercase() || key[0] == b'_') && key.iter().all(|c| c.is_ascii_lowercase() || c.is_ascii_digit() || *c == b'-' || *c == b'_');
    let value_ok = !value.is_empty() && value.split(|c| *c == b'-').all(|comp| !comp.is_empty() && comp.iter().all(|c| c.is_ascii_alphanumeric()));
    if !key_ok || !value_ok {
        return None;
    }
    Some((close + 1, Ann { critical, key: String::from_utf8_lossy(key).into_owned(), value: String::from_utf8_lossy(value).into_owned() }))
}

/// TimeZoneAnnotation? Annotations? then end of input
fn tails(s: &[u8], i: usize) -> Vec<(Option<(bool, Tz)>, Vec<Ann>)> {
    let mut out = vec![];
    let mut starts: Vec<(usize, Option<(bool, Tz)>)> = vec![(i, None)];
    for (j, tz) in tz_annotation(s, i) {
        starts.push((j, Some(tz)));
    }
    for (mut j, tz) in starts {
        let mut anns = vec![];
        while let Some((k, a)) = annotation(s, j) {
            anns.push(a);
            j = k;
        }
        if j == s.len() {
            out.push((tz, anns));
        }
    }
    out
}

fn is_sep(c: Option<u8>) -> bool {
    matches!(c, Some(b'T') | Some(b't') | Some(b' '))
}

/// AnnotatedDateTime: Date [sep Time Offset?] tails. `z`: UTC designator admissible.
pub fn annotated_date_time(s: &[u8], z: bool, time_required: bool) -> Vec<Rec> {
    let mut out = vec![];
    for (i, d) in date(s, 0) {
        if !time_required {
            for (tz, anns) in tails(s, i) {
                out.push(Rec { date: Some(d), tz, anns, ..Default::default() });
            }
        }
        if is_sep(at(s, i)) {
            for (j, t) in time(s, i + 1) {
                for (tz, anns) in tails(s, j) {
                    out.push(Rec { date: Some(d), time: Some(t), tz, anns, ..Default::default() });
                }
                for (k, o) in dt_offset(s, j, z) {
                    for (tz, anns) in tails(s, k) {
                        out.push(Rec { date: Some(d), time: Some(t), offset: Some(o), tz, anns, ..Default::default() });
                    }
                }
            }
        }
    }
    out
}

/// DateSpecYearMonth ::: DateYear -? DateMonth
fn spec_year_month(s: &[u8], i: usize) -> Alts<(i64, u8)> {
    let mut out = vec![];
    if let Some((j, y)) = date_year(s, i) {
        if at(s, j) == Some(b'-') {
            if let Some((k, m)) = two(s, j + 1, 1, 12) {
                out.push((k, (y, m)));
            }
        }
        if let Some((k, m)) = two(s, j, 1, 12) {
            out.push((k, (y, m)));
        }
    }
    out
}

/// DateSpecMonthDay ::: --? DateMonth -? DateDay   (day valid for the month in a leap year)
fn spec_month_day(s: &[u8], i: usize) -> Alts<(u8, u8)> {
    let mut out = vec![];
    let starts = if at(s, i) == Some(b'-') && at(s, i + 1) == Some(b'-') { vec![i + 2] } else { vec![i] };
    for st in starts {
        if let Some((j, m)) = two(s, st, 1, 12) {
            let mut after = vec![j];
            if at(s, j) == Some(b'-') {
                after.push(j + 1);
            }
            for a in after {
                if let Some((k, d)) = two(s, a, 1, 31) {
                    if d <= days_in_month(1972, m) {
                        out.push((k, (m, d)));
                    }
                }
            }
        }
    }
    out
}

/// AnnotatedTime ::: T? Time DateTimeUTCOffset? tails, with the early error that an undesignated
/// `Time Offset?` text must not also read as a month-day or a year-month.
pub fn annotated_time(s: &[u8], z: bool) -> Vec<Rec> {
    let mut out = vec![];
    let (designator, start) = if matches!(at(s, 0), Some(b'T') | Some(b't')) { (true, 1) } else { (false, 0) };
    for (j, t) in time(s, start) {
        let mut ends: Vec<(usize, Option<Off>)> = vec![(j, None)];
        for (k, o) in dt_offset(s, j, z) {
            ends.push((k, Some(o)));
        }
        for (k, o) in ends {
            if !designator {
                let text = &s[..k];
                let ambiguous = spec_month_day(text, 0).iter().any(|(e, _)| *e == text.len()) || spec_year_month(text, 0).iter().any(|(e, _)| *e == text.len());
                if ambiguous {
                    continue;
                }
            }
            for (tz, anns) in tails(s, k) {
                out.push(Rec { time: Some(t), offset: o, tz, anns, ..Default::default() });
            }
        }
    }
    out
}

/// All derivations of the time goal: AnnotatedTime | AnnotatedDateTime[~Zoned, +TimeRequired]
pub fn time_string(s: &[u8]) -> Vec<Rec> {
    let mut out = annotated_date_time(s, false, true);
    out.extend(annotated_time(s, false));
    out
}

/// AnnotatedYearMonth alone
pub fn annotated_year_month(s: &[u8]) -> Vec<Rec> {
    let mut out = vec![];
    for (i, ym) in spec_year_month(s, 0) {
        for (tz, anns) in tails(s, i) {
            out.push(Rec { ym: Some(ym), tz, anns, ..Default::default() });
        }
    }
    out
}

/// AnnotatedMonthDay alone
pub fn annotated_month_day(s: &[u8]) -> Vec<Rec> {
    let mut out = vec![];
    for (i, md) in spec_month_day(s, 0) {
        for (tz, anns) in tails(s, i) {
            out.push(Rec { md: Some(md), tz, anns, ..Default::default() });
        }
    }
    out
}

pub fn year_month_string(s: &[u8]) -> Vec<Rec> {
    let mut out = annotated_date_time(s, false, false);
    out.extend(annotated_year_month(s));
    out
}

pub fn month_day_string(s: &[u8]) -> Vec<Rec> {
    let mut out = annotated_date_time(s, false, false);
    out.extend(annotated_month_day(s));
    out
}

/// TemporalInstantString ::: Date sep Time DateTimeUTCOffset[+Z] tails
pub fn instant_string(s: &[u8]) -> Vec<Rec> {
    annotated_date_time(s, true, true).into_iter().filter(|r| r.offset.is_some()).collect()
}

/// TemporalDateTimeString[+Zoned]: zone annotation required
pub fn zoned_string(s: &[u8]) -> Vec<Rec> {
    annotated_date_time(s, true, false).into_iter().filter(|r| r.tz.is_some()).collect()
}

// ------------------------------------------------------------------------------------------------
// Annotation rules shared by all goals

#[derive(Clone, Debug, PartialEq, Eq)]
pub enum Verdict<T> {
    Accept(T),
    Reject,
    /// the grammar (as transcribed here) does not settle it
    Unjudged(&'static str),
}

/// Result of the annotation rules: Err(()) = reject; Ok(calendar annotation value, lower-cased)
pub fn annotation_rules(anns: &[Ann]) -> Result<Option<String>, ()> {
    let mut cal: Option<String> = None;
    let mut cal_count = 0;
    let mut cal_critical = false;
    for a in anns {
        if a.key == "u-ca" {
            cal_count += 1;
            cal_critical |= a.critical;
            if cal.is_none() {
                cal = Some(a.value.to_ascii_lowercase());
            }
        } else if a.critical {
            return Err(());
        }
    }
    if cal_count > 1 && cal_critical {
        return Err(());
    }
    Ok(cal)
}

/// Collapse the derivations of a goal to one record (the grammar is unambiguous for every goal; if
/// two derivations ever denote different records the string is reported as unjudged).
pub fn unique(mut recs: Vec<Rec>) -> Verdict<Rec> {
    recs.dedup();
    match recs.len() {
        0 => Verdict::Reject,
        1 => Verdict::Accept(recs.pop().unwrap()),
        _ => {
            let first = recs[0].clone();
            if recs.iter().all(|r| *r == first) {
                Verdict::Accept(first)
            } else {
                Verdict::Unjudged("two derivations with different values")
            }
        }
    }
}

// ------------------------------------------------------------------------------------------------
// Durations

#[derive(Clone, Debug, PartialEq, Eq)]
pub struct DurText {
    pub negative: bool,
    /// years, months, weeks, days, hours, minutes, seconds as written (None = absent); digit strings
    pub ints: [Option<String>; 7],
    /// fraction digits on hours / minutes / seconds (only one may be present, on the last unit)
    pub frac: [Option<String>; 3],
}

/// TemporalDurationString, whole-slice.
pub fn duration_string(s: &[u8]) -> Option<DurText> {
    let mut i = 0;
    let mut negative = false;
    if matches!(at(s, i), Some(b'+') | Some(b'-')) {
        negative = s[i] == b'-';
        i += 1;
    }
    if !matches!(at(s, i), Some(b'P') | Some(b'p')) {
        return None;
    }
    i += 1;
    let mut ints: [Option<String>; 7] = Default::default();
    let mut frac: [Option<String>; 3] = Default::default();
    let read_digits = |i: &mut usize| -> Option<String> {
        let st = *i;
        while at(s, *i).is_some_and(|c| c.is_ascii_digit()) {
            *i += 1;
        }
        if *i == st {
            None
        } else {
            Some(String::from_utf8_lossy(&s[st..*i]).into_owned())
        }
    };
    // date part: Y M W D in order, each optional
    let mut last = -1i32;
    let mut any = false;
    while let Some(c) = at(s, i) {
        if c == b'T' || c == b't' {
            break;
        }
        let n = read_digits(&mut i)?;
        let des = at(s, i)?.to_ascii_uppercase();
        let slot = match des {
            b'Y' => 0,
            b'M' => 1,
            b'W' => 2,
            b'D' => 3,
            _ => return None,
        };
        if slot as i32 <= last {
            return None;
        }
        last = slot as i32;
        ints[slot] = Some(n);
        any = true;
        i += 1;
    }
    if i < s.len() {
        // time part
        i += 1; // T
        let mut last = 3i32;
        let mut any_time = false;
        let mut had_fraction = false;
        while i < s.len() {
            if had_fraction {
                return None; // a fraction is only allowed on the last unit
            }
            let n = read_digits(&mut i)?;
            let mut f = None;
            if matches!(at(s, i), Some(b'.') | Some(b',')) {
                i += 1;
                let d = read_digits(&mut i)?;
                if d.len() > MAX_FRAC.with(|c| c.get()) {
                    return None;
                }
                f = Some(d);
            }
            let des = at(s, i)?.to_ascii_uppercase();
            let slot = match des {
                b'H' => 4,
                b'M' => 5,
                b'S' => 6,
                _ => return None,
            };
            if slot as i32 <= last {
                return None;
            }
            last = slot as i32;
            ints[slot] = Some(n);
            if let Some(f) = f {
                frac[slot - 4] = Some(f);
                had_fraction = true;
            }
            any_time = true;
            i += 1;
        }
        if !any_time {
            return None;
        }
    } else if !any {
        return None;
    }
    Some(DurText { negative, ints, frac })
}

/// The ten fields a duration text denotes (exact integers), or None when a written integer has more
/// than 15 digits (the specification converts through a Number there; not judged).
pub fn duration_fields(d: &DurText) -> Option<[i128; 10]> {
    let mut v = [0i128; 10];
    for k in 0..7 {
        if let Some(t) = &d.ints[k] {
            if t.len() > 15 {
                return None;
            }
            v[k] = t.parse::<i128>().ok()?;
        }
    }
    let scale = |f: &String| -> (i128, i128) { (f.parse::<i128>().unwrap(), 10i128.pow(f.len() as u32)) };
    // everything below the fractional unit, in ns
    let mut extra_ns: i128 = 0;
    if let Some(f) = &d.frac[0] {
        let (n, den) = scale(f);
        extra_ns = n * 3_600_000_000_000 / den; // exact: den divides 10^9
    } else if let Some(f) = &d.frac[1] {
        let (n, den) = scale(f);
        extra_ns = n * 60_000_000_000 / den;
    } else if let Some(f) = &d.frac[2] {
        let (n, den) = scale(f);
        extra_ns = n * 1_000_000_000 / den;
    }
    if d.frac[0].is_some() {
        v[5] += extra_ns / 60_000_000_000;
        extra_ns %= 60_000_000_000;
    }
    if d.frac[0].is_some() || d.frac[1].is_some() {
        v[6] += extra_ns / 1_000_000_000;
        extra_ns %= 1_000_000_000;
    }
    v[7] = extra_ns / 1_000_000;
    v[8] = extra_ns / 1_000 % 1_000;
    v[9] = extra_ns % 1_000;
    if d.negative {
        for x in v.iter_mut() {
            *x = -*x;
        }
    }
    Some(v)
}

// ------------------------------------------------------------------------------------------------
// Month codes

/// The month codes of the calendars in use: M01..M13 and M01L..M12L. Returns (number, leap).
pub fn month_code(s: &[u8]) -> Verdict<(u8, bool)> {
    let shape = (s.len() == 3 || (s.len() == 4 && s[3] == b'L')) && s[0] == b'M' && s[1].is_ascii_digit() && s[2].is_ascii_digit();
    if !shape {
        return Verdict::Reject;
    }
    let n = (s[1] - b'0') * 10 + (s[2] - b'0');
    let leap = s.len() == 4;
    if (1..=12).contains(&n) || (n == 13 && !leap) {
        Verdict::Accept((n, leap))
    } else {
        Verdict::Unjudged("well-formed month code outside the months of any calendar")
    }
}

#[cfg(test)]
mod tests {
    use super::*;
    fn dt(s: &str) -> Verdict<Rec> {
        unique(annotated_date_time(s.as_bytes(), false, false))
    }
    #[test]
    fn dates() {
        assert!(matches!(dt("2020-01-01"), Verdict::Accept(_)));
        assert!(matches!(dt("20200101"), Verdict::Accept(_)));
        assert!(matches!(dt("2020-0101"), Verdict::Reject));
        assert!(matches!(dt("202001-01"), Verdict::Reject));
        assert!(matches!(dt("2021-02-29"), Verdict::Reject));
        assert!(matches!(dt("2020-02-29"), Verdict::Accept(_)));
        assert!(matches!(dt("-000000-01-01"), Verdict::Reject));
        assert!(matches!(dt("+000000-01-01"), Verdict::Accept(_)));
        assert!(matches!(dt("2020-01-01T00:00Z"), Verdict::Reject));
        assert!(matches!(dt("2020-01-01T00:00+01:00"), Verdict::Accept(_)));
        assert!(matches!(dt("2020-01-01+01:00"), Verdict::Reject));
        assert!(matches!(dt("2020-01-01T24:00"), Verdict::Reject));
        assert!(matches!(dt("2020-01-01T23:59:60"), Verdict::Accept(_)));
        assert!(matches!(dt("2020-01-01T23:59:60.1234567890"), Verdict::Reject));
        assert!(matches!(dt("2020-01-01T23:59:60,123456789"), Verdict::Accept(_)));
        assert!(matches!(dt("2020-01-01 12"), Verdict::Accept(_)));
        assert!(matches!(dt("2020-01-01t1230"), Verdict::Accept(_)));
        assert!(matches!(dt("2020-01-01T12:3045"), Verdict::Reject));
        assert!(matches!(dt("2020-01-01[UTC][u-ca=iso8601]"), Verdict::Accept(_)));
        assert!(matches!(dt("2020-01-01[u-ca=iso8601][UTC]"), Verdict::Reject));
        assert!(matches!(dt("2020-01-01[+01:00:00]"), Verdict::Reject));
        assert!(matches!(dt("2020-01-01[!u-ca=iso8601][foo=bar]"), Verdict::Accept(_)));
        assert!(matches!(dt("2020-01-01[Foo=bar]"), Verdict::Reject));
    }
    #[test]
    fn times() {
        let t = |s: &str| unique(time_string(s.as_bytes()));
        assert!(matches!(t("12:30"), Verdict::Accept(_)));
        assert!(matches!(t("1230"), Verdict::Reject)); // also December 30
        assert!(matches!(t("T1230"), Verdict::Accept(_)));
        assert!(matches!(t("1232"), Verdict::Accept(_)));
        assert!(matches!(t("0230"), Verdict::Accept(_))); // February 30 is no month-day
        assert!(matches!(t("0229"), Verdict::Reject));
        assert!(matches!(t("2021-12"), Verdict::Reject));
        assert!(matches!(t("202112"), Verdict::Reject));
        assert!(matches!(t("202113"), Verdict::Accept(_)));
        assert!(matches!(t("12"), Verdict::Accept(_)));
        assert!(matches!(t("12Z"), Verdict::Reject));
        assert!(matches!(t("2020-01-01"), Verdict::Reject));
        assert!(matches!(t("2020-01-01T12"), Verdict::Accept(_)));
    }
    #[test]
    fn durations() {
        let f = |s: &str| duration_string(s.as_bytes()).and_then(|d| duration_fields(&d));
        assert_eq!(f("P1Y2M3W4DT5H6M7.008009010S"), Some([1, 2, 3, 4, 5, 6, 7, 8, 9, 10]));
        assert_eq!(f("-PT1.5H"), Some([0, 0, 0, 0, -1, -30, 0, 0, 0, 0]));
        assert_eq!(f("PT0.123456789H"), Some([0, 0, 0, 0, 0, 7, 24, 444, 440, 400]));
        assert_eq!(f("PT1.5M"), Some([0, 0, 0, 0, 0, 1, 30, 0, 0, 0]));
        assert_eq!(f("P"), None);
        assert_eq!(f("PT"), None);
        assert_eq!(f("P1M1Y"), None);
        assert_eq!(f("PT1.5H1M"), None);
        assert_eq!(f("P1.5Y"), None);
        assert_eq!(f("p1y"), Some([1, 0, 0, 0, 0, 0, 0, 0, 0, 0]));
        assert_eq!(f("P1DT"), None);
        assert_eq!(f("PT1S1H"), None);
        assert_eq!(f("PT1.1234567891S"), None);
    }
}

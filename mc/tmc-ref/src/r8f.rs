//! R8 (formatter half) — the canonical Temporal / RFC 9557 text of a value.

pub fn year_text(y: i64) -> String {
    if (0..=9999).contains(&y) {
        format!("{y:04}")
    } else {
        format!("{}{:06}", if y < 0 { '-' } else { '+' }, y.abs())
    }
}

pub fn date_text(y: i64, m: u8, d: u8) -> String {
    format!("{}-{m:02}-{d:02}", year_text(y))
}

#[derive(Debug, Clone, Copy, PartialEq, Eq, Hash)]
pub enum Prec {
    Auto,
    Minute,
    Digits(u8),
}

/// Time of day `t` (ns, already rounded to the precision) as text.
pub fn time_text(t: i128, p: Prec) -> String {
    let h = t / 3_600_000_000_000;
    let mi = t / 60_000_000_000 % 60;
    let s = t / 1_000_000_000 % 60;
    let f = (t % 1_000_000_000) as u32;
    let mut out = format!("{h:02}:{mi:02}");
    match p {
        Prec::Minute => {}
        Prec::Auto => {
            out += &format!(":{s:02}");
            if f != 0 {
                let digits = format!("{f:09}");
                out += ".";
                out += digits.trim_end_matches('0');
            }
        }
        Prec::Digits(n) => {
            out += &format!(":{s:02}");
            if n > 0 {
                let digits = format!("{f:09}");
                out += ".";
                out += &digits[..n as usize];
            }
        }
    }
    out
}

/// ±HH:MM of an offset in seconds that is a whole number of minutes.
pub fn offset_text(secs: i64) -> String {
    let a = secs.abs();
    format!("{}{:02}:{:02}", if secs < 0 { '-' } else { '+' }, a / 3600, a % 3600 / 60)
}

#[derive(Debug, Clone, Copy, PartialEq, Eq, Hash)]
pub enum ShowCal {
    Auto,
    Always,
    Never,
    Critical,
}

pub fn calendar_annotation(id: &str, show: ShowCal) -> String {
    match show {
        ShowCal::Never => String::new(),
        ShowCal::Auto => {
            if id == "iso8601" {
                String::new()
            } else {
                format!("[u-ca={id}]")
            }
        }
        ShowCal::Always => format!("[u-ca={id}]"),
        ShowCal::Critical => format!("[!u-ca={id}]"),
    }
}

/// Canonical duration text. Fields are exact integers; `sub` = ms/µs/ns folded with seconds into
/// total nanoseconds of the seconds part. `digits`: None = auto.
pub fn duration_text(y: i128, mo: i128, w: i128, d: i128, h: i128, mi: i128, sec_ns: i128, digits: Option<u8>) -> String {
    let neg = [y, mo, w, d, h, mi, sec_ns].iter().any(|v| *v < 0);
    let (y, mo, w, d, h, mi, sec_ns) = (y.abs(), mo.abs(), w.abs(), d.abs(), h.abs(), mi.abs(), sec_ns.abs());
    let mut s = String::new();
    if neg {
        s.push('-');
    }
    s.push('P');
    for (v, c) in [(y, 'Y'), (mo, 'M'), (w, 'W'), (d, 'D')] {
        if v != 0 {
            s += &format!("{v}{c}");
        }
    }
    let mut t = String::new();
    if h != 0 {
        t += &format!("{h}H");
    }
    if mi != 0 {
        t += &format!("{mi}M");
    }
    let all_zero = y == 0 && mo == 0 && w == 0 && d == 0 && h == 0 && mi == 0;
    if sec_ns != 0 || all_zero || digits.is_some() {
        let whole = sec_ns / 1_000_000_000;
        let frac = format!("{:09}", sec_ns % 1_000_000_000);
        t += &whole.to_string();
        match digits {
            None => {
                let f = frac.trim_end_matches('0');
                if !f.is_empty() {
                    t += ".";
                    t += f;
                }
            }
            Some(0) => {}
            Some(n) => {
                t += ".";
                t += &frac[..n as usize];
            }
        }
        t.push('S');
    }
    if !t.is_empty() {
        s.push('T');
        s += &t;
    }
    s
}

#[cfg(test)]
mod tests {
    use super::*;
    #[test]
    fn texts() {
        assert_eq!(year_text(9999), "9999");
        assert_eq!(year_text(10000), "+010000");
        assert_eq!(year_text(-1), "-000001");
        assert_eq!(time_text(45_296_789_000_000, Prec::Auto), "12:34:56.789");
        assert_eq!(time_text(45_296_000_000_000, Prec::Auto), "12:34:56");
        assert_eq!(time_text(45_296_789_000_000, Prec::Digits(1)), "12:34:56.7");
        assert_eq!(time_text(45_296_789_000_000, Prec::Minute), "12:34");
        assert_eq!(duration_text(1, 2, 3, 4, 5, 6, 7_008_009_010, None), "P1Y2M3W4DT5H6M7.00800901S");
        assert_eq!(duration_text(0, 0, 0, 0, 0, 0, 0, None), "PT0S");
        assert_eq!(duration_text(0, 0, 0, -1, 0, 0, -500_000_000, None), "-P1DT0.5S");
        assert_eq!(duration_text(0, 0, 0, 1, 0, 0, 0, None), "P1D");
        assert_eq!(duration_text(0, 0, 0, 1, 0, 0, 0, Some(2)), "P1DT0.00S");
    }
}

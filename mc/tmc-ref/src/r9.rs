//! R9 — option-resolution tables (GetDifferenceSettings, round / total / toString option steps).

#[derive(Clone, Copy, PartialEq, Eq, PartialOrd, Ord, Debug, Hash)]
pub enum U {
    Ns = 1,
    Us,
    Ms,
    Second,
    Minute,
    Hour,
    Day,
    Week,
    Month,
    Year,
}

pub const ALL_U: [U; 10] = [U::Year, U::Month, U::Week, U::Day, U::Hour, U::Minute, U::Second, U::Ms, U::Us, U::Ns];

impl U {
    pub fn is_time(self) -> bool {
        self <= U::Hour
    }
    pub fn is_date(self) -> bool {
        self >= U::Day
    }
    pub fn is_calendar(self) -> bool {
        self >= U::Week
    }
    pub fn name(self) -> &'static str {
        match self {
            U::Ns => "nanosecond",
            U::Us => "microsecond",
            U::Ms => "millisecond",
            U::Second => "second",
            U::Minute => "minute",
            U::Hour => "hour",
            U::Day => "day",
            U::Week => "week",
            U::Month => "month",
            U::Year => "year",
        }
    }
    /// MaximumTemporalDurationRoundingIncrement
    pub fn max_increment(self) -> Option<u32> {
        match self {
            U::Hour => Some(24),
            U::Minute | U::Second => Some(60),
            U::Ms | U::Us | U::Ns => Some(1000),
            _ => None,
        }
    }
    pub fn ns(self) -> Option<u64> {
        match self {
            U::Ns => Some(1),
            U::Us => Some(1_000),
            U::Ms => Some(1_000_000),
            U::Second => Some(1_000_000_000),
            U::Minute => Some(60_000_000_000),
            U::Hour => Some(3_600_000_000_000),
            U::Day => Some(86_400_000_000_000),
            _ => None,
        }
    }
}

#[derive(Clone, Copy, PartialEq, Eq, Debug, Hash)]
pub enum UOpt {
    Absent,
    Auto,
    Unit(U),
}

impl UOpt {
    pub fn name(self) -> &'static str {
        match self {
            UOpt::Absent => "absent",
            UOpt::Auto => "auto",
            UOpt::Unit(u) => u.name(),
        }
    }
}

pub const ALL_UOPT: [UOpt; 12] = [
    UOpt::Absent,
    UOpt::Auto,
    UOpt::Unit(U::Year),
    UOpt::Unit(U::Month),
    UOpt::Unit(U::Week),
    UOpt::Unit(U::Day),
    UOpt::Unit(U::Hour),
    UOpt::Unit(U::Minute),
    UOpt::Unit(U::Second),
    UOpt::Unit(U::Ms),
    UOpt::Unit(U::Us),
    UOpt::Unit(U::Ns),
];

#[derive(Clone, Copy, PartialEq, Eq, Debug)]
pub enum Group {
    Date,
    Time,
    DateTime,
}

impl Group {
    pub fn contains(self, u: U) -> bool {
        match self {
            Group::Date => u.is_date(),
            Group::Time => u.is_time(),
            Group::DateTime => true,
        }
    }
}

#[derive(Clone, Copy, Debug)]
pub struct DiffSpec {
    pub group: Group,
    pub disallowed: &'static [U],
    pub fallback_smallest: U,
    pub smallest_largest_default: U,
}

pub const DIFF_PLAIN_DATE: DiffSpec = DiffSpec { group: Group::Date, disallowed: &[], fallback_smallest: U::Day, smallest_largest_default: U::Day };
pub const DIFF_PLAIN_TIME: DiffSpec = DiffSpec { group: Group::Time, disallowed: &[], fallback_smallest: U::Ns, smallest_largest_default: U::Hour };
pub const DIFF_PLAIN_DATE_TIME: DiffSpec = DiffSpec { group: Group::DateTime, disallowed: &[], fallback_smallest: U::Ns, smallest_largest_default: U::Day };
pub const DIFF_YEAR_MONTH: DiffSpec = DiffSpec { group: Group::Date, disallowed: &[U::Week, U::Day], fallback_smallest: U::Month, smallest_largest_default: U::Year };
pub const DIFF_INSTANT: DiffSpec = DiffSpec { group: Group::Time, disallowed: &[], fallback_smallest: U::Ns, smallest_largest_default: U::Second };
pub const DIFF_ZONED: DiffSpec = DiffSpec { group: Group::DateTime, disallowed: &[], fallback_smallest: U::Ns, smallest_largest_default: U::Hour };

#[derive(Clone, Copy, PartialEq, Eq, Debug)]
pub struct Resolved {
    pub largest: U,
    pub smallest: U,
    pub increment: u32,
}

/// ValidateTemporalRoundingIncrement
pub fn validate_increment(inc: u32, dividend: u64, inclusive: bool) -> bool {
    let max = if inclusive { dividend } else { dividend - 1 };
    (inc as u64) <= max && dividend % inc as u64 == 0
}

/// GetDifferenceSettings: Ok(resolved) or Err(()) = RangeError.
pub fn resolve_diff(spec: &DiffSpec, largest: UOpt, smallest: UOpt, inc: Option<u32>) -> Result<Resolved, ()> {
    // largestUnit: a unit of the group or auto (absent = auto)
    let largest = match largest {
        UOpt::Absent | UOpt::Auto => None,
        UOpt::Unit(u) => {
            if !spec.group.contains(u) || spec.disallowed.contains(&u) {
                return Err(());
            }
            Some(u)
        }
    };
    let inc = inc.unwrap_or(1);
    if !(1..=1_000_000_000).contains(&inc) {
        return Err(());
    }
    let smallest = match smallest {
        UOpt::Absent => spec.fallback_smallest,
        UOpt::Auto => return Err(()), // auto is not a value of smallestUnit
        UOpt::Unit(u) => {
            if !spec.group.contains(u) || spec.disallowed.contains(&u) {
                return Err(());
            }
            u
        }
    };
    let default_largest = spec.smallest_largest_default.max(smallest);
    let largest = largest.unwrap_or(default_largest);
    if largest < smallest {
        return Err(());
    }
    if let Some(max) = smallest.max_increment() {
        if !validate_increment(inc, max as u64, false) {
            return Err(());
        }
    }
    Ok(Resolved { largest, smallest, increment: inc })
}

/// PlainTime.round / PlainDateTime.round / Instant.round: Ok(()) accepted.
#[derive(Clone, Copy, PartialEq, Eq, Debug)]
pub enum RoundKind {
    PlainTime,
    PlainDateTime,
    Instant,
}

pub fn resolve_round(kind: RoundKind, smallest: UOpt, inc: Option<u32>) -> Result<Resolved, ()> {
    let inc = inc.unwrap_or(1);
    if !(1..=1_000_000_000).contains(&inc) {
        return Err(());
    }
    let UOpt::Unit(u) = smallest else { return Err(()) }; // required, and auto is not allowed
    match kind {
        RoundKind::PlainTime => {
            if !u.is_time() {
                return Err(());
            }
            if !validate_increment(inc, u.max_increment().unwrap() as u64, false) {
                return Err(());
            }
        }
        RoundKind::PlainDateTime => {
            if u == U::Day {
                if !validate_increment(inc, 1, true) {
                    return Err(());
                }
            } else {
                if !u.is_time() {
                    return Err(());
                }
                if !validate_increment(inc, u.max_increment().unwrap() as u64, false) {
                    return Err(());
                }
            }
        }
        RoundKind::Instant => {
            if !u.is_time() {
                return Err(());
            }
            let max = 86_400_000_000_000u64 / u.ns().unwrap();
            if !validate_increment(inc, max, true) {
                return Err(());
            }
        }
    }
    Ok(Resolved { largest: u, smallest: u, increment: inc })
}

#[derive(Clone, Copy, PartialEq, Eq, Debug)]
pub enum Verdict {
    Accept(Resolved),
    Reject,
    /// admissibility depends on a rule the property does not name
    Unjudged,
}

/// Duration.prototype.round option resolution. `existing_largest`: DefaultTemporalLargestUnit of
/// the duration; `has_relative`: a relativeTo is supplied.
pub fn resolve_duration_round(existing_largest: U, largest: UOpt, smallest: UOpt, inc: Option<u32>, has_relative: bool) -> Verdict {
    if largest == UOpt::Absent && smallest == UOpt::Absent {
        return Verdict::Reject;
    }
    let inc = inc.unwrap_or(1);
    if !(1..=1_000_000_000).contains(&inc) {
        return Verdict::Reject;
    }
    let smallest_u = match smallest {
        UOpt::Absent => U::Ns,
        UOpt::Auto => return Verdict::Reject,
        UOpt::Unit(u) => u,
    };
    let default_largest = existing_largest.max(smallest_u);
    let largest_u = match largest {
        UOpt::Absent | UOpt::Auto => default_largest,
        UOpt::Unit(u) => u,
    };
    if largest_u < smallest_u {
        return Verdict::Reject;
    }
    if let Some(max) = smallest_u.max_increment() {
        if !validate_increment(inc, max as u64, false) {
            return Verdict::Reject;
        }
    }
    // "increment > 1 with a date smallestUnit requires largestUnit = smallestUnit": not named by the property
    if inc > 1 && smallest_u.is_date() && largest_u != smallest_u {
        return Verdict::Unjudged;
    }
    // calendar units (in the duration or requested) need a relativeTo: the failure is part of the
    // computation, not of option validation — such cells are not judged here
    if !has_relative && (largest_u.is_calendar() || existing_largest.is_calendar()) {
        return Verdict::Unjudged;
    }
    Verdict::Accept(Resolved { largest: largest_u, smallest: smallest_u, increment: inc })
}

/// toString options: smallestUnit (if present) must be minute..nanosecond; else digits 0..=9 or auto.
pub fn resolve_to_string(smallest: UOpt, digits: Option<u8>) -> Result<(), ()> {
    match smallest {
        UOpt::Unit(U::Minute | U::Second | U::Ms | U::Us | U::Ns) => Ok(()),
        UOpt::Unit(_) | UOpt::Auto => Err(()),
        UOpt::Absent => match digits {
            None => Ok(()),
            Some(d) if d <= 9 => Ok(()),
            _ => Err(()),
        },
    }
}

#[cfg(test)]
mod tests {
    use super::*;
    #[test]
    fn diff_rules() {
        assert!(resolve_diff(&DIFF_PLAIN_DATE, UOpt::Absent, UOpt::Absent, None).is_ok());
        assert!(resolve_diff(&DIFF_PLAIN_DATE, UOpt::Unit(U::Hour), UOpt::Absent, None).is_err());
        assert!(resolve_diff(&DIFF_PLAIN_DATE, UOpt::Auto, UOpt::Unit(U::Month), Some(7)).is_ok());
        assert_eq!(resolve_diff(&DIFF_PLAIN_DATE, UOpt::Auto, UOpt::Unit(U::Month), None).unwrap().largest, U::Month);
        assert!(resolve_diff(&DIFF_PLAIN_TIME, UOpt::Auto, UOpt::Unit(U::Hour), Some(24)).is_err());
        assert!(resolve_diff(&DIFF_PLAIN_TIME, UOpt::Auto, UOpt::Unit(U::Hour), Some(12)).is_ok());
        assert!(resolve_diff(&DIFF_YEAR_MONTH, UOpt::Unit(U::Week), UOpt::Absent, None).is_err());
        assert!(resolve_diff(&DIFF_INSTANT, UOpt::Unit(U::Second), UOpt::Unit(U::Hour), None).is_err());
        assert!(resolve_round(RoundKind::Instant, UOpt::Unit(U::Hour), Some(24)).is_ok());
        assert!(resolve_round(RoundKind::PlainDateTime, UOpt::Unit(U::Day), Some(2)).is_err());
    }
}

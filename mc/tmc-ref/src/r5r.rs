//! R5 (relative half) — Duration round / total / compare relative to a plain ISO date, and the
//! rounded difference of two plain date-times: a transcription of the specification's
//! DifferencePlainDateTimeWithRounding / RoundRelativeDuration (NudgeToCalendarUnit, NudgeToDayOrTime,
//! BubbleRelativeDuration), TotalRelativeDuration and DateDurationDays in exact integer / rational
//! arithmetic over R2 (date arithmetic) and R4 (rounding).

use crate::r2::{add_iso_date, diff_date_time, diff_iso_date, DUnit, DateDur, Dt, Overflow, Ymd, NS_PER_DAY};
use crate::r3::UNIT_NS;
use crate::r4::Mode;
use crate::r5::{default_largest, is_valid, DErr, Fields, LIMIT_NS};
use core::cmp::Ordering;

/// An internal duration: a date duration and an exact time duration in ns.
#[derive(Debug, Clone, Copy, PartialEq, Eq)]
pub struct Internal {
    pub date: DateDur,
    pub time: i128,
}

impl Internal {
    pub fn sign(&self) -> i32 {
        let s = self.date.sign();
        if s != 0 {
            s
        } else {
            self.time.signum() as i32
        }
    }
}

fn dunit(ix: usize) -> Option<DUnit> {
    match ix {
        0 => Some(DUnit::Year),
        1 => Some(DUnit::Month),
        2 => Some(DUnit::Week),
        3 => Some(DUnit::Day),
        _ => None,
    }
}

fn cal_add(date: Ymd, d: DateDur) -> Result<Ymd, DErr> {
    add_iso_date(date, d, Overflow::Constrain).map_err(|_| DErr::Range)
}

fn date_dur_valid(d: &DateDur) -> bool {
    let lim = 1i64 << 32;
    d.sign_uniform() && d.years.abs() < lim && d.months.abs() < lim && d.weeks.abs() < lim && (d.days as i128 * NS_PER_DAY).abs() < LIMIT_NS
}

#[derive(Debug, Clone, Copy, PartialEq, Eq)]
enum Unsigned {
    Zero,
    Infinity,
    HalfZero,
    HalfInfinity,
    HalfEven,
}

fn unsigned_mode(mode: Mode, negative: bool) -> Unsigned {
    match mode {
        Mode::Ceil => {
            if negative {
                Unsigned::Zero
            } else {
                Unsigned::Infinity
            }
        }
        Mode::Floor => {
            if negative {
                Unsigned::Infinity
            } else {
                Unsigned::Zero
            }
        }
        Mode::Expand => Unsigned::Infinity,
        Mode::Trunc => Unsigned::Zero,
        Mode::HalfCeil => {
            if negative {
                Unsigned::HalfZero
            } else {
                Unsigned::HalfInfinity
            }
        }
        Mode::HalfFloor => {
            if negative {
                Unsigned::HalfInfinity
            } else {
                Unsigned::HalfZero
            }
        }
        Mode::HalfExpand => Unsigned::HalfInfinity,
        Mode::HalfTrunc => Unsigned::HalfZero,
        Mode::HalfEven => Unsigned::HalfEven,
    }
}

pub struct Nudge {
    pub duration: Internal,
    pub nudged_epoch_ns: i128,
    pub did_expand: bool,
    /// total = num / den (den > 0), in units of `unit`
    pub total: (i128, i128),
}

/// NudgeToCalendarUnit for a plain (zone-less) receiver.
pub fn nudge_to_calendar_unit(sign: i64, dur: &Internal, dest_epoch_ns: i128, origin: Dt, inc: i64, unit: usize, mode: Mode) -> Result<Nudge, DErr> {
    nudge_to_calendar_unit_with(sign, dur, dest_epoch_ns, origin, inc, unit, mode, &|dt: Dt| Ok(dt.epoch_ns()))
}

/// The same with the conversion wall-clock -> epoch ns supplied (UTC for plain receivers,
/// GetEpochNanosecondsFor(zone, ., compatible) for zoned ones).
#[allow(clippy::too_many_arguments)]
pub fn nudge_to_calendar_unit_with(sign: i64, dur: &Internal, dest_epoch_ns: i128, origin: Dt, inc: i64, unit: usize, mode: Mode, epoch_of: &dyn Fn(Dt) -> Result<i128, DErr>) -> Result<Nudge, DErr> {
    let d = dur.date;
    let trunc_to = |v: i64| -> i64 { (v / inc) * inc }; // RoundNumberToIncrement(v, inc, trunc)
    let (r1, r2, start_dur, end_dur) = match unit {
        0 => {
            let y = trunc_to(d.years);
            (y, y + inc * sign, DateDur { years: y, ..Default::default() }, DateDur { years: y + inc * sign, ..Default::default() })
        }
        1 => {
            let m = trunc_to(d.months);
            (m, m + inc * sign, DateDur { years: d.years, months: m, ..Default::default() }, DateDur { years: d.years, months: m + inc * sign, ..Default::default() })
        }
        2 => {
            let ym = DateDur { years: d.years, months: d.months, ..Default::default() };
            let weeks_start = cal_add(origin.date, ym)?;
            let e = weeks_start.epoch_day() + d.days;
            if e < crate::r1::MIN_DAY || e > crate::r1::MAX_DAY {
                return Err(DErr::Range);
            }
            let weeks_end = Ymd::from_epoch_day(e);
            let until = diff_iso_date(weeks_start, weeks_end, DUnit::Week);
            let w = trunc_to(d.weeks + until.weeks);
            (w, w + inc * sign, DateDur { years: d.years, months: d.months, weeks: w, days: 0 }, DateDur { years: d.years, months: d.months, weeks: w + inc * sign, days: 0 })
        }
        3 => {
            let dd = trunc_to(d.days);
            (dd, dd + inc * sign, DateDur { days: dd, ..d }, DateDur { days: dd + inc * sign, ..d })
        }
        _ => unreachable!(),
    };
    if !date_dur_valid(&start_dur) || !date_dur_valid(&end_dur) {
        return Err(DErr::Range);
    }
    let start = cal_add(origin.date, start_dur)?;
    let end = cal_add(origin.date, end_dur)?;
    let start_ns = epoch_of(Dt::new(start, origin.tod))?;
    let end_ns = epoch_of(Dt::new(end, origin.tod))?;
    if start_ns == end_ns {
        return Err(DErr::SpecAssert);
    }
    let (mut num, mut den) = (dest_epoch_ns - start_ns, end_ns - start_ns);
    if den < 0 {
        num = -num;
        den = -den;
    }
    if !(num >= 0 && num <= den) {
        // e.g. P1M + 1 ns from January 31: the difference is 29 days (the month is not counted
        // because Feb 31 surpasses Feb 29) but Jan 31 + 1 month is constrained to Feb 29 00:00
        return Err(DErr::SpecAssert);
    }
    // total = r1 + progress * inc * sign
    let total = (r1 as i128 * den + num * inc as i128 * sign as i128, den);
    let um = unsigned_mode(mode, sign < 0);
    let to_r2 = if num == den {
        true
    } else if num == 0 {
        false
    } else {
        match um {
            Unsigned::Zero => false,
            Unsigned::Infinity => true,
            _ => match (2 * num).cmp(&den) {
                Ordering::Less => false,
                Ordering::Greater => true,
                Ordering::Equal => match um {
                    Unsigned::HalfZero => false,
                    Unsigned::HalfInfinity => true,
                    _ => (r1.abs() / inc) % 2 != 0,
                },
            },
        }
    };
    let (duration, nudged) = if to_r2 { (end_dur, end_ns) } else { (start_dur, start_ns) };
    Ok(Nudge { duration: Internal { date: duration, time: 0 }, nudged_epoch_ns: nudged, did_expand: to_r2, total })
}

/// NudgeToDayOrTime
pub fn nudge_to_day_or_time(dur: &Internal, dest_epoch_ns: i128, largest: usize, inc: i64, smallest: usize, mode: Mode) -> Result<Nudge, DErr> {
    let time = dur.time + dur.date.days as i128 * NS_PER_DAY;
    if time.abs() >= LIMIT_NS + 1 {
        return Err(DErr::Range);
    }
    let unit_len = UNIT_NS[smallest - 3];
    let rounded = crate::r4::round(time, unit_len * inc as i128, mode);
    if rounded.abs() > LIMIT_NS {
        return Err(DErr::Range);
    }
    let diff = rounded - time;
    let whole_days = time / NS_PER_DAY;
    let rounded_whole_days = rounded / NS_PER_DAY;
    let day_delta = rounded_whole_days - whole_days;
    let did_expand = day_delta.signum() == time.signum();
    let (days, remainder) = if largest <= 3 { (rounded_whole_days, rounded - rounded_whole_days * NS_PER_DAY) } else { (0, rounded) };
    let date = DateDur { days: days as i64, ..dur.date };
    Ok(Nudge { duration: Internal { date, time: remainder }, nudged_epoch_ns: dest_epoch_ns + diff, did_expand, total: (0, 1) })
}

/// BubbleRelativeDuration for a plain receiver.
pub fn bubble(sign: i64, dur: Internal, nudged_epoch_ns: i128, origin: Dt, largest: usize, smallest: usize) -> Result<Internal, DErr> {
    bubble_with(sign, dur, nudged_epoch_ns, origin, largest, smallest, &|dt: Dt| Ok(dt.epoch_ns()))
}

pub fn bubble_with(sign: i64, mut dur: Internal, nudged_epoch_ns: i128, origin: Dt, largest: usize, smallest: usize, epoch_of: &dyn Fn(Dt) -> Result<i128, DErr>) -> Result<Internal, DErr> {
    if smallest == largest {
        return Ok(dur);
    }
    let mut unit = smallest as i64 - 1;
    while unit >= largest as i64 {
        let u = unit as usize;
        if u != 2 || largest == 2 {
            let end_dur = match u {
                0 => DateDur { years: dur.date.years + sign, ..Default::default() },
                1 => DateDur { years: dur.date.years, months: dur.date.months + sign, ..Default::default() },
                2 => DateDur { years: dur.date.years, months: dur.date.months, weeks: dur.date.weeks + sign, days: 0 },
                _ => unreachable!(),
            };
            if !date_dur_valid(&end_dur) {
                return Err(DErr::Range);
            }
            let end = cal_add(origin.date, end_dur)?;
            let end_ns = epoch_of(Dt::new(end, origin.tod))?;
            let beyond = (nudged_epoch_ns - end_ns).signum() as i64;
            if beyond != -sign {
                dur = Internal { date: end_dur, time: 0 };
            } else {
                break;
            }
        }
        unit -= 1;
    }
    Ok(dur)
}

/// DifferencePlainDateTimeWithRounding for the ISO calendar. Units are field indices 0 = year … 9 = ns.
pub fn diff_with_rounding(d1: Dt, d2: Dt, largest: usize, inc: i64, smallest: usize, mode: Mode) -> Result<Internal, DErr> {
    if d1 == d2 {
        return Ok(Internal { date: DateDur::default(), time: 0 });
    }
    if !d1.in_limits() || !d2.in_limits() {
        return Err(DErr::Range);
    }
    let (date, time) = diff_date_time(d1, d2, dunit(largest));
    let diff = Internal { date, time };
    if smallest == 9 && inc == 1 {
        return Ok(diff);
    }
    let dest = d2.epoch_ns();
    let sign = if diff.sign() < 0 { -1 } else { 1 };
    let nudge = if smallest <= 2 || (smallest == 3 && false) {
        nudge_to_calendar_unit(sign, &diff, dest, d1, inc, smallest, mode)?
    } else {
        nudge_to_day_or_time(&diff, dest, largest, inc, smallest, mode)?
    };
    let mut out = nudge.duration;
    if nudge.did_expand && smallest != 2 {
        let start_unit = smallest.min(3);
        out = bubble(sign, out, nudge.nudged_epoch_ns, d1, largest, start_unit)?;
    }
    Ok(out)
}

/// TemporalDurationFromInternal: ten exact integer fields, or RangeError if they do not form a valid duration.
pub fn from_internal(d: &Internal, largest: usize) -> Result<[i128; 10], DErr> {
    let sign = d.time.signum();
    let mut rest = d.time.abs();
    let mut f = [0i128; 10];
    let top = largest.max(3);
    for i in top..10 {
        f[i] = sign * (rest / UNIT_NS[i - 3]);
        rest %= UNIT_NS[i - 3];
    }
    f[0] = d.date.years as i128;
    f[1] = d.date.months as i128;
    f[2] = d.date.weeks as i128;
    f[3] += d.date.days as i128;
    let ff: Fields = f.map(|x| x as f64);
    if !is_valid(&ff) {
        return Err(DErr::Range);
    }
    Ok(f)
}

fn to_internal_24h(f: &Fields) -> Result<Internal, DErr> {
    let time = crate::r5::time_total(f).ok_or(DErr::Range)?;
    if time.abs() >= LIMIT_NS {
        return Err(DErr::Range);
    }
    Ok(Internal { date: DateDur { years: f[0] as i64, months: f[1] as i64, weeks: f[2] as i64, days: 0 }, time })
}

/// The date-time a duration leads to from midnight of `rel` (steps b-f of Duration.prototype.round / total).
pub fn target_of(f: &Fields, rel: Ymd) -> Result<(Dt, Dt), DErr> {
    let internal = to_internal_24h(f)?;
    let days = internal.time.div_euclid(NS_PER_DAY);
    let tod = internal.time.rem_euclid(NS_PER_DAY);
    let date_dur = DateDur { days: days as i64, ..internal.date };
    if !date_dur_valid(&date_dur) {
        return Err(DErr::Range);
    }
    let target_date = cal_add(rel, date_dur)?;
    Ok((Dt::new(rel, 0), Dt::new(target_date, tod)))
}

/// Duration.prototype.round relative to a plain date, for resolved and valid options.
pub fn round_relative(f: &Fields, rel: Ymd, largest: usize, inc: i64, smallest: usize, mode: Mode) -> Result<[i128; 10], DErr> {
    let (origin, target) = target_of(f, rel)?;
    let internal = diff_with_rounding(origin, target, largest, inc, smallest, mode)?;
    from_internal(&internal, largest)
}

/// Duration.prototype.total relative to a plain date: exact rational (num, den), den > 0.
pub fn total_relative(f: &Fields, rel: Ymd, unit: usize) -> Result<(i128, i128), DErr> {
    let (origin, target) = target_of(f, rel)?;
    if origin == target {
        return Ok((0, 1));
    }
    if !origin.in_limits() || !target.in_limits() {
        return Err(DErr::Range);
    }
    let (date, time) = diff_date_time(origin, target, dunit(unit));
    let diff = Internal { date, time };
    if unit == 9 {
        return Ok((diff.time, 1));
    }
    if unit <= 2 {
        let sign = if diff.sign() < 0 { -1 } else { 1 };
        let n = nudge_to_calendar_unit(sign, &diff, target.epoch_ns(), origin, 1, unit, Mode::Trunc)?;
        return Ok(n.total);
    }
    let t = diff.time + diff.date.days as i128 * NS_PER_DAY;
    Ok((t, UNIT_NS[unit - 3]))
}

/// DateDurationDays
fn date_duration_days(f: &Fields, rel: Ymd) -> Result<i128, DErr> {
    let ymw = DateDur { years: f[0] as i64, months: f[1] as i64, weeks: f[2] as i64, days: 0 };
    if ymw == DateDur::default() {
        return Ok(f[3] as i128);
    }
    let later = cal_add(rel, ymw)?;
    Ok(f[3] as i128 + (later.epoch_day() - rel.epoch_day()) as i128)
}

/// Duration.compare relative to a plain date.
pub fn compare_relative(a: &Fields, b: &Fields, rel: Option<Ymd>) -> Result<Ordering, DErr> {
    if a == b {
        return Ok(Ordering::Equal);
    }
    let calendar_units = default_largest(a) <= 2 || default_largest(b) <= 2;
    let (da, db) = if calendar_units {
        let Some(rel) = rel else { return Err(DErr::Range) };
        (date_duration_days(a, rel)?, date_duration_days(b, rel)?)
    } else {
        (a[3] as i128, b[3] as i128)
    };
    let time = |f: &Fields, days: i128| -> Result<i128, DErr> {
        let mut g = *f;
        g[3] = 0.0;
        let t = crate::r5::time_total(&g).ok_or(DErr::Range)? + days * NS_PER_DAY;
        if t.abs() >= LIMIT_NS {
            return Err(DErr::Range);
        }
        Ok(t)
    };
    Ok(time(a, da)?.cmp(&time(b, db)?))
}

#[cfg(test)]
mod tests {
    use super::*;
    fn f(v: [i64; 10]) -> Fields {
        v.map(|x| x as f64)
    }
    #[test]
    fn spec_examples() {
        // P11M20D ceil to months, largest year, relative to 2020-01-01 -> P1Y
        let r = round_relative(&f([0, 11, 0, 20, 0, 0, 0, 0, 0, 0]), Ymd::new(2020, 1, 1), 0, 1, 1, Mode::Ceil).unwrap();
        assert_eq!(r, [1, 0, 0, 0, 0, 0, 0, 0, 0, 0]);
        // P1Y relative to 2020-01-01 in days = 366
        assert_eq!(total_relative(&f([1, 0, 0, 0, 0, 0, 0, 0, 0, 0]), Ymd::new(2020, 1, 1), 3).unwrap(), (366 * NS_PER_DAY, NS_PER_DAY));
        // P1M15D from 2020-02-01 in months: 1 + 15/31
        let (n, d) = total_relative(&f([0, 1, 0, 15, 0, 0, 0, 0, 0, 0]), Ymd::new(2020, 2, 1), 1).unwrap();
        assert_eq!(n * 31, 46 * d);
        // PT36H largest day relative -> P1DT12H
        let r = round_relative(&f([0, 0, 0, 0, 36, 0, 0, 0, 0, 0]), Ymd::new(2020, 1, 1), 3, 1, 9, Mode::Trunc).unwrap();
        assert_eq!(r, [0, 0, 0, 1, 12, 0, 0, 0, 0, 0]);
        // rounding days up into the next month: P1M30DT13H halfExpand to days, largest month from 2020-01-01 -> Feb has 29 days -> P2M2D
        let r = round_relative(&f([0, 1, 0, 30, 13, 0, 0, 0, 0, 0]), Ymd::new(2020, 1, 1), 1, 1, 3, Mode::HalfExpand).unwrap();
        assert_eq!(r, [0, 2, 0, 2, 0, 0, 0, 0, 0, 0]);
        // negative: -P11M20D expand to months largest year -> -P1Y
        let r = round_relative(&f([0, -11, 0, -20, 0, 0, 0, 0, 0, 0]), Ymd::new(2020, 1, 1), 0, 1, 1, Mode::Expand).unwrap();
        assert_eq!(r, [-1, 0, 0, 0, 0, 0, 0, 0, 0, 0]);
        assert_eq!(compare_relative(&f([0, 1, 0, 0, 0, 0, 0, 0, 0, 0]), &f([0, 0, 0, 30, 0, 0, 0, 0, 0, 0]), Some(Ymd::new(2020, 2, 1))).unwrap(), Ordering::Less);
        assert_eq!(compare_relative(&f([0, 1, 0, 0, 0, 0, 0, 0, 0, 0]), &f([0, 0, 0, 30, 0, 0, 0, 0, 0, 0]), Some(Ymd::new(2020, 1, 1))).unwrap(), Ordering::Greater);
    }
}

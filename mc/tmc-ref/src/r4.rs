//! R4 — RoundNumberToIncrement in exact integer arithmetic, and its rational form.

#[derive(Debug, Clone, Copy, PartialEq, Eq, Hash)]
pub enum Mode {
    Ceil,
    Floor,
    Expand,
    Trunc,
    HalfCeil,
    HalfFloor,
    HalfExpand,
    HalfTrunc,
    HalfEven,
}

pub const ALL_MODES: [Mode; 9] = [
    Mode::Ceil,
    Mode::Floor,
    Mode::Expand,
    Mode::Trunc,
    Mode::HalfCeil,
    Mode::HalfFloor,
    Mode::HalfExpand,
    Mode::HalfTrunc,
    Mode::HalfEven,
];

impl Mode {
    /// NegateRoundingMode
    pub fn negate(self) -> Mode {
        match self {
            Mode::Ceil => Mode::Floor,
            Mode::Floor => Mode::Ceil,
            Mode::HalfCeil => Mode::HalfFloor,
            Mode::HalfFloor => Mode::HalfCeil,
            m => m,
        }
    }
    pub fn name(self) -> &'static str {
        match self {
            Mode::Ceil => "ceil",
            Mode::Floor => "floor",
            Mode::Expand => "expand",
            Mode::Trunc => "trunc",
            Mode::HalfCeil => "halfCeil",
            Mode::HalfFloor => "halfFloor",
            Mode::HalfExpand => "halfExpand",
            Mode::HalfTrunc => "halfTrunc",
            Mode::HalfEven => "halfEven",
        }
    }
    /// Does the choice of neighbour depend on the sign of the value?
    pub fn sign_dependent(self) -> bool {
        matches!(self, Mode::Expand | Mode::Trunc | Mode::HalfExpand | Mode::HalfTrunc)
    }
}

/// The two multiples of `inc` adjacent to `v`: (lower, upper); lower == upper == v when inc | v.
pub fn neighbours(v: i128, inc: i128) -> (i128, i128) {
    assert!(inc > 0);
    let lo = v.div_euclid(inc) * inc;
    if lo == v {
        (v, v)
    } else {
        (lo, lo + inc)
    }
}

/// RoundNumberToIncrement(v, inc, mode): the neighbouring multiple prescribed by the mode.
pub fn round(v: i128, inc: i128, mode: Mode) -> i128 {
    let (lo, hi) = neighbours(v, inc);
    if lo == hi {
        return v;
    }
    let rem = v - lo; // 0 < rem < inc
    let toward_zero = if v > 0 { lo } else { hi };
    let away = if v > 0 { hi } else { lo };
    match mode {
        Mode::Ceil => hi,
        Mode::Floor => lo,
        Mode::Expand => away,
        Mode::Trunc => toward_zero,
        _ => {
            let twice = 2 * rem;
            if twice < inc {
                lo
            } else if twice > inc {
                hi
            } else {
                match mode {
                    Mode::HalfCeil => hi,
                    Mode::HalfFloor => lo,
                    Mode::HalfExpand => away,
                    Mode::HalfTrunc => toward_zero,
                    Mode::HalfEven => {
                        if (lo / inc).rem_euclid(2) == 0 {
                            lo
                        } else {
                            hi
                        }
                    }
                    _ => unreachable!(),
                }
            }
        }
    }
}

/// RoundNumberToIncrementAsIfPositive: the direction modes act as for a positive number
/// (trunc = floor, expand = ceil, halfTrunc = halfFloor, halfExpand = halfCeil).
pub fn round_as_if_positive(v: i128, inc: i128, mode: Mode) -> i128 {
    let m = match mode {
        Mode::Trunc => Mode::Floor,
        Mode::Expand => Mode::Ceil,
        Mode::HalfTrunc => Mode::HalfFloor,
        Mode::HalfExpand => Mode::HalfCeil,
        m => m,
    };
    round(v, inc, m)
}

/// Rational form: round num/den (den > 0) to a multiple of inc; returns the multiple (an integer).
pub fn round_rational(num: i128, den: i128, inc: i128, mode: Mode) -> i128 {
    assert!(den > 0);
    let r = round(num, inc * den, mode);
    debug_assert!(r % den == 0);
    r / den
}

/// All n with 1 <= n < max (or <= max when inclusive) and n | max.
pub fn admissible_increments(max: u64, inclusive: bool) -> Vec<u64> {
    (1..=max).filter(|n| max % n == 0 && (inclusive || *n < max)).collect()
}

#[cfg(test)]
mod tests {
    use super::*;
    #[test]
    fn basics() {
        assert_eq!(round(2, 5, Mode::HalfExpand), 0);
        assert_eq!(round(3, 5, Mode::HalfExpand), 5);
        assert_eq!(round(-2, 5, Mode::HalfExpand), 0);
        assert_eq!(round(-3, 5, Mode::HalfExpand), -5);
        assert_eq!(round(5, 10, Mode::HalfEven), 0);
        assert_eq!(round(15, 10, Mode::HalfEven), 20);
        assert_eq!(round(-5, 10, Mode::HalfEven), 0);
        assert_eq!(round(-15, 10, Mode::HalfEven), -20);
        assert_eq!(round(-5, 10, Mode::HalfCeil), 0);
        assert_eq!(round(-5, 10, Mode::HalfFloor), -10);
        assert_eq!(round(-1, 10, Mode::Trunc), 0);
        assert_eq!(round_as_if_positive(-1, 10, Mode::Trunc), -10);
        for v in -50..50 {
            for inc in 1..12 {
                for m in ALL_MODES {
                    // round(-v, m) = -round(v, negate(m))
                    assert_eq!(round(-v, inc, m), -round(v, inc, m.negate()));
                    assert_eq!(round_rational(v, 3, inc, m) * 3, round(v, 3 * inc, m));
                }
            }
        }
    }
}

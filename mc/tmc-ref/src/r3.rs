//! R3 — exact time arithmetic: durations as integer nanoseconds, times of day mod 24 h, instants
//! on the i128 epoch line, exact balancing to a largest unit.

pub const NS_PER_DAY: i128 = 86_400_000_000_000;
pub const UNIT_NS: [i128; 7] = [NS_PER_DAY, 3_600_000_000_000, 60_000_000_000, 1_000_000_000, 1_000_000, 1_000, 1];

/// Exact total of (days, hours, minutes, seconds, ms, µs, ns) given as integral doubles, in ns
/// (a day counting 24 h).
pub fn total_ns(f: &[f64; 7]) -> i128 {
    let mut t = 0i128;
    for i in 0..7 {
        debug_assert!(f[i].fract() == 0.0);
        t += (f[i] as i128) * UNIT_NS[i];
    }
    t
}

/// Exact total of the time fields of a ten-field duration (hours…ns), in ns.
pub fn time_total_ns(f: &[f64; 10]) -> i128 {
    total_ns(&[0.0, f[4], f[5], f[6], f[7], f[8], f[9]])
}

/// Time units, largest first: index 0 = day, 1 = hour, … 6 = nanosecond.
#[derive(Debug, Clone, Copy, PartialEq, Eq, PartialOrd, Ord, Hash)]
pub struct TUnit(pub usize);
pub const T_DAY: TUnit = TUnit(0);
pub const T_HOUR: TUnit = TUnit(1);
pub const T_MINUTE: TUnit = TUnit(2);
pub const T_SECOND: TUnit = TUnit(3);
pub const T_MS: TUnit = TUnit(4);
pub const T_US: TUnit = TUnit(5);
pub const T_NS: TUnit = TUnit(6);

/// Balance an exact nanosecond total top-down starting at `largest` (BalanceTimeDuration): every
/// field carries the sign of the total; fields above `largest` are zero.
/// Returns [days, hours, minutes, seconds, ms, µs, ns].
pub fn balance(total: i128, largest: TUnit) -> [i128; 7] {
    let sign = if total < 0 { -1 } else { 1 };
    let mut rest = total.abs();
    let mut out = [0i128; 7];
    for i in largest.0..7 {
        out[i] = sign * (rest / UNIT_NS[i]);
        rest %= UNIT_NS[i];
    }
    out
}

/// The value an f64 field takes when the exact integer is converted (the API stores doubles).
pub fn to_f64(v: i128) -> f64 {
    v as f64
}

//! R7 — an independent TZif (RFC 8536, version 2+) reader and POSIX TZ rule evaluator.
//! Produces an R6 `Zone` (table transitions + footer-rule transitions for requested years).

use crate::r1::{days_from_civil, days_in_month, is_leap};
use crate::r6::{Zone, NS};

#[derive(Debug, Clone)]
pub struct TzFile {
    /// (utoff seconds, is_dst)
    pub types: Vec<(i64, bool)>,
    /// (transition time in seconds, type index), ascending
    pub trans: Vec<(i64, usize)>,
    pub footer: String,
}

fn be32(b: &[u8], o: usize) -> u32 {
    u32::from_be_bytes([b[o], b[o + 1], b[o + 2], b[o + 3]])
}
fn be64(b: &[u8], o: usize) -> i64 {
    i64::from_be_bytes([b[o], b[o + 1], b[o + 2], b[o + 3], b[o + 4], b[o + 5], b[o + 6], b[o + 7]])
}

struct Header {
    isutcnt: usize,
    isstdcnt: usize,
    leapcnt: usize,
    timecnt: usize,
    typecnt: usize,
    charcnt: usize,
}

fn header(b: &[u8], o: usize) -> Result<(u8, Header), String> {
    if b.len() < o + 44 || &b[o..o + 4] != b"TZif" {
        return Err("not a TZif file".into());
    }
    Ok((
        b[o + 4],
        Header {
            isutcnt: be32(b, o + 20) as usize,
            isstdcnt: be32(b, o + 24) as usize,
            leapcnt: be32(b, o + 28) as usize,
            timecnt: be32(b, o + 32) as usize,
            typecnt: be32(b, o + 36) as usize,
            charcnt: be32(b, o + 40) as usize,
        },
    ))
}

pub fn parse_tzif(b: &[u8]) -> Result<TzFile, String> {
    let (version, h1) = header(b, 0)?;
    if version < b'2' {
        return Err("TZif version 1 file (no 64-bit data)".into());
    }
    // skip the version-1 data block
    let v1 = 44 + h1.timecnt * 4 + h1.timecnt + h1.typecnt * 6 + h1.charcnt + h1.leapcnt * 8 + h1.isstdcnt + h1.isutcnt;
    let (_, h) = header(b, v1)?;
    let mut o = v1 + 44;
    let need = o + h.timecnt * 9 + h.typecnt * 6 + h.charcnt + h.leapcnt * 12 + h.isstdcnt + h.isutcnt;
    if b.len() < need {
        return Err("truncated TZif data block".into());
    }
    let mut times = vec![];
    for i in 0..h.timecnt {
        times.push(be64(b, o + 8 * i));
    }
    o += 8 * h.timecnt;
    let mut idx = vec![];
    for i in 0..h.timecnt {
        idx.push(b[o + i] as usize);
    }
    o += h.timecnt;
    let mut types = vec![];
    for i in 0..h.typecnt {
        let p = o + 6 * i;
        types.push((be32(b, p) as i32 as i64, b[p + 4] != 0));
    }
    o += 6 * h.typecnt + h.charcnt + 12 * h.leapcnt + h.isstdcnt + h.isutcnt;
    // footer: \n TZ string \n
    let mut footer = String::new();
    if o < b.len() && b[o] == b'\n' {
        let end = b[o + 1..].iter().position(|c| *c == b'\n').map(|p| o + 1 + p).unwrap_or(b.len());
        footer = String::from_utf8_lossy(&b[o + 1..end]).to_string();
    }
    if types.is_empty() || idx.iter().any(|i| *i >= types.len()) {
        return Err("bad type index".into());
    }
    Ok(TzFile { types, trans: times.into_iter().zip(idx).collect(), footer })
}

#[derive(Debug, Clone, Copy, PartialEq, Eq)]
pub enum RuleDate {
    /// Mm.w.d — weekday d (0 = Sunday) of week w (5 = last) of month m
    Mwd(u8, u8, u8),
    /// Jn — day 1..=365, February 29 is never counted
    JulianNoLeap(u16),
    /// n — zero-based day 0..=365, February 29 counted in leap years
    ZeroBased(u16),
}

#[derive(Debug, Clone, PartialEq, Eq)]
pub struct PosixRule {
    /// seconds east of UTC
    pub std_off: i64,
    /// (dst offset east, start date, start time s, end date, end time s)
    pub dst: Option<(i64, RuleDate, i64, RuleDate, i64)>,
}

struct P<'a> {
    s: &'a [u8],
    i: usize,
}
impl P<'_> {
    fn peek(&self) -> Option<u8> {
        self.s.get(self.i).copied()
    }
    fn name(&mut self) -> Result<(), String> {
        if self.peek() == Some(b'<') {
            while let Some(c) = self.peek() {
                self.i += 1;
                if c == b'>' {
                    return Ok(());
                }
            }
            return Err("unterminated <name>".into());
        }
        let st = self.i;
        while self.peek().map(|c| c.is_ascii_alphabetic()).unwrap_or(false) {
            self.i += 1;
        }
        if self.i - st < 3 {
            return Err("zone name too short".into());
        }
        Ok(())
    }
    fn num(&mut self) -> Result<i64, String> {
        let st = self.i;
        let mut v = 0i64;
        while let Some(c) = self.peek() {
            if !c.is_ascii_digit() {
                break;
            }
            v = v * 10 + (c - b'0') as i64;
            self.i += 1;
        }
        if st == self.i {
            return Err("number expected".into());
        }
        Ok(v)
    }
    /// [+-]hh[:mm[:ss]] in seconds, sign as written
    fn hms(&mut self) -> Result<i64, String> {
        let mut sign = 1;
        match self.peek() {
            Some(b'+') => self.i += 1,
            Some(b'-') => {
                sign = -1;
                self.i += 1
            }
            _ => {}
        }
        let mut v = self.num()? * 3600;
        if self.peek() == Some(b':') {
            self.i += 1;
            v += self.num()? * 60;
            if self.peek() == Some(b':') {
                self.i += 1;
                v += self.num()?;
            }
        }
        Ok(sign * v)
    }
    fn date(&mut self) -> Result<RuleDate, String> {
        match self.peek() {
            Some(b'M') => {
                self.i += 1;
                let m = self.num()?;
                self.expect(b'.')?;
                let w = self.num()?;
                self.expect(b'.')?;
                let d = self.num()?;
                if !(1..=12).contains(&m) || !(1..=5).contains(&w) || !(0..=6).contains(&d) {
                    return Err("bad Mm.w.d".into());
                }
                Ok(RuleDate::Mwd(m as u8, w as u8, d as u8))
            }
            Some(b'J') => {
                self.i += 1;
                let n = self.num()?;
                if !(1..=365).contains(&n) {
                    return Err("bad Jn".into());
                }
                Ok(RuleDate::JulianNoLeap(n as u16))
            }
            _ => {
                let n = self.num()?;
                if n > 365 {
                    return Err("bad n".into());
                }
                Ok(RuleDate::ZeroBased(n as u16))
            }
        }
    }
    fn expect(&mut self, c: u8) -> Result<(), String> {
        if self.peek() == Some(c) {
            self.i += 1;
            Ok(())
        } else {
            Err(format!("'{}' expected at {}", c as char, self.i))
        }
    }
}

pub fn parse_posix(s: &str) -> Result<PosixRule, String> {
    let mut p = P { s: s.as_bytes(), i: 0 };
    p.name()?;
    let std_off = -p.hms()?;
    if p.peek().is_none() {
        return Ok(PosixRule { std_off, dst: None });
    }
    p.name()?;
    let dst_off = match p.peek() {
        Some(b',') | None => std_off + 3600,
        _ => -p.hms()?,
    };
    if p.peek().is_none() {
        return Err("DST without rule".into());
    }
    p.expect(b',')?;
    let sd = p.date()?;
    let st = if p.peek() == Some(b'/') {
        p.i += 1;
        p.hms()?
    } else {
        7200
    };
    p.expect(b',')?;
    let ed = p.date()?;
    let et = if p.peek() == Some(b'/') {
        p.i += 1;
        p.hms()?
    } else {
        7200
    };
    if p.peek().is_some() {
        return Err("trailing characters".into());
    }
    Ok(PosixRule { std_off, dst: Some((dst_off, sd, st, ed, et)) })
}

/// Epoch day of a rule date in `year`, found by scanning days (no closed forms).
pub fn rule_day(d: RuleDate, year: i64) -> i64 {
    let jan1 = days_from_civil(year, 1, 1);
    match d {
        RuleDate::ZeroBased(n) => jan1 + n as i64,
        RuleDate::JulianNoLeap(n) => {
            let mut day = jan1 + n as i64 - 1;
            if is_leap(year) && n >= 60 {
                day += 1;
            }
            day
        }
        RuleDate::Mwd(m, w, wd) => {
            let first = days_from_civil(year, m, 1);
            let dim = days_in_month(year, m) as i64;
            // scan the month for the days with that weekday (day 0 = Thursday; Sunday = 0)
            let hits: Vec<i64> = (0..dim).map(|k| first + k).filter(|e| (e + 4).rem_euclid(7) == wd as i64).collect();
            if w == 5 {
                *hits.last().unwrap()
            } else {
                hits[w as usize - 1]
            }
        }
    }
}

/// The two transitions of `year` as (utc seconds, offset after), ascending.
pub fn rule_transitions(r: &PosixRule, year: i64) -> Vec<(i64, i64)> {
    let Some((dst_off, sd, st, ed, et)) = r.dst else { return vec![] };
    let start = rule_day(sd, year) * 86_400 + st - r.std_off;
    let end = rule_day(ed, year) * 86_400 + et - dst_off;
    let mut v = vec![(start, dst_off), (end, r.std_off)];
    v.sort();
    v
}

/// Build the R6 zone: all table transitions, then the footer's transitions for the given years
/// (only those after the last table transition). `years` must be ascending.
pub fn build_zone(f: &TzFile, years: &[i64]) -> Result<Zone, String> {
    let initial = f.types[0].0;
    let mut trans: Vec<(i128, i64)> = vec![];
    let mut cur = initial;
    for (t, ty) in &f.trans {
        let off = f.types[*ty].0;
        // keep every listed transition, also no-op ones (they are instants the table names)
        trans.push((*t as i128 * NS, off));
        cur = off;
    }
    let _ = cur;
    if !f.footer.is_empty() {
        let rule = parse_posix(&f.footer)?;
        let last = f.trans.last().map(|x| x.0).unwrap_or(i64::MIN);
        if rule.dst.is_none() {
            if f.trans.is_empty() {
                return Ok(Zone { initial: rule.std_off, trans: vec![] });
            }
        } else {
            for y in years {
                for (t, off) in rule_transitions(&rule, *y) {
                    if t > last {
                        trans.push((t as i128 * NS, off));
                    }
                }
            }
        }
    }
    // drop no-op transitions relative to the running offset so that candidates() is well defined
    let mut out = vec![];
    let mut cur = initial;
    for (t, o) in trans {
        if o != cur {
            out.push((t, o));
            cur = o;
        }
    }
    Ok(Zone { initial, trans: out })
}

#[cfg(test)]
mod tests {
    use super::*;
    #[test]
    fn posix() {
        let r = parse_posix("EST5EDT,M3.2.0,M11.1.0").unwrap();
        assert_eq!(r.std_off, -18000);
        let t = rule_transitions(&r, 2021);
        assert_eq!(t[0], (1615705200, -14400)); // 2021-03-14T07:00Z
        assert_eq!(t[1], (1636264800, -18000)); // 2021-11-07T06:00Z
        let r = parse_posix("<+1030>-10:30<+11>-11,M10.1.0,M4.1.0").unwrap();
        assert_eq!(r.std_off, 37800);
        assert_eq!(r.dst.unwrap().0, 39600);
        let r = parse_posix("IST-1GMT0,M10.5.0,M3.5.0/1").unwrap();
        assert_eq!((r.std_off, r.dst.unwrap().0), (3600, 0));
        let r = parse_posix("<-03>3<-02>,M3.5.0/-2,M10.5.0/-1").unwrap();
        assert_eq!(r.dst.unwrap().2, -7200);
        assert!(parse_posix("UTC0").unwrap().dst.is_none());
        assert_eq!(rule_day(RuleDate::JulianNoLeap(60), 2020), days_from_civil(2020, 3, 1));
        assert_eq!(rule_day(RuleDate::ZeroBased(59), 2020), days_from_civil(2020, 2, 29));
    }
}

//! R5 (zoned half) — Duration round / total relative to a zoned date-time and the rounded
//! difference of two zoned date-times: DifferenceZonedDateTimeWithRounding / NudgeToZonedTime /
//! TotalRelativeDuration with a time zone, transcribed over R6 (zone rule sets, brute force) and
//! the plain-date-time machinery of `r5r`. ISO calendar.

use crate::r2::{add_iso_date, DUnit, DateDur, Dt, Overflow, Ymd, NS_PER_DAY};
use crate::r3::UNIT_NS;
use crate::r4::{self, Mode};
use crate::r5::{DErr, Fields, LIMIT_NS};
use crate::r5r::{bubble_with, from_internal, nudge_to_calendar_unit_with, Internal, Nudge};
use crate::r6::{Disamb, Zone};

fn dunit(ix: usize) -> DUnit {
    [DUnit::Year, DUnit::Month, DUnit::Week, DUnit::Day][ix]
}

fn local_dt(zone: &Zone, t: i128) -> Dt {
    let l = zone.local_of(t);
    Dt::new(Ymd::from_epoch_day(l.div_euclid(NS_PER_DAY) as i64), l.rem_euclid(NS_PER_DAY))
}

fn epoch_of<'a>(zone: &'a Zone) -> impl Fn(Dt) -> Result<i128, DErr> + 'a {
    move |dt: Dt| {
        if !dt.in_limits() {
            return Err(DErr::Range);
        }
        zone.resolve(dt.date.epoch_day() as i128 * NS_PER_DAY + dt.tod, Disamb::Compatible).map_err(|_| DErr::Range)
    }
}

/// NudgeToZonedTime
fn nudge_to_zoned_time(zone: &Zone, sign: i64, dur: &Internal, origin: Dt, inc: i64, unit: usize, mode: Mode) -> Result<Nudge, DErr> {
    let ep = epoch_of(zone);
    let start = add_iso_date(origin.date, dur.date, Overflow::Constrain).map_err(|_| DErr::Range)?;
    let end = Ymd::from_epoch_day(start.epoch_day() + sign);
    let start_ns = ep(Dt::new(start, origin.tod))?;
    let end_ns = ep(Dt::new(end, origin.tod))?;
    let day_span = end_ns - start_ns;
    if day_span.signum() as i64 != sign {
        return Err(DErr::SpecAssert);
    }
    let step = UNIT_NS[unit - 3] * inc as i128;
    let mut rounded = r4::round(dur.time, step, mode);
    let beyond = rounded - day_span;
    let (did, day_delta, nudged);
    if beyond.signum() as i64 != -sign {
        did = true;
        day_delta = sign;
        rounded = r4::round(beyond, step, mode);
        nudged = rounded + end_ns;
    } else {
        did = false;
        day_delta = 0;
        nudged = rounded + start_ns;
    }
    let date = DateDur { days: dur.date.days + day_delta, ..dur.date };
    Ok(Nudge { duration: Internal { date, time: rounded }, nudged_epoch_ns: nudged, did_expand: did, total: (0, 1) })
}

/// DifferenceZonedDateTimeWithRounding; units are field indices 0 = year … 9 = ns.
pub fn diff_zoned_with_rounding(zone: &Zone, t1: i128, t2: i128, largest: usize, inc: i64, smallest: usize, mode: Mode) -> Result<Internal, DErr> {
    if largest >= 4 {
        // DifferenceInstant
        let r = r4::round(t2 - t1, UNIT_NS[smallest - 3] * inc as i128, mode);
        return Ok(Internal { date: DateDur::default(), time: r });
    }
    let (date, time) = zone.diff_zoned(t1, t2, dunit(largest)).map_err(|_| DErr::SpecAssert)?; // no day correction satisfies the specification's loop (its assertion)
    if date.sign() as i128 * time.signum() < 0 {
        // the receiver reads a repeated wall-clock time in its later copy: the specification's own
        // DifferenceZonedDateTime combines a date part and a time part of opposite sign (assertion)
        return Err(DErr::SpecAssert);
    }
    let diff = Internal { date, time };
    if smallest == 9 && inc == 1 {
        return Ok(diff);
    }
    let origin = local_dt(zone, t1);
    let sign = if diff.sign() < 0 { -1 } else { 1 };
    let ep = epoch_of(zone);
    let nudge = if smallest <= 3 { nudge_to_calendar_unit_with(sign, &diff, t2, origin, inc, smallest, mode, &ep)? } else { nudge_to_zoned_time(zone, sign, &diff, origin, inc, smallest, mode)? };
    let mut out = nudge.duration;
    if nudge.did_expand && smallest != 2 {
        out = bubble_with(sign, out, nudge.nudged_epoch_ns, origin, largest, smallest.min(3), &ep)?;
    }
    Ok(out)
}

fn internal_of(f: &Fields) -> Result<(DateDur, i128), DErr> {
    let mut g = *f;
    g[3] = 0.0;
    let time = crate::r5::time_total(&g).ok_or(DErr::Range)?;
    if time.abs() >= LIMIT_NS {
        return Err(DErr::Range);
    }
    Ok((DateDur { years: f[0] as i64, months: f[1] as i64, weeks: f[2] as i64, days: f[3] as i64 }, time))
}

/// ZonedDateTime until (since = negated result with the negated mode) for resolved, valid options.
pub fn until_zoned(zone: &Zone, t1: i128, t2: i128, largest: usize, inc: i64, smallest: usize, mode: Mode) -> Result<[i128; 10], DErr> {
    if largest >= 4 {
        let d = diff_zoned_with_rounding(zone, t1, t2, largest, inc, smallest, mode)?;
        return from_internal(&d, largest);
    }
    if t1 == t2 {
        return Ok([0; 10]);
    }
    let d = diff_zoned_with_rounding(zone, t1, t2, largest, inc, smallest, mode)?;
    from_internal(&d, 4)
}

/// Duration.prototype.round relative to a zoned date-time.
pub fn round_relative_zoned(zone: &Zone, f: &Fields, t_rel: i128, largest: usize, inc: i64, smallest: usize, mode: Mode) -> Result<[i128; 10], DErr> {
    let (date, time) = internal_of(f)?;
    let target = zone.add_zoned(t_rel, date, time, Overflow::Constrain).map_err(|_| DErr::Range)?;
    let d = diff_zoned_with_rounding(zone, t_rel, target, largest, inc, smallest, mode)?;
    from_internal(&d, largest.max(4))
}

/// Duration.prototype.total relative to a zoned date-time: exact rational.
pub fn total_relative_zoned(zone: &Zone, f: &Fields, t_rel: i128, unit: usize) -> Result<(i128, i128), DErr> {
    let (date, time) = internal_of(f)?;
    let target = zone.add_zoned(t_rel, date, time, Overflow::Constrain).map_err(|_| DErr::Range)?;
    if unit >= 4 {
        return Ok((target - t_rel, UNIT_NS[unit - 3]));
    }
    if target == t_rel {
        return Ok((0, 1));
    }
    let (dd, tt) = zone.diff_zoned(t_rel, target, dunit(unit)).map_err(|_| DErr::SpecAssert)?;
    if dd.sign() as i128 * tt.signum() < 0 {
        return Err(DErr::SpecAssert);
    }
    let diff = Internal { date: dd, time: tt };
    let sign = if diff.sign() < 0 { -1 } else { 1 };
    let ep = epoch_of(zone);
    let n = nudge_to_calendar_unit_with(sign, &diff, target, local_dt(zone, t_rel), 1, unit, Mode::Trunc, &ep)?;
    Ok(n.total)
}

#[cfg(test)]
mod tests {
    use super::*;
    #[test]
    fn fixed_zone_matches_plain() {
        let z = Zone::fixed(3600);
        let f: Fields = [0.0, 11.0, 0.0, 20.0, 0.0, 0.0, 0.0, 0.0, 0.0, 0.0];
        let t = Ymd::new(2020, 1, 1).epoch_day() as i128 * NS_PER_DAY - 3600 * 1_000_000_000;
        let a = round_relative_zoned(&z, &f, t, 0, 1, 1, Mode::Ceil).unwrap();
        assert_eq!(a, [1, 0, 0, 0, 0, 0, 0, 0, 0, 0]);
        // a 23-hour day: PT23H from the start of the short day is exactly one day
        let dst = Ymd::new(2021, 3, 14).epoch_day() as i128 * NS_PER_DAY + 7 * 3600 * 1_000_000_000; // 02:00 -05:00
        let z = Zone { initial: -18000, trans: vec![(dst, -14400)] };
        let midnight = Ymd::new(2021, 3, 14).epoch_day() as i128 * NS_PER_DAY + 5 * 3600 * 1_000_000_000;
        let f: Fields = [0.0, 0.0, 0.0, 0.0, 23.0, 0.0, 0.0, 0.0, 0.0, 0.0];
        let (n, d) = total_relative_zoned(&z, &f, midnight, 3).unwrap();
        assert_eq!(n, d);
        let r = round_relative_zoned(&z, &f, midnight, 3, 1, 3, Mode::HalfExpand).unwrap();
        assert_eq!(r, [0, 0, 0, 1, 0, 0, 0, 0, 0, 0]);
        // PT12H on that day: 12/23 of a day -> rounds to 1 day with halfExpand
        let f: Fields = [0.0, 0.0, 0.0, 0.0, 12.0, 0.0, 0.0, 0.0, 0.0, 0.0];
        let r = round_relative_zoned(&z, &f, midnight, 3, 1, 3, Mode::HalfExpand).unwrap();
        assert_eq!(r, [0, 0, 0, 1, 0, 0, 0, 0, 0, 0]);
    }
}


//! R5 — Durations as signed quantities (no reference date): validity, sign, exact totals, add,
//! compare, round, total.

use crate::r3::{balance, TUnit, UNIT_NS};
use crate::r4::{self, Mode};

/// 2^53 s in ns; a duration exists only if |total time incl. days| < this.
pub const LIMIT_NS: i128 = (1i128 << 53) * 1_000_000_000;
pub const CAL_LIMIT: f64 = 4294967296.0; // 2^32

/// Ten integral doubles: years, months, weeks, days, hours, minutes, seconds, ms, µs, ns.
pub type Fields = [f64; 10];

pub fn sign(f: &Fields) -> i32 {
    for v in f {
        if *v < 0.0 {
            return -1;
        }
        if *v > 0.0 {
            return 1;
        }
    }
    0
}

pub fn sign_uniform(f: &Fields) -> bool {
    !(f.iter().any(|v| *v > 0.0) && f.iter().any(|v| *v < 0.0))
}

/// Exact total of days…ns in ns (a day = 24 h). None if a field is too large to matter (certainly invalid).
pub fn time_total(f: &Fields) -> Option<i128> {
    let mut t = 0i128;
    for i in 0..7 {
        let v = f[3 + i];
        if v.abs() >= 1e30 {
            return None;
        }
        t = t.checked_add((v as i128).checked_mul(UNIT_NS[i])?)?;
    }
    Some(t)
}

/// IsValidDuration
pub fn is_valid(f: &Fields) -> bool {
    if !f.iter().all(|v| v.is_finite() && v.fract() == 0.0) {
        return false;
    }
    if !sign_uniform(f) {
        return false;
    }
    if f[0].abs() >= CAL_LIMIT || f[1].abs() >= CAL_LIMIT || f[2].abs() >= CAL_LIMIT {
        return false;
    }
    match time_total(f) {
        None => false,
        Some(t) => t.abs() < LIMIT_NS,
    }
}

/// DefaultTemporalLargestUnit as an index into the ten fields (0 = year … 9 = nanosecond).
pub fn default_largest(f: &Fields) -> usize {
    f.iter().position(|v| *v != 0.0).unwrap_or(9)
}

fn tunit_of_field(ix: usize) -> TUnit {
    assert!(ix >= 3);
    TUnit(ix - 3)
}

/// Fields of a calendar-free duration with exact total `t`, balanced to field index `largest` (>= 3).
pub fn from_total(t: i128, largest: usize) -> Fields {
    let b = balance(t, tunit_of_field(largest));
    [0.0, 0.0, 0.0, b[0] as f64, b[1] as f64, b[2] as f64, b[3] as f64, b[4] as f64, b[5] as f64, b[6] as f64]
}

#[derive(Debug, Clone, Copy, PartialEq)]
pub enum DErr {
    Range,
    /// the specification's own algorithm hits one of its assertions on this input (not judged)
    SpecAssert,
}

/// AddDurations without relativeTo.
pub fn add(a: &Fields, b: &Fields) -> Result<Fields, DErr> {
    let largest = default_largest(a).min(default_largest(b));
    if largest < 3 {
        return Err(DErr::Range);
    }
    let t = time_total(a).unwrap() + time_total(b).unwrap();
    if t.abs() >= LIMIT_NS {
        return Err(DErr::Range);
    }
    created(from_total(t, largest))
}

/// CreateTemporalDuration: the balanced fields become doubles (nearest), and it is those doubles that
/// must form a valid duration - a total within half a second of the limit, balanced to a sub-second
/// unit, rounds to a field that is at the limit.
pub fn created(f: Fields) -> Result<Fields, DErr> {
    if is_valid(&f) {
        Ok(f)
    } else {
        Err(DErr::Range)
    }
}

pub fn negate(a: &Fields) -> Fields {
    a.map(|v| if v == 0.0 { 0.0 } else { -v })
}

/// Duration.compare without relativeTo.
pub fn compare(a: &Fields, b: &Fields) -> Result<core::cmp::Ordering, DErr> {
    if a == b {
        return Ok(core::cmp::Ordering::Equal);
    }
    if default_largest(a) < 3 || default_largest(b) < 3 {
        return Err(DErr::Range);
    }
    Ok(time_total(a).unwrap().cmp(&time_total(b).unwrap()))
}

/// Duration.round without relativeTo, for resolved options (largest/smallest as field indices >= 3).
pub fn round(a: &Fields, largest: usize, smallest: usize, inc: u32, mode: Mode) -> Result<Fields, DErr> {
    if default_largest(a) < 3 || largest < 3 {
        return Err(DErr::Range);
    }
    let t = time_total(a).unwrap();
    let r = r4::round(t, inc as i128 * UNIT_NS[smallest - 3], mode);
    if r.abs() >= LIMIT_NS {
        return Err(DErr::Range);
    }
    created(from_total(r, largest))
}

/// Duration.total(unit) without relativeTo as an exact rational (numerator, denominator).
pub fn total(a: &Fields, unit: usize) -> Result<(i128, i128), DErr> {
    if default_largest(a) < 3 || unit < 3 {
        return Err(DErr::Range);
    }
    Ok((time_total(a).unwrap(), UNIT_NS[unit - 3]))
}

/// Is `x` within one ulp of the correctly rounded value of num/den?
pub fn close_to_rational(x: f64, num: i128, den: i128) -> bool {
    // compare x * den with num exactly using i128 around the neighbours of x
    let lo = f64::from_bits(if x > 0.0 { x.to_bits() - 1 } else if x < 0.0 { x.to_bits() + 1 } else { (-f64::MIN_POSITIVE).to_bits() });
    let hi = f64::from_bits(if x > 0.0 { x.to_bits() + 1 } else if x < 0.0 { x.to_bits() - 1 } else { f64::MIN_POSITIVE.to_bits() });
    let (lo, hi) = if lo <= hi { (lo, hi) } else { (hi, lo) };
    // exact comparison lo <= num/den <= hi through rationals: doubles are k * 2^e
    let q = num as f64 / den as f64; // within 1 ulp of the exact quotient for these magnitudes
    let _ = q;
    cmp_f64_rational(lo, num, den) <= 0 && cmp_f64_rational(hi, num, den) >= 0
}

/// sign(x - num/den), exactly (den > 0).
fn cmp_f64_rational(x: f64, num: i128, den: i128) -> i32 {
    if x == 0.0 {
        return -(num.signum() as i32);
    }
    // x = m * 2^e with integer m
    let bits = x.abs().to_bits();
    let exp = ((bits >> 52) & 0x7ff) as i32;
    let frac = bits & ((1u64 << 52) - 1);
    let (m, e) = if exp == 0 { (frac as i128, -1074) } else { ((frac | (1u64 << 52)) as i128, exp - 1075) };
    let m = if x < 0.0 { -m } else { m };
    // compare m * 2^e * den with num
    if e >= 0 {
        if e > 60 {
            return m.signum() as i32; // |x| astronomically large compared to num/den in our domain
        }
        match m.checked_mul(1i128 << e).and_then(|v| v.checked_mul(den)) {
            Some(l) => (l.cmp(&num)) as i32,
            None => m.signum() as i32,
        }
    } else {
        let s = -e;
        if s > 120 {
            return -(num.signum() as i32) * (num != 0) as i32;
        }
        // m * den vs num * 2^s
        match (m.checked_mul(den), num.checked_mul(1i128 << s.min(126))) {
            (Some(l), Some(r)) => (l.cmp(&r)) as i32,
            _ => {
                // fall back to floating comparison with a safety margin (counts as equal)
                0
            }
        }
    }
}

#[cfg(test)]
mod tests {
    use super::*;
    #[test]
    fn validity() {
        assert!(is_valid(&[4294967295.0, 0., 0., 0., 0., 0., 0., 0., 0., 0.]));
        assert!(!is_valid(&[4294967296.0, 0., 0., 0., 0., 0., 0., 0., 0., 0.]));
        assert!(is_valid(&[0., 0., 0., 0., 0., 0., 9007199254740991.0, 0., 0., 0.]));
        assert!(!is_valid(&[0., 0., 0., 0., 0., 0., 9007199254740992.0, 0., 0., 0.]));
        assert!(is_valid(&[0., 0., 0., 0., 0., 0., 9007199254740991.0, 999., 999., 999.]));
        assert!(!is_valid(&[0., 0., 0., 0., 0., 0., 9007199254740991.0, 999., 999., 1000.]));
        assert!(!is_valid(&[1., 0., 0., -1., 0., 0., 0., 0., 0., 0.]));
        assert!(close_to_rational(0.5, 1, 2));
        assert!(close_to_rational(1.0 / 3.0, 1, 3));
        assert!(!close_to_rational(0.34, 1, 3));
        assert!(close_to_rational(-2.5, -5, 2));
    }
}

//! R1 — proleptic Gregorian day line.
//!
//! The primary model is an *odometer*: starting from the anchor 1970-01-01 = day 0 = Thursday it
//! steps one day at a time using only the month-length table and the 4/100/400 rule. A closed
//! form (Hinnant's `days_from_civil` / `civil_from_days`) gives random access and is validated
//! against the odometer by every C01 run.

pub const MIN_DAY: i64 = -100_000_001; // -271821-04-19 (PlainDate lower limit)
pub const MAX_DAY: i64 = 100_000_000; //  +275760-09-13
pub const NS_PER_DAY: i128 = 86_400_000_000_000;
pub const MAX_INSTANT_NS: i128 = NS_PER_DAY * 100_000_000;

pub fn is_leap(y: i64) -> bool {
    (y % 4 == 0 && y % 100 != 0) || y % 400 == 0
}

pub fn days_in_month(y: i64, m: u8) -> u8 {
    match m {
        1 | 3 | 5 | 7 | 8 | 10 | 12 => 31,
        4 | 6 | 9 | 11 => 30,
        2 => {
            if is_leap(y) {
                29
            } else {
                28
            }
        }
        _ => panic!("r1::days_in_month: bad month {m}"),
    }
}

pub fn days_in_year(y: i64) -> u16 {
    if is_leap(y) {
        366
    } else {
        365
    }
}

/// Hinnant's days_from_civil (proleptic Gregorian, day 0 = 1970-01-01). `m` may be 1..=12 only.
pub fn days_from_civil(y: i64, m: u8, d: u8) -> i64 {
    let y = if m <= 2 { y - 1 } else { y };
    let era = y.div_euclid(400);
    let yoe = y.rem_euclid(400);
    let mp = (m as i64 + 9) % 12;
    let doy = (153 * mp + 2) / 5 + d as i64 - 1;
    let doe = yoe * 365 + yoe / 4 - yoe / 100 + doy;
    era * 146_097 + doe - 719_468
}

pub fn civil_from_days(z: i64) -> (i64, u8, u8) {
    let z = z + 719_468;
    let era = z.div_euclid(146_097);
    let doe = z.rem_euclid(146_097);
    let yoe = (doe - doe / 1_460 + doe / 36_524 - doe / 146_096) / 365;
    let y = yoe + era * 400;
    let doy = doe - (365 * yoe + yoe / 4 - yoe / 100);
    let mp = (5 * doy + 2) / 153;
    let d = (doy - (153 * mp + 2) / 5 + 1) as u8;
    let m = if mp < 10 { mp + 3 } else { mp - 9 } as u8;
    (if m <= 2 { y + 1 } else { y }, m, d)
}

#[derive(Debug, Clone, Copy, PartialEq, Eq)]
pub struct Odo {
    pub day: i64,
    pub y: i64,
    pub m: u8,
    pub d: u8,
    /// ISO weekday, Monday = 1 … Sunday = 7
    pub dow: u8,
    /// 1-based ordinal day of the year
    pub doy: u16,
}

impl Odo {
    pub const fn epoch() -> Self {
        Odo { day: 0, y: 1970, m: 1, d: 1, dow: 4, doy: 1 }
    }

    /// Random access through the closed form (validated against the odometer by C01).
    pub fn at(day: i64) -> Self {
        let (y, m, d) = civil_from_days(day);
        let dow = ((day + 3).rem_euclid(7) + 1) as u8; // day 0 = Thursday = 4
        let mut doy = d as u16;
        for mm in 1..m {
            doy += days_in_month(y, mm) as u16;
        }
        Odo { day, y, m, d, dow, doy }
    }

    pub fn of(y: i64, m: u8, d: u8) -> Self {
        Self::at(days_from_civil(y, m, d))
    }

    pub fn next(&mut self) {
        self.day += 1;
        self.dow = if self.dow == 7 { 1 } else { self.dow + 1 };
        if self.d < days_in_month(self.y, self.m) {
            self.d += 1;
            self.doy += 1;
        } else if self.m < 12 {
            self.m += 1;
            self.d = 1;
            self.doy += 1;
        } else {
            self.y += 1;
            self.m = 1;
            self.d = 1;
            self.doy = 1;
        }
    }

    pub fn prev(&mut self) {
        self.day -= 1;
        self.dow = if self.dow == 1 { 7 } else { self.dow - 1 };
        if self.d > 1 {
            self.d -= 1;
            self.doy -= 1;
        } else if self.m > 1 {
            self.m -= 1;
            self.d = days_in_month(self.y, self.m);
            self.doy -= 1;
        } else {
            self.y -= 1;
            self.m = 12;
            self.d = 31;
            self.doy = days_in_year(self.y);
        }
    }

    pub fn jan1_dow(&self) -> u8 {
        (((self.dow as i64 - 1) - (self.doy as i64 - 1)).rem_euclid(7) + 1) as u8
    }

    /// (ISO week-numbering year, ISO week) by the ISO 8601 definition: weeks start on Monday, week 1
    /// is the week containing the year's first Thursday.
    pub fn iso_week(&self) -> (i64, u8) {
        let w = (self.doy as i64 - self.dow as i64 + 10) / 7;
        if w < 1 {
            let py = self.y - 1;
            // weekday of Jan 1 of the previous year
            let pj = ((self.jan1_dow() as i64 - 1) - days_in_year(py) as i64).rem_euclid(7) + 1;
            (py, weeks_in_year(py, pj as u8))
        } else if w > weeks_in_year(self.y, self.jan1_dow()) as i64 {
            (self.y + 1, 1)
        } else {
            (self.y, w as u8)
        }
    }
}

/// Number of ISO weeks in year `y` whose January 1st falls on ISO weekday `jan1_dow`.
pub fn weeks_in_year(y: i64, jan1_dow: u8) -> u8 {
    if jan1_dow == 4 || (is_leap(y) && jan1_dow == 3) {
        53
    } else {
        52
    }
}

/// Is (y, m, d) a real calendar day inside the PlainDate limits?
pub fn date_in_limits(y: i64, m: u8, d: u8) -> bool {
    if !(1..=12).contains(&m) || d < 1 || y < -271_821 || y > 275_760 {
        return false;
    }
    if d > days_in_month(y, m) {
        return false;
    }
    let e = days_from_civil(y, m, d);
    (MIN_DAY..=MAX_DAY).contains(&e)
}

#[cfg(test)]
mod tests {
    use super::*;
    #[test]
    fn anchors() {
        assert_eq!(days_from_civil(1970, 1, 1), 0);
        assert_eq!(civil_from_days(MIN_DAY), (-271821, 4, 19));
        assert_eq!(civil_from_days(MAX_DAY), (275760, 9, 13));
        let o = Odo::of(2020, 12, 31);
        assert_eq!(o.iso_week(), (2020, 53));
        assert_eq!(Odo::of(2021, 1, 3).iso_week(), (2020, 53));
        assert_eq!(Odo::of(2021, 1, 4).iso_week(), (2021, 1));
        assert_eq!(Odo::of(2018, 12, 31).iso_week(), (2019, 1));
        assert_eq!(Odo::of(2000, 1, 1).dow, 6);
    }
}

//! R10 — building values from partial field records (ISO calendar): PrepareCalendarFields / merge /
//! RegulateISODate / RegulateTime; year-month and month-day canonicalisation.

use crate::r1::*;
use crate::r2::{Overflow, Ymd};

#[derive(Debug, Clone, Copy, PartialEq, Eq, Default, Hash)]
pub struct PDate {
    pub year: Option<i64>,
    pub month: Option<u8>,
    /// (number, leap flag) of a syntactically well-formed month code
    pub month_code: Option<(u8, bool)>,
    pub day: Option<u8>,
}

impl PDate {
    pub fn is_empty(&self) -> bool {
        *self == PDate::default()
    }
}

#[derive(Debug, Clone, Copy, PartialEq, Eq)]
pub enum FErr {
    Type,
    Range,
    /// both a missing required field and an invalid field: either error kind is acceptable
    TypeOrRange,
    /// a zero month/day: the ECMAScript layer rejects it before Temporal sees it, the property's
    /// "clamp to the nearest valid value" would say 1 — not judged
    Unjudged,
}

fn code_invalid_for_iso(c: (u8, bool)) -> bool {
    c.1 || c.0 < 1 || c.0 > 12
}

/// CalendarDateFromFields for the ISO calendar. `need_day`: false for year-months (day defaults to 1).
pub fn iso_date_from_fields(p: &PDate, overflow: Overflow, need_day: bool) -> Result<Ymd, FErr> {
    let missing = p.year.is_none() || (p.month.is_none() && p.month_code.is_none()) || (need_day && p.day.is_none());
    let invalid_code = p.month_code.map(code_invalid_for_iso).unwrap_or(false);
    let mismatch = match (p.month, p.month_code) {
        (Some(m), Some(c)) => m != c.0,
        _ => false,
    };
    if missing {
        // a record that is incomplete AND has an invalid / out-of-range field may fail either way
        let year_out = p.year.map(|y| y < -271_821 || y > 275_760).unwrap_or(false);
        let reject_out = overflow == Overflow::Reject && (p.month.map(|m| m > 12).unwrap_or(false) || p.day.map(|d| d > 31).unwrap_or(false));
        return Err(if invalid_code || mismatch || year_out || reject_out { FErr::TypeOrRange } else { FErr::Type });
    }
    if invalid_code || mismatch {
        return Err(FErr::Range);
    }
    let y = p.year.unwrap();
    let m = p.month_code.map(|c| c.0).or(p.month).unwrap();
    let d = p.day.unwrap_or(1);
    if m == 0 || d == 0 {
        return Err(FErr::Unjudged);
    }
    if y < -271_821 || y > 275_760 {
        return Err(FErr::Range);
    }
    let (m, d) = match overflow {
        Overflow::Constrain => {
            let m = m.min(12);
            (m, d.min(days_in_month(y, m)))
        }
        Overflow::Reject => {
            if m > 12 || d > days_in_month(y, m) {
                return Err(FErr::Range);
            }
            (m, d)
        }
    };
    if !date_in_limits(y, m, d) {
        return Err(FErr::Range);
    }
    Ok(Ymd::new(y, m, d))
}

/// CalendarMergeFields: the supplied fields win; month and monthCode are one field for merging.
pub fn merge_date(recv: Ymd, p: &PDate) -> PDate {
    let (month, month_code) = if p.month.is_some() || p.month_code.is_some() { (p.month, p.month_code) } else { (Some(recv.m), Some((recv.m, false))) };
    PDate { year: Some(p.year.unwrap_or(recv.y)), month, month_code, day: Some(p.day.unwrap_or(recv.d)) }
}

pub const TIME_MAX: [u16; 6] = [23, 59, 59, 999, 999, 999];

/// RegulateTime over (hour, minute, second, ms, µs, ns); `base` supplies the fields that are absent.
pub fn time_from_fields(base: [u16; 6], p: [Option<u16>; 6], overflow: Overflow) -> Result<[u16; 6], FErr> {
    let mut out = [0u16; 6];
    for i in 0..6 {
        let v = p[i].unwrap_or(base[i]);
        out[i] = match overflow {
            Overflow::Constrain => v.min(TIME_MAX[i]),
            Overflow::Reject => {
                if v > TIME_MAX[i] {
                    return Err(FErr::Range);
                }
                v
            }
        };
    }
    Ok(out)
}

/// Year-month limits: -271821-04 … +275760-09.
pub fn year_month_in_limits(y: i64, m: u8) -> bool {
    if !(1..=12).contains(&m) {
        return false;
    }
    !(y < -271_821 || y > 275_760 || (y == -271_821 && m < 4) || (y == 275_760 && m > 9))
}

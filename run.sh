#!/bin/bash
# run.sh <property id> <quick|thorough>   — build the harness against /repo's current working tree, run one check
# run.sh replay <file>                    — re-execute one recorded failing case verbosely
# exit: 0 held (known findings printed), 1 violation, >=2 machinery failure (never a verdict)
set -u
cd "$(dirname "$0")"
export CARGO_NET_OFFLINE=true
export VERIF_DIR="$PWD"
export CARGO_TARGET_DIR="$PWD/mc/target"
ID="${1:?usage: run.sh <id> <tier>}"
TIER="${2:-${VERIF_TIER:-quick}}"

build() { # profile
  local prof="$1"
  (
    flock 9
    cd mc && TMC_PROFILE="$prof" cargo build --offline --profile "$prof" -p tmc >"build-$prof.log" 2>&1
  ) 9>mc/.build.lock
  local rc=$?
  if [ $rc -ne 0 ]; then
    echo "MACHINERY: harness build failed (profile $prof); last lines:" >&2
    tail -30 "mc/build-$prof.log" >&2
    exit 2
  fi
}

if [ "$ID" = "replay" ]; then
  FILE="${2:?replay file}"
  prof=$(python3 -c "import json,sys; print(json.load(open(sys.argv[1])).get('profile','checked'))" "$FILE")
  build "$prof"
  exec "mc/target/$prof/tmc" replay "$FILE"
fi

case "$ID" in
  C20)
    exec ./c20.sh "$TIER"
    ;;
  C02|C03)
    # both arithmetic modes: overflow checks + debug assertions on, and plain release arithmetic
    build checked
    build unchecked
    mc/target/checked/tmc check "$ID" --tier "$TIER"; rc1=$?
    mc/target/unchecked/tmc check "$ID" --tier "$TIER"; rc2=$?
    [ $rc1 -ge 2 ] && exit $rc1
    [ $rc2 -ge 2 ] && exit $rc2
    [ $rc1 -eq 1 -o $rc2 -eq 1 ] && exit 1
    exit 0
    ;;
  C15)
    build checked
    if [ "$TIER" = "thorough" ]; then
      # validate the reference TZif reader (R7) against CPython's zoneinfo on the identical query list;
      # a disagreement is a machinery defect (exit 2), never a verdict
      D=$(mktemp /tmp/r7dump.XXXXXX)
      mc/target/checked/tmc r7dump "$D" || exit 2
      X=$(python3 py/tzif_crosscheck.py "$D" | tail -1); rc=$?
      rm -f "$D"
      echo "R7 cross-check: $X" >&2
      case "$X" in *"disagreements=0") ;; *) echo "MACHINERY: reference TZif reader disagrees with CPython zoneinfo" >&2; exit 2;; esac
      export TMC_R7_CROSSCHECK="$X"
    fi
    exec mc/target/checked/tmc check "$ID" --tier "$TIER"
    ;;
  C12|C11)
    build checked
    # ICU4X (debug assertions on) prints a data-error line on stderr for every unknown calendar name
    mc/target/checked/tmc check "$ID" --tier "$TIER" 2> >(grep -v "^ICU4X data error" >&2)
    exit $?
    ;;
  *)
    build checked
    exec mc/target/checked/tmc check "$ID" --tier "$TIER"
    ;;
esac
